import PytmeModel.Proofs.C05

/-! Helper lemmas for C05: arrays, `argmax`, the `call_peaks` strategies, `__call__`. -/
namespace Pm.C05

/-! ## arrays -/

/-- well-formed non-empty score array -/
structure WF (a : Arr Int) : Prop where
  size : a.data.size = prodL a.shape
  pos : 0 < prodL a.shape

theorem flatIdx_unflat : ∀ (shape : List Nat) (k : Nat), k < prodL shape → flatIdx shape (unflat shape k) = k
  | [], k, h => by
      simp only [prodL] at h
      simp only [flatIdx]; omega
  | s :: ss, k, h => by
      simp only [prodL] at h
      have hpos : 0 < prodL ss := by
        rcases Nat.eq_zero_or_pos (prodL ss) with h0 | h0
        · rw [h0] at h; simp at h
        · exact h0
      simp only [unflat, flatIdx]
      rw [flatIdx_unflat ss (k % prodL ss) (Nat.mod_lt _ hpos)]
      exact Nat.div_add_mod' k (prodL ss)

theorem mem_allIdx {shape idx : List Nat} : idx ∈ allIdx shape ↔ inShape shape idx = true := by
  unfold allIdx
  rw [List.mem_map]
  constructor
  · rintro ⟨k, hk, rfl⟩
    exact inShape_unflat shape k (by simpa using hk)
  · intro h
    exact ⟨flatIdx shape idx, by simpa using flatIdx_lt h, unflat_flatIdx h⟩

theorem getD_unflat {a : Arr Int} (hs : a.data.size = prodL a.shape) {k : Nat} (hk : k < prodL a.shape) :
    a.getD (unflat a.shape k) 0 = a.data.toList.getD k 0 := by
  unfold Arr.getD
  rw [if_pos (inShape_unflat _ _ hk), flatIdx_unflat _ _ hk]
  simp [Array.getD, List.getD_eq_getElem?_getD, hs, hk]

theorem getD_eq_data {a : Arr Int} (hs : a.data.size = prodL a.shape) {idx : List Nat}
    (h : inShape a.shape idx = true) :
    a.getD idx 0 = a.data.toList.getD (flatIdx a.shape idx) 0 := by
  have := getD_unflat hs (flatIdx_lt h)
  rw [unflat_flatIdx h] at this
  exact this

theorem inShape_getElem : ∀ (shape c : List Nat), inShape shape c = true →
    ∀ i (h1 : i < shape.length) (h2 : i < c.length), c[i] < shape[i]
  | [], _, _, i, h1, _ => by simp at h1
  | _ :: _, [], _, i, _, h2 => by simp at h2
  | s :: ss, p :: ps, h, i, h1, h2 => by
      obtain ⟨h0, hr⟩ := inShape_cons.mp h
      cases i with
      | zero => simpa using h0
      | succ i =>
        simp only [List.getElem_cons_succ]
        exact inShape_getElem ss ps hr i (by simpa using h1) (by simpa using h2)

/-! ## argmax -/

theorem argmaxOf_spec (f : List Nat → Int) : ∀ (l : List (List Nat)) (y : List Nat),
    argmaxOf f l = some y → y ∈ l ∧ ∀ x ∈ l, f x ≤ f y
  | [], y, h => by simp [argmaxOf] at h
  | x :: xs, y, h => by
      unfold argmaxOf at h
      split at h
      · rename_i hnone
        simp only [Option.some.injEq] at h; subst h
        have : xs = [] := by
          cases xs with
          | nil => rfl
          | cons z zs =>
            exfalso
            unfold argmaxOf at hnone
            split at hnone <;> (try split at hnone) <;> simp at hnone
        subst this
        simp
      · rename_i y' hsome
        have ih := argmaxOf_spec f xs y' hsome
        split at h
        · rename_i hlt
          simp only [Option.some.injEq] at h; subst h
          refine ⟨List.mem_cons_of_mem _ ih.1, ?_⟩
          intro z hz
          rcases List.mem_cons.mp hz with rfl | hz'
          · omega
          · exact ih.2 z hz'
        · rename_i hge
          simp only [Option.some.injEq] at h; subst h
          refine ⟨by simp, ?_⟩
          intro z hz
          rcases List.mem_cons.mp hz with rfl | hz'
          · exact Int.le_refl _
          · have := ih.2 z hz'; omega

theorem argmaxOf_isSome (f : List Nat → Int) : ∀ (l : List (List Nat)), l ≠ [] → ∃ y, argmaxOf f l = some y
  | [], h => absurd rfl h
  | x :: xs, _ => by
      unfold argmaxOf
      split
      · exact ⟨x, rfl⟩
      · split
        · exact ⟨_, rfl⟩
        · exact ⟨_, rfl⟩

theorem allIdx_ne_nil {shape : List Nat} (h : 0 < prodL shape) : allIdx shape ≠ [] := by
  unfold allIdx
  intro hnil
  have := congrArg List.length hnil
  simp at this
  omega

/-- a non-empty array has a maximiser -/
theorem exists_max {a : Arr Int} (hwf : WF a) :
    ∃ c, inShape a.shape c = true ∧ ∀ idx, inShape a.shape idx = true → a.getD idx 0 ≤ a.getD c 0 := by
  obtain ⟨y, hy⟩ := argmaxOf_isSome (fun i => a.getD i 0) (allIdx a.shape) (allIdx_ne_nil hwf.pos)
  have := argmaxOf_spec _ _ _ hy
  exact ⟨y, mem_allIdx.mp this.1, fun idx h => this.2 idx (mem_allIdx.mpr h)⟩

/-- `c` attains the maximum of the array -/
def IsMaxAt (a : Arr Int) (c : List Nat) : Prop :=
  inShape a.shape c = true ∧ ∀ idx, inShape a.shape idx = true → a.getD idx 0 ≤ a.getD c 0

/-! ## PeakCallerSort -/

theorem callSort_inShape {cfg : Cfg} {a : Arr Int} {o : Option (List Nat)} (hwf : WF a)
    (hok : TopkOk a.data.toList (min cfg.nPeaks a.data.toList.length) (selectTopk a.data.toList (min cfg.nPeaks a.data.toList.length) o))
    {c : List Nat} (hc : c ∈ callSort cfg a o) : inShape a.shape c = true := by
  unfold callSort at hc
  simp only [List.mem_map] at hc
  obtain ⟨i, hi, rfl⟩ := hc
  have := hok.2.1 i hi
  apply inShape_unflat
  have hs := hwf.size
  simp only [Array.length_toList] at this
  omega

theorem callSort_hasMax {cfg : Cfg} {a : Arr Int} {o : Option (List Nat)} (hwf : WF a) (hn : 0 < cfg.nPeaks)
    (hok : TopkOk a.data.toList (min cfg.nPeaks a.data.toList.length) (selectTopk a.data.toList (min cfg.nPeaks a.data.toList.length) o)) :
    ∃ c ∈ callSort cfg a o, IsMaxAt a c := by
  have hs := hwf.size
  have hp := hwf.pos
  have hlen : a.data.toList.length = prodL a.shape := by simp [hs]
  obtain ⟨i0, rest, horder, hbest⟩ := hok.2.2 (by omega) (by omega)
  have hi0 : i0 < prodL a.shape := by
    have := hok.2.1 i0 (by rw [horder]; simp)
    omega
  refine ⟨unflat a.shape i0, ?_, inShape_unflat _ _ hi0, ?_⟩
  · unfold callSort
    simp only [List.mem_map]
    exact ⟨i0, by rw [horder]; simp, rfl⟩
  · intro idx hidx
    rw [getD_unflat hs hi0, getD_eq_data hs hidx]
    exact hbest _ (by have := flatIdx_lt hidx; omega)

/-! ## PeakCallerMaximumFilter -/

theorem clampIdx_lt {n : Nat} (hn : 0 < n) (x : Int) : clampIdx n x < n := by
  unfold clampIdx
  split
  · exact hn
  · omega

theorem winAll_of_forall (d : Nat) : ∀ (shape idx : List Nat) (P : List Nat → Bool),
    inShape shape idx = true → (∀ j, inShape shape j = true → P j = true) → winAll d shape idx P = true
  | [], [], P, _, hP => by simpa [winAll] using hP [] rfl
  | [], _ :: _, _, h, _ => by simp [inShape] at h
  | _ :: _, [], _, h, _ => by simp [inShape] at h
  | s :: ss, i :: is, P, h, hP => by
      obtain ⟨hi, hr⟩ := inShape_cons.mp h
      unfold winAll
      rw [List.all_eq_true]
      intro o _
      apply winAll_of_forall d ss is _ hr
      intro rest hrest
      apply hP
      exact inShape_cons.mpr ⟨clampIdx_lt (by omega) _, hrest⟩

theorem callMaxFilter_inShape {d : Nat} {a : Arr Int} {c : List Nat} (hc : c ∈ callMaxFilter d a) :
    inShape a.shape c = true := by
  unfold callMaxFilter at hc
  exact mem_allIdx.mp (List.mem_filter.mp hc).1

theorem callMaxFilter_hasMax (d : Nat) {a : Arr Int} (hwf : WF a) : ∃ c ∈ callMaxFilter d a, IsMaxAt a c := by
  obtain ⟨c, hc, hmax⟩ := exists_max hwf
  refine ⟨c, ?_, hc, hmax⟩
  unfold callMaxFilter
  rw [List.mem_filter]
  refine ⟨mem_allIdx.mpr hc, ?_⟩
  unfold isWinMax
  apply winAll_of_forall d _ _ _ hc
  intro j hj
  simpa using hmax j hj

/-! ## PeakCallerRecursiveMasking -/

theorem maskBox_shape (md : Nat) (a : Arr Int) (pk : List Nat) : (maskBox md a pk).shape = a.shape := rfl

theorem recLoop_inShape (md : Nat) (minimum : Int) : ∀ (fuel : Nat) (a : Arr Int) (c : List Nat),
    c ∈ recLoop md minimum fuel a → inShape a.shape c = true
  | 0, _, c, h => by simp [recLoop] at h
  | f + 1, a, c, h => by
      unfold recLoop at h
      split at h
      · simp at h
      · rename_i pk hpk
        split at h
        · simp at h
        · rcases List.mem_cons.mp h with rfl | h'
          · exact mem_allIdx.mp (argmaxOf_spec _ _ _ hpk).1
          · have := recLoop_inShape md minimum f _ c h'
            rwa [maskBox_shape] at this

theorem callRecursive_inShape {cfg : Cfg} {a : Arr Int} {c : List Nat} (hc : c ∈ callRecursive cfg a) :
    inShape a.shape c = true := by
  unfold callRecursive at hc
  split at hc <;> exact recLoop_inShape _ _ _ _ _ hc

theorem listMin_le : ∀ (l : List Int) (x : Int), x ∈ l → listMin l ≤ x
  | [], x, h => by simp at h
  | [y], x, h => by simp at h; subst h; simp [listMin]
  | y :: z :: r, x, h => by
      unfold listMin
      rcases List.mem_cons.mp h with rfl | h'
      · exact Int.min_le_left _ _
      · exact Int.le_trans (Int.min_le_right _ _) (listMin_le (z :: r) x h')

/-- without a score window the first iteration reports the array's maximiser -/
theorem callRecursive_hasMax {cfg : Cfg} {a : Arr Int} (hwf : WF a) (hn : 0 < cfg.nPeaks)
    (hlo : cfg.minScore = none) : ∃ c ∈ callRecursive cfg a, IsMaxAt a c := by
  obtain ⟨pk, hpk⟩ := argmaxOf_isSome (fun i => a.getD i 0) (allIdx a.shape) (allIdx_ne_nil hwf.pos)
  have hspec := argmaxOf_spec _ _ _ hpk
  have hin := mem_allIdx.mp hspec.1
  refine ⟨pk, ?_, hin, fun idx h => hspec.2 idx (mem_allIdx.mpr h)⟩
  unfold callRecursive
  rw [hlo]
  obtain ⟨n', hn'⟩ : ∃ n', cfg.nPeaks = n' + 1 := ⟨cfg.nPeaks - 1, by omega⟩
  simp only [hn']
  unfold recLoop
  simp only [hpk]
  have hmem : a.getD pk 0 ∈ a.data.toList := by
    rw [getD_eq_data hwf.size hin]
    have hlt := flatIdx_lt hin
    have : flatIdx a.shape pk < a.data.toList.length := by simp [hwf.size]; exact hlt
    rw [List.getD_eq_getElem?_getD, List.getElem?_eq_getElem this]
    simp
  have := listMin_le _ _ hmem
  rw [if_neg (by omega)]
  simp

/-! ## `__call__`: margin, score look-up, window -/

theorem callStage_mem {cfg : Cfg} {scores : Arr Int} {rot : Nat} {cands : List (List Nat)} {p : Peak}
    (h : p ∈ callStage cfg scores rot cands) :
    ∃ c ∈ cands, p = mkPeak scores rot c ∧ inWindow cfg p.score = true ∧
      (0 < cfg.minBoundary → inMargin cfg.minBoundary scores.shape c = true) := by
  unfold callStage at h
  simp only [List.mem_filter, List.mem_map] at h
  obtain ⟨⟨c, hc, rfl⟩, hw⟩ := h
  by_cases hmb : cfg.minBoundary > 0
  · rw [if_pos hmb] at hc
    obtain ⟨hc1, hc2⟩ := List.mem_filter.mp hc
    exact ⟨c, hc1, rfl, hw, fun _ => hc2⟩
  · rw [if_neg hmb] at hc
    exact ⟨c, hc, rfl, hw, fun h => absurd h hmb⟩

/-- without margin and score window nothing is filtered -/
theorem callStage_plain {cfg : Cfg} (hmb : cfg.minBoundary = 0) (hlo : cfg.minScore = none)
    (hhi : cfg.maxScore = none) (scores : Arr Int) (rot : Nat) (cands : List (List Nat)) :
    callStage cfg scores rot cands = cands.map (mkPeak scores rot) := by
  unfold callStage inWindow
  simp [hmb, hlo, hhi]

/-- per-axis meaning of the margin test -/
theorem inMargin_spec (mb : Nat) : ∀ (shape c : List Nat), inMargin mb shape c = true →
    ∀ i (h1 : i < shape.length) (h2 : i < c.length), mb ≤ c[i] ∧ c[i] + mb < shape[i]
  | [], _, _, i, h1, _ => by simp at h1
  | _ :: _, [], _, i, _, h2 => by simp at h2
  | s :: ss, p :: ps, h, i, h1, h2 => by
      simp only [inMargin, Bool.and_eq_true, decide_eq_true_eq] at h
      cases i with
      | zero => simp only [List.getElem_cons_zero]; omega
      | succ i =>
        simp only [List.getElem_cons_succ]
        exact inMargin_spec mb ss ps h.2 i (by simpa using h1) (by simpa using h2)

end Pm.C05
