import PytmeModel.Model.Common
import Mathlib.Tactic.Ring
import Mathlib.Tactic.Linarith

/-! Lemmas about the shared vocabulary: `flatIdx`/`unflat` are mutually inverse on a shape,
and reading an `Arr.ofFn` returns the generating function. -/
namespace Pm

theorem inShape_cons {s i : Nat} {ss is : List Nat} :
    inShape (s :: ss) (i :: is) = true ↔ i < s ∧ inShape ss is = true := by
  simp [inShape]

theorem inShape_length : ∀ {shape idx : List Nat}, inShape shape idx = true → idx.length = shape.length
  | [], [], _ => rfl
  | [], _ :: _, h => by simp [inShape] at h
  | _ :: _, [], h => by simp [inShape] at h
  | s :: ss, i :: is, h => by
      have := (inShape_cons.mp h).2
      simp [inShape_length this]

theorem flatIdx_lt : ∀ {shape idx : List Nat}, inShape shape idx = true → flatIdx shape idx < prodL shape
  | [], [], _ => by simp [flatIdx, prodL]
  | [], _ :: _, h => by simp [inShape] at h
  | _ :: _, [], h => by simp [inShape] at h
  | s :: ss, i :: is, h => by
      obtain ⟨hi, hr⟩ := inShape_cons.mp h
      have ih := flatIdx_lt hr
      simp only [flatIdx, prodL]
      calc i * prodL ss + flatIdx ss is < i * prodL ss + prodL ss := by omega
        _ = (i + 1) * prodL ss := by ring
        _ ≤ s * prodL ss := Nat.mul_le_mul_right _ hi

theorem unflat_flatIdx : ∀ {shape idx : List Nat}, inShape shape idx = true →
    unflat shape (flatIdx shape idx) = idx
  | [], [], _ => rfl
  | [], _ :: _, h => by simp [inShape] at h
  | _ :: _, [], h => by simp [inShape] at h
  | s :: ss, i :: is, h => by
      obtain ⟨_, hr⟩ := inShape_cons.mp h
      have hlt := flatIdx_lt hr
      have ih := unflat_flatIdx hr
      have hpos : 0 < prodL ss := by omega
      simp only [flatIdx, unflat]
      have h1 : (i * prodL ss + flatIdx ss is) / prodL ss = i := by
        rw [Nat.add_comm, Nat.add_mul_div_right _ _ hpos, Nat.div_eq_of_lt hlt]; simp
      have h2 : (i * prodL ss + flatIdx ss is) % prodL ss = flatIdx ss is := by
        rw [Nat.add_comm, Nat.add_mul_mod_self_right, Nat.mod_eq_of_lt hlt]
      rw [h1, h2, ih]

theorem inShape_unflat : ∀ (shape : List Nat) (k : Nat), k < prodL shape → inShape shape (unflat shape k) = true
  | [], _, _ => rfl
  | s :: ss, k, h => by
      simp only [prodL] at h
      have hpos : 0 < prodL ss := by
        rcases Nat.eq_zero_or_pos (prodL ss) with h0 | h0
        · rw [h0] at h; simp at h
        · exact h0
      simp only [unflat, inShape_cons]
      refine ⟨?_, inShape_unflat ss _ (Nat.mod_lt _ hpos)⟩
      exact Nat.div_lt_of_lt_mul (by rw [Nat.mul_comm]; exact h)

/-- Reading an array built from a function returns the function, inside the shape. -/
theorem Arr.getD_ofFn {α : Type} (shape idx : List Nat) (f : List Nat → α) (d : α)
    (h : inShape shape idx = true) : (Arr.ofFn shape f).getD idx d = f idx := by
  have hlt := flatIdx_lt h
  simp [Arr.getD, Arr.ofFn, h, Array.getD, hlt, unflat_flatIdx h]

/-- … and the default outside. -/
theorem Arr.getD_ofFn_out {α : Type} (shape idx : List Nat) (f : List Nat → α) (d : α)
    (h : inShape shape idx = false) : (Arr.ofFn shape f).getD idx d = d := by
  simp [Arr.getD, Arr.ofFn, h]

theorem Arr.size_ofFn {α : Type} (shape : List Nat) (f : List Nat → α) :
    (Arr.ofFn shape f).data.size = prodL shape := by
  simp [Arr.ofFn]

end Pm
