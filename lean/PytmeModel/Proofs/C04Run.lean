import PytmeModel.Proofs.C04

/-! Invariant of one analyzer over its submission history (C04). -/
namespace Pm.C04
set_option linter.unusedSectionVars false
variable {K : Type} [DecidableEq K]

/-- What is true of an analyzer of shape `shape` and threshold `thr` after exactly the history `h`. -/
structure Inv (shape : List Nat) (thr : Int) (h : List (Arr Int × K)) (s : State K) : Prop where
  shape_sc : s.scores.shape = shape
  table_ok : TableOK s.table
  keys : ∀ k, (lookup k s.table).isSome ↔ ∃ a, (a, k) ∈ h
  score : ∀ idx, inShape shape idx = true → s.scores.getD idx 0 = specMax thr (valsAt h idx)
  rot : ∀ idx, inShape shape idx = true →
    (s.rots.getD idx 0 = -1 ∧ s.scores.getD idx 0 = thr) ∨
    (∃ a k i, (a, k) ∈ h ∧ lookup k s.table = some i ∧ s.rots.getD idx 0 = (i : Int) ∧
      a.getD idx 0 = s.scores.getD idx 0 ∧ thr < s.scores.getD idx 0)

theorem inv_init (shape : List Nat) (thr : Int) : Inv (K := K) shape thr [] (init shape thr) where
  shape_sc := rfl
  table_ok := tableOK_nil
  keys := by intro k; simp [init, lookup]
  score := by
    intro idx h
    simp only [init, valsAt, List.map_nil, specMax_nil]
    rw [Arr.getD_ofFn _ _ _ _ h]
  rot := by
    intro idx h
    left
    simp only [init]
    rw [Arr.getD_ofFn _ _ _ _ h, Arr.getD_ofFn _ _ _ _ h]
    exact ⟨rfl, rfl⟩

theorem inv_submit {shape : List Nat} {thr : Int} {h : List (Arr Int × K)} {s : State K}
    (inv : Inv shape thr h s) (a : Arr Int) (k : K) : Inv shape thr (h ++ [(a, k)]) (submit s a k) := by
  obtain ⟨hlk, hold, hkeys⟩ := setdefault_spec s.table k
  have hsh : inShape s.scores.shape = inShape shape := by rw [inv.shape_sc]
  refine ⟨?_, ?_, ?_, ?_, ?_⟩
  · rw [submit_shape]; exact inv.shape_sc
  · rw [submit_table]; exact setdefault_ok inv.table_ok k
  · intro k'
    rw [submit_table, hkeys k', inv.keys k']
    constructor
    · rintro (⟨a', ha'⟩ | rfl)
      · exact ⟨a', List.mem_append_left _ ha'⟩
      · exact ⟨a, by simp⟩
    · rintro ⟨a', ha'⟩
      rcases List.mem_append.mp ha' with h1 | h1
      · exact Or.inl ⟨a', h1⟩
      · simp at h1; exact Or.inr h1.2
  · intro idx hin
    have hin' : inShape s.scores.shape idx = true := by rw [hsh]; exact hin
    rw [submit_scores_getD s a k idx hin', inv.score idx hin, valsAt_snoc, specMax_append]
    rfl
  · intro idx hin
    have hin' : inShape s.scores.shape idx = true := by rw [hsh]; exact hin
    rw [submit_scores_getD s a k idx hin', submit_rots_getD s a k idx hin', submit_table]
    have hge : thr ≤ s.scores.getD idx 0 := by rw [inv.score idx hin]; exact le_specMax _ _
    by_cases hgt : a.getD idx 0 > s.scores.getD idx 0
    · right
      refine ⟨a, k, (setdefault s.table k).2, by simp, hlk, by simp [hgt], ?_, ?_⟩ <;> omega
    · rcases inv.rot idx hin with ⟨h1, h2⟩ | ⟨a', k', i, hm, hl, hr, hv, ht⟩
      · left; simp only [hgt, if_false]; exact ⟨h1, by omega⟩
      · right
        refine ⟨a', k', i, List.mem_append_left _ hm, hold k' i hl, by simp only [hgt, if_false]; exact hr, ?_, ?_⟩ <;> omega

theorem inv_runFrom {shape : List Nat} {thr : Int} (h : List (Arr Int × K)) :
    ∀ (h0 : List (Arr Int × K)) (s : State K), Inv shape thr h0 s → Inv shape thr (h0 ++ h) (runFrom s h) := by
  induction h with
  | nil => intro h0 s inv; simpa [runFrom] using inv
  | cons x l ih =>
    intro h0 s inv
    obtain ⟨a, k⟩ := x
    have := ih (h0 ++ [(a, k)]) (submit s a k) (inv_submit inv a k)
    simpa [runFrom, List.append_assoc] using this

theorem inv_run (shape : List Nat) (thr : Int) (h : List (Arr Int × K)) : Inv shape thr h (run shape thr h) := by
  have := inv_runFrom h [] (init shape thr) (inv_init shape thr)
  simpa [run] using this

end Pm.C04
