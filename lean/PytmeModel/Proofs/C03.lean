import PytmeModel.Model.C01
import PytmeModel.Proofs.Circ
import PytmeModel.Proofs.C01Field
import Mathlib.Algebra.BigOperators.Group.Finset.Basic
import Mathlib.Algebra.Order.Ring.Defs
import Mathlib.Algebra.Order.Field.Basic
import Mathlib.Tactic.Ring
import Mathlib.Tactic.Linarith
import Mathlib.Tactic.FieldSimp
import Mathlib.Tactic.Positivity

/-! Box sums are positive linear functionals; weighted Cauchy–Schwarz without square roots. -/
namespace Pm.C03
open Pm.C01

section lin
variable {α : Type} [CommRing α]

theorem sumRange_add (n : Nat) (f g : Nat → α) : sumRange n (fun i => f i + g i) = sumRange n f + sumRange n g := by
  induction n with
  | zero => simp [sumRange]
  | succ k ih => simp only [sumRange, ih]; ring

theorem sumRange_mul_left (n : Nat) (c : α) (f : Nat → α) : sumRange n (fun i => c * f i) = c * sumRange n f := by
  induction n with
  | zero => simp [sumRange]
  | succ k ih => simp only [sumRange, ih]; ring

theorem sumShape_add : ∀ (ms : List Nat) (F G : List Nat → α),
    sumShape ms (fun k => F k + G k) = sumShape ms F + sumShape ms G
  | [], F, G => rfl
  | m :: ms, F, G => by
    simp only [sumShape]
    rw [← sumRange_add]
    apply sumRange_congr
    intro i _
    exact sumShape_add ms _ _

theorem sumShape_mul_left : ∀ (ms : List Nat) (c : α) (F : List Nat → α),
    sumShape ms (fun k => c * F k) = c * sumShape ms F
  | [], c, F => rfl
  | m :: ms, c, F => by
    simp only [sumShape]
    rw [← sumRange_mul_left]
    apply sumRange_congr
    intro i _
    exact sumShape_mul_left ms c _

theorem sumShape_sub (ms : List Nat) (F G : List Nat → α) :
    sumShape ms (fun k => F k - G k) = sumShape ms F - sumShape ms G := by
  have h := sumShape_add ms F (fun k => (-1) * G k)
  rw [sumShape_mul_left] at h
  have e : (fun k => F k - G k) = fun k => F k + (-1) * G k := by funext k; ring
  rw [e, h]; ring

end lin

section ord
variable {α : Type} [CommRing α] [LinearOrder α] [IsStrictOrderedRing α]

theorem sumRange_nonneg (n : Nat) (f : Nat → α) (h : ∀ i, i < n → 0 ≤ f i) : 0 ≤ sumRange n f := by
  induction n with
  | zero => simp [sumRange]
  | succ k ih =>
    simp only [sumRange]
    exact add_nonneg (ih (fun i hi => h i (Nat.lt_succ_of_lt hi))) (h k (Nat.lt_succ_self k))

theorem sumShape_nonneg : ∀ (ms : List Nat) (F : List Nat → α),
    (∀ k, inShape ms k = true → 0 ≤ F k) → 0 ≤ sumShape ms F
  | [], F, h => h [] rfl
  | m :: ms, F, h => by
    simp only [sumShape]
    apply sumRange_nonneg
    intro i hi
    apply sumShape_nonneg
    intro k hk
    apply h
    simp [inShape, hi, hk]

/-- **Weighted Cauchy–Schwarz on a box**, no square roots: for weights `w ≥ 0`,
`(Σ w a b)² ≤ (Σ w a²)(Σ w b²)`. -/
theorem box_cauchy_schwarz (ms : List Nat) (w a b : List Nat → α) (hw : ∀ k, inShape ms k = true → 0 ≤ w k) :
    (sumShape ms (fun k => w k * (a k * b k))) ^ 2
      ≤ sumShape ms (fun k => w k * (a k * a k)) * sumShape ms (fun k => w k * (b k * b k)) := by
  set Sab := sumShape ms (fun k => w k * (a k * b k)) with hSab
  set Saa := sumShape ms (fun k => w k * (a k * a k)) with hSaa
  set Sbb := sumShape ms (fun k => w k * (b k * b k)) with hSbb
  -- S((x a − y b)²) ≥ 0 for all scalars x y, expanded by linearity
  have key : ∀ x y : α, 0 ≤ x * x * Saa - 2 * (x * y) * Sab + y * y * Sbb := by
    intro x y
    have h0 : 0 ≤ sumShape ms (fun k => w k * ((x * a k - y * b k) * (x * a k - y * b k))) :=
      sumShape_nonneg ms _ (fun k hk => mul_nonneg (hw k hk) (mul_self_nonneg _))
    have e : (fun k => w k * ((x * a k - y * b k) * (x * a k - y * b k)))
        = fun k => (x * x) * (w k * (a k * a k)) + ((-(2 * (x * y))) * (w k * (a k * b k)) + (y * y) * (w k * (b k * b k))) := by
      funext k; ring
    rw [e, sumShape_add, sumShape_add, sumShape_mul_left, sumShape_mul_left, sumShape_mul_left] at h0
    linarith
  have haa : 0 ≤ Saa := sumShape_nonneg ms _ (fun k hk => mul_nonneg (hw k hk) (mul_self_nonneg _))
  have hbb : 0 ≤ Sbb := sumShape_nonneg ms _ (fun k hk => mul_nonneg (hw k hk) (mul_self_nonneg _))
  rcases haa.lt_or_eq with hpos | hz
  · -- x = Sab, y = Saa:  Saa (Saa Sbb − Sab²) ≥ 0
    have h := key Sab Saa
    have h2 : 0 ≤ Saa * (Saa * Sbb - Sab ^ 2) := by nlinarith
    have h3 : 0 ≤ Saa * Sbb - Sab ^ 2 := by
      by_contra hneg
      have : Saa * (Saa * Sbb - Sab ^ 2) < 0 := mul_neg_of_pos_of_neg hpos (not_le.mp hneg)
      linarith
    linarith
  · rcases hbb.lt_or_eq with hposb | hzb
    · have h := key Sbb Sab
      have h2 : 0 ≤ Sbb * (Saa * Sbb - Sab ^ 2) := by nlinarith
      have h3 : 0 ≤ Saa * Sbb - Sab ^ 2 := by
        by_contra hneg
        have : Sbb * (Saa * Sbb - Sab ^ 2) < 0 := mul_neg_of_pos_of_neg hposb (not_le.mp hneg)
        linarith
      linarith
    · -- both vanish: S(ab) = 0
      have h1 := key 1 1
      have h2 := key 1 (-1)
      rw [← hz, ← hzb] at h1 h2
      have : Sab = 0 := by linarith
      rw [this, ← hz]; simp
end ord


section win
variable {α : Type} [Field α] [LinearOrder α] [IsStrictOrderedRing α]

/-- the masked sums of one window: `w` mask weights, `a` window values, `h` template values -/
structure Win (α : Type) where
  ms : List Nat
  w : List Nat → α
  a : List Nat → α
  h : List Nat → α

variable (W : Win α)

def Win.n : α := sumShape W.ms W.w
def Win.mu : α := sumShape W.ms (fun k => W.w k * W.h k) / W.n
def Win.fbar : α := sumShape W.ms (fun k => W.w k * W.a k) / W.n
/-- numerator before division by the template's standard deviation: `Σ w a (h − μ)` -/
def Win.N : α := sumShape W.ms (fun k => W.w k * (W.a k * (W.h k - W.mu)))
/-- `Σ w (a − ā)²` -/
def Win.A : α := sumShape W.ms (fun k => W.w k * ((W.a k - W.fbar) * (W.a k - W.fbar)))
/-- `Σ w (h − μ)²` -/
def Win.B : α := sumShape W.ms (fun k => W.w k * ((W.h k - W.mu) * (W.h k - W.mu)))

theorem Win.centered_sum_zero (hn : W.n ≠ 0) : sumShape W.ms (fun k => W.w k * (W.h k - W.mu)) = 0 := by
  have e : (fun k => W.w k * (W.h k - W.mu)) = fun k => W.w k * W.h k - W.mu * W.w k := by funext k; ring
  rw [e, sumShape_sub, sumShape_mul_left]
  unfold Win.mu
  have : W.n = sumShape W.ms W.w := rfl
  rw [← this]
  field_simp
  ring

/-- the numerator only sees the centred window: `Σ w a (h−μ) = Σ w (a−ā)(h−μ)` -/
theorem Win.N_centered (hn : W.n ≠ 0) :
    W.N = sumShape W.ms (fun k => W.w k * ((W.a k - W.fbar) * (W.h k - W.mu))) := by
  have e : (fun k => W.w k * ((W.a k - W.fbar) * (W.h k - W.mu)))
      = fun k => W.w k * (W.a k * (W.h k - W.mu)) - W.fbar * (W.w k * (W.h k - W.mu)) := by funext k; ring
  rw [e, sumShape_sub, sumShape_mul_left, W.centered_sum_zero hn]
  simp [Win.N]

/-- the code's variance formula `E[x²] − E[x]²` is the centred sum: `Σ w a²/n − (Σ w a/n)² = A/n` -/
theorem Win.var_formula_a (hn : W.n ≠ 0) :
    sumShape W.ms (fun k => W.w k * (W.a k * W.a k)) / W.n - (sumShape W.ms (fun k => W.w k * W.a k) / W.n) ^ 2
      = W.A / W.n := by
  have e : (fun k => W.w k * ((W.a k - W.fbar) * (W.a k - W.fbar)))
      = fun k => W.w k * (W.a k * W.a k) + ((-(2 * W.fbar)) * (W.w k * W.a k) + (W.fbar * W.fbar) * W.w k) := by
    funext k; ring
  unfold Win.A
  rw [e, sumShape_add, sumShape_add, sumShape_mul_left, sumShape_mul_left]
  unfold Win.fbar
  have : W.n = sumShape W.ms W.w := rfl
  rw [← this]
  field_simp
  ring

theorem Win.var_formula_h (hn : W.n ≠ 0) :
    sumShape W.ms (fun k => W.w k * (W.h k * W.h k)) / W.n - (sumShape W.ms (fun k => W.w k * W.h k) / W.n) ^ 2
      = W.B / W.n :=
  Win.var_formula_a ⟨W.ms, W.w, W.h, W.h⟩ hn

end win

section ordops
variable {α : Type} [Field α] [LinearOrder α] [IsStrictOrderedRing α]

/-- scalar operations of an ordered field with the real comparison -/
def ordOps (sqrt : α → α) (eps : α) : Ops α :=
  { zero := 0, one := 1, add := (· + ·), sub := (· - ·), mul := (· * ·), div := (· / ·),
    sqrt := sqrt, lt := fun a b => decide (a < b), ofNat := fun n => (n : α), eps := eps }

/-- what the square root has to satisfy (true of the real one) -/
structure SqrtOk (sqrt : α → α) : Prop where
  nonneg : ∀ x, 0 ≤ sqrt x
  sq : ∀ x, 0 ≤ x → sqrt x * sqrt x = x

theorem boxSum_ord (sqrt : α → α) (eps : α) : ∀ (ms : List Nat) (F : List Nat → α),
    boxSum (ordOps sqrt eps) ms F = sumShape ms F
  | [], F => rfl
  | m :: ms, F => by
    simp only [boxSum, sumShape]
    have : ∀ i, boxSum (ordOps sqrt eps) ms (fun idx => F (i :: idx)) = sumShape ms (fun idx => F (i :: idx)) :=
      fun i => boxSum_ord sqrt eps ms _
    simp only [this]
    exact foldl_range_add m _

theorem max0_of_nonneg (sqrt : α → α) (eps x : α) (hx : 0 ≤ x) : (ordOps sqrt eps).max0 x = x := by
  simp [Ops.max0, ordOps, not_lt.mpr hx]

end ordops

section flcwin
variable {α : Type}

/-- the masked window the FLC-family formulas see at translation `t`: weights = (rotated) mask, `a` = target window,
`h` = (rotated) template — an abbreviation for the `Win.mk …` the formula theorems are stated about -/
@[reducible] def flcWin (ms : List Nat) (t : List Int) (f G Wm : List Int → α) : Win α :=
  ⟨ms, fun k => Wm (natsToInts k), fun k => f (specIdx ms t k), fun k => G (natsToInts k)⟩

end flcwin

section corrwin
variable {α : Type} [Field α] [LinearOrder α] [IsStrictOrderedRing α]

/-- the rotated standardised masked template CORR / CAM correlate the target with (`corr_setup` + `corr_scoring`) -/
def corrH (sqrt : α → α) (eps : α) (ms : List Nat) (rot : (List Int → α) → (List Int → α)) (g Wm : List Int → α) :
    List Int → α :=
  rot (fun x => (ordOps sqrt eps).mul
    (normT (ordOps sqrt eps) (normStats (ordOps sqrt eps) ms g Wm (maskSum (ordOps sqrt eps) ms Wm)) g Wm x) (Wm x))

/-- the window CORR / CAM see with the full-box mask: weights 1, target window, template `H` -/
@[reducible] def corrWin (ms : List Nat) (t : List Int) (f H : List Int → α) : Win α :=
  ⟨ms, fun _ => 1, fun k => f (specIdx ms t k), fun k => H (natsToInts k)⟩

end corrwin

section mccwin
variable {α : Type} [Field α] [LinearOrder α] [IsStrictOrderedRing α]

/-- the window MCC sees at translation `t`: weights `tm(t+k)·W(k)` (target mask × template mask), target window,
template standardised with the statistics `normalize_template` computes under the template mask -/
def mccWin (sqrt : α → α) (eps : α) (ms : List Nat) (t : List Int) (f tm G W : List Int → α) : Win α :=
  ⟨ms, fun k => tm (specIdx ms t k) * W (natsToInts k), fun k => f (specIdx ms t k),
   fun k => (G (natsToInts k) - (normStats (ordOps sqrt eps) ms G W (maskSum (ordOps sqrt eps) ms W)).1)
              / (normStats (ordOps sqrt eps) ms G W (maskSum (ordOps sqrt eps) ms W)).2⟩

end mccwin

end Pm.C03
