import PytmeModel.Model.C13
import Mathlib.Tactic.Linarith

/-! `_set_matching_dimension`: the loop on stretches without batch axes, and the two common configurations -/
namespace Pm.C13

theorem matchLoop_plain (ts ps tdims pdims : List Nat) : ∀ (rem k ti pi col : Nat),
    (∀ j, k ≤ j → j < k + rem → tdims.contains (j - ti) = false ∧ pdims.contains (j - pi) = false) →
    matchLoop ts ps tdims pdims rem k ti pi col
      = some ((List.range' k rem).map fun j => (ts.getD (j - ti) 1, ps.getD (j - pi) 1, false))
  | 0, _, _, _, _, _ => rfl
  | rem + 1, k, ti, pi, col, h => by
    obtain ⟨h1, h2⟩ := h k (Nat.le_refl _) (by omega)
    have ih := matchLoop_plain ts ps tdims pdims rem (k + 1) ti pi col (fun j hj1 hj2 => h j (by omega) (by omega))
    unfold matchLoop
    simp only [h1, h2, Bool.false_eq_true, if_false, ih, Option.map_some, List.range'_succ, List.map_cons]

theorem map_range'_succ {β : Type} (f : Nat → β) : ∀ (n k : Nat),
    (List.range' (k + 1) n).map f = (List.range' k n).map (fun j => f (j + 1))
  | 0, _ => rfl
  | n + 1, k => by
    simp only [List.range'_succ, List.map_cons]
    rw [map_range'_succ f n (k + 1)]

theorem map_getD_range' (d : Nat) : ∀ (l : List Nat), (List.range' 0 l.length).map (fun j => l.getD j d) = l
  | [] => rfl
  | x :: xs => by
    simp only [List.length_cons, List.range'_succ, List.map_cons]
    rw [map_range'_succ]
    have := map_getD_range' d xs
    simp only [List.getD_cons_succ, List.getD_cons_zero] at this ⊢
    rw [this]

theorem map_const_range' {β : Type} (c : β) : ∀ (n k : Nat), (List.range' k n).map (fun _ => c) = List.replicate n c
  | 0, _ => rfl
  | n + 1, k => by
    simp only [List.range'_succ, List.map_cons, List.replicate_succ]
    rw [map_const_range' c n (k + 1)]

end Pm.C13
