import PytmeModel.Model.C11
import PytmeModel.Proofs.C11

/-! C11 — `get_extraction_slices` end to end, `copy`, `__iter__`: helper lemmas -/
namespace Pm.C11

/-! ### axis-indexed reading of the n-D functions -/

/-- the window of axis `k` is the per-axis window of the `k`-th extents and coordinate (axes beyond the
shortest of the three lists do not exist: `zip`) -/
theorem windowAxes_getElem? (T e : List Nat) (p : List Int) (k : Nat) (w : Int × Int × Int × Int) :
    (windowAxes T e p)[k]? = some w ↔
      ∃ Tk ek pk, T[k]? = some Tk ∧ e[k]? = some ek ∧ p[k]? = some pk ∧
        w = (candBeg ek pk, candEnd Tk ek pk, obsBeg ek pk, obsEnd Tk ek pk) := by
  induction T generalizing e p k with
  | nil => simp [windowAxes]
  | cons T Ts ih =>
    cases e with
    | nil => simp [windowAxes]
    | cons e es =>
      cases p with
      | nil => simp [windowAxes]
      | cons p ps =>
        cases k with
        | zero => simp [windowAxes, eq_comm]
        | succ k => simp [windowAxes, ih]

/-- a pick is kept exactly when every axis passes the per-axis test -/
theorem keepPick_iff_axes (T e : List Nat) (p : List Int) :
    keepPick T e p = true ↔
      ∀ (k : Nat) Tk ek pk, T[k]? = some Tk → e[k]? = some ek → p[k]? = some pk → keepAxis Tk ek pk = true := by
  induction T generalizing e p with
  | nil => simp [keepPick]
  | cons T Ts ih =>
    cases e with
    | nil => simp [keepPick]
    | cons e es =>
      cases p with
      | nil => simp [keepPick]
      | cons p ps =>
        simp only [keepPick, Bool.and_eq_true, ih]
        constructor
        · rintro ⟨h0, hs⟩ k Tk ek pk hT he hp
          cases k with
          | zero =>
            simp only [List.getElem?_cons_zero, Option.some.injEq] at hT he hp
            subst hT; subst he; subst hp; exact h0
          | succ k =>
            simp only [List.getElem?_cons_succ] at hT he hp
            exact hs k Tk ek pk hT he hp
        · intro h
          refine ⟨h 0 T e p rfl rfl rfl, ?_⟩
          intro k Tk ek pk hT he hp
          exact h (k + 1) Tk ek pk (by simpa using hT) (by simpa using he) (by simpa using hp)

/-! ### the list of picks -/

theorem maskSel_all {α : Type} (l : List α) (m : List Bool) (hl : m.length = l.length) (h : ∀ b ∈ m, b = true) :
    maskSel l m = l := by
  induction l generalizing m with
  | nil => cases m <;> simp [maskSel]
  | cons x xs ih =>
    cases m with
    | nil => simp at hl
    | cons b bs =>
      have hb : b = true := h b (by simp)
      subst hb
      simp only [maskSel, if_true]
      rw [ih bs (by simpa using hl) (fun b hb => h b (by simp [hb]))]

theorem maskSel_length {α : Type} (l : List α) (m : List Bool) (h : l.length = m.length) :
    (maskSel l m).length = (m.filter id).length := by
  induction l generalizing m with
  | nil => cases m <;> simp_all [maskSel]
  | cons x xs ih =>
    cases m with
    | nil => simp at h
    | cons b bs =>
      have := ih bs (by simpa using h)
      cases b <;> simp_all [maskSel]

/-- the step function of `extraction` -/
def exStep (T e : List Nat) (drop : Bool) : Nat × List Int → Option (Nat × List (Int × Int × Int × Int)) :=
  fun (i, p) => if !drop || keepPick T e p then some (i, windowAxes T e p) else none

theorem extraction_eq (T e : List Nat) (peaks : List (List Int)) (drop : Bool) :
    extraction T e peaks drop = ((List.range peaks.length).zip peaks).filterMap (exStep T e drop) := rfl

theorem exStep_fst (T e : List Nat) (drop : Bool) (peaks : List (List Int)) (k : Nat) :
    (((List.range' k peaks.length).zip peaks).filterMap (exStep T e drop)).map (·.1) =
      maskSel (List.range' k peaks.length) (keepMask T e peaks drop) := by
  induction peaks generalizing k with
  | nil => simp [maskSel]
  | cons p ps ih =>
    have ih' := ih (k + 1)
    simp only [keepMask] at ih' ⊢
    simp only [List.length_cons, List.range'_succ, List.zip_cons_cons, List.filterMap_cons, List.map_cons, maskSel]
    by_cases hc : (!drop || keepPick T e p) = true
    · simp only [exStep, hc, if_true, List.map_cons]
      rw [ih']
    · simp only [exStep, hc, if_false, Bool.false_eq_true]
      rw [ih']

theorem exStep_snd (T e : List Nat) (drop : Bool) (peaks : List (List Int)) (k : Nat) :
    (((List.range' k peaks.length).zip peaks).filterMap (exStep T e drop)).map (·.2) =
      (maskSel peaks (keepMask T e peaks drop)).map (windowAxes T e) := by
  induction peaks generalizing k with
  | nil => simp [maskSel]
  | cons p ps ih =>
    have ih' := ih (k + 1)
    simp only [keepMask] at ih' ⊢
    simp only [List.length_cons, List.range'_succ, List.zip_cons_cons, List.filterMap_cons, List.map_cons, maskSel]
    by_cases hc : (!drop || keepPick T e p) = true
    · simp only [exStep, hc, if_true, List.map_cons]
      rw [ih']
    · simp only [exStep, hc, if_false, Bool.false_eq_true]
      rw [ih']

theorem mem_range_zip {α : Type} (l : List α) (i : Nat) (x : α) :
    (i, x) ∈ (List.range l.length).zip l ↔ l[i]? = some x := by
  constructor
  · intro h
    obtain ⟨k, hk, hk'⟩ := List.mem_iff_getElem.mp h
    simp only [List.getElem_zip, List.getElem_range, Prod.mk.injEq] at hk'
    obtain ⟨rfl, rfl⟩ := hk'
    simp only [List.length_zip, List.length_range, Nat.min_self] at hk
    simp [hk]
  · intro h
    obtain ⟨hi, rfl⟩ := List.getElem?_eq_some_iff.mp h
    refine List.mem_iff_getElem.mpr ⟨i, by simpa using hi, ?_⟩
    simp [List.getElem_zip]

/-- membership in the result of `extraction` -/
theorem mem_extraction (T e : List Nat) (peaks : List (List Int)) (drop : Bool) (i : Nat)
    (w : List (Int × Int × Int × Int)) :
    (i, w) ∈ extraction T e peaks drop ↔
      ∃ p, peaks[i]? = some p ∧ (drop = false ∨ keepPick T e p = true) ∧ w = windowAxes T e p := by
  rw [extraction_eq, List.mem_filterMap]
  constructor
  · rintro ⟨⟨j, p⟩, hm, hs⟩
    rw [mem_range_zip] at hm
    simp only [exStep] at hs
    split at hs
    · rename_i hc
      simp only [Option.some.injEq, Prod.mk.injEq] at hs
      obtain ⟨rfl, rfl⟩ := hs
      refine ⟨p, hm, ?_, rfl⟩
      cases drop <;> simp_all
    · cases hs
  · rintro ⟨p, hp, hk, rfl⟩
    refine ⟨(i, p), (mem_range_zip _ _ _).mpr hp, ?_⟩
    simp only [exStep]
    rcases hk with rfl | hk
    · simp
    · simp [hk]

theorem maskSel_index {α : Type} (l : List α) (m : List Bool) (s k i : Nat)
    (h : (maskSel (List.range' s l.length) m)[k]? = some i) :
    s ≤ i ∧ i < s + l.length ∧ (maskSel l m)[k]? = l[i - s]? := by
  induction l generalizing m s k with
  | nil => cases m <;> simp [maskSel] at h
  | cons x xs ih =>
    cases m with
    | nil => simp [maskSel] at h
    | cons b bs =>
      simp only [List.length_cons, List.range'_succ, maskSel] at h ⊢
      cases b with
      | true =>
        simp only [if_true] at h ⊢
        cases k with
        | zero =>
          simp only [List.getElem?_cons_zero, Option.some.injEq] at h
          subst h
          simp
        | succ k =>
          simp only [List.getElem?_cons_succ] at h ⊢
          obtain ⟨h1, h2, h3⟩ := ih bs (s + 1) k h
          refine ⟨by omega, by omega, ?_⟩
          rw [h3]
          have : i - s = (i - (s + 1)) + 1 := by omega
          rw [this, List.getElem?_cons_succ]
      | false =>
        simp only [Bool.false_eq_true, if_false] at h ⊢
        obtain ⟨h1, h2, h3⟩ := ih bs (s + 1) k h
        refine ⟨by omega, by omega, ?_⟩
        rw [h3]
        have : i - s = (i - (s + 1)) + 1 := by omega
        rw [this, List.getElem?_cons_succ]

/-! ### float → int -/

theorem tdiv_bounds (m q : Int) (hq : 0 < q) :
    (0 ≤ m → Int.tdiv m q * q ≤ m ∧ m < (Int.tdiv m q + 1) * q ∧ 0 ≤ Int.tdiv m q) ∧
    (m ≤ 0 → (Int.tdiv m q - 1) * q < m ∧ m ≤ Int.tdiv m q * q ∧ Int.tdiv m q ≤ 0) := by
  constructor
  · intro hm
    rw [Int.tdiv_eq_ediv_of_nonneg hm]
    have h1 := Int.ediv_mul_le m (Int.ne_of_gt hq)
    have h2 := Int.lt_ediv_add_one_mul_self m hq
    exact ⟨h1, h2, Int.ediv_nonneg hm (Int.le_of_lt hq)⟩
  · intro hm
    have hn : 0 ≤ -m := by omega
    have e1 : Int.tdiv m q = -(Int.tdiv (-m) q) := by rw [Int.neg_tdiv]; omega
    rw [e1, Int.tdiv_eq_ediv_of_nonneg hn]
    have h1 := Int.ediv_mul_le (-m) (Int.ne_of_gt hq)
    have h2 := Int.lt_ediv_add_one_mul_self (-m) hq
    have h3 := Int.ediv_nonneg hn (Int.le_of_lt hq)
    refine ⟨?_, ?_, by omega⟩
    · have : (-(-m / q) - 1) * q = -((-m / q + 1) * q) := by ring
      rw [this]; omega
    · have : -(-m / q) * q = -((-m / q) * q) := by ring
      rw [this]; omega

/-! ### `copy` -/

theorem takeIdx_arange_aux {α : Type} (pre l : List α) :
    takeIdx (pre ++ l) ((List.range' pre.length l.length).map Int.ofNat) = .ok l := by
  induction l generalizing pre with
  | nil => simp [takeIdx, pure, Except.pure]
  | cons x xs ih =>
    simp only [List.length_cons, List.range'_succ, List.map_cons]
    rw [takeIdx_cons]
    have hn : normIndex (pre ++ x :: xs).length (Int.ofNat pre.length) = .ok pre.length := by
      unfold normIndex
      simp only [List.length_append, List.length_cons, Int.ofNat_eq_natCast]
      rw [if_pos (by omega)]
      simp [pure, Except.pure]
    have ih' := ih (pre ++ [x])
    simp only [List.length_append, List.length_cons, List.length_nil, List.append_assoc, List.cons_append,
      List.nil_append, Nat.zero_add] at ih'
    rw [hn, ih']
    simp [bind, Except.bind, pure, Except.pure]

theorem takeIdx_arange {α : Type} (l : List α) : takeIdx l (arange l.length) = .ok l := by
  have h := takeIdx_arange_aux [] l
  simpa [arange, List.range_eq_range'] using h

end Pm.C11
