import PytmeModel.Proofs.C13Pad
import PytmeModel.Props.C01

/-! the post-processing read position of C13's executable model, tied to C01's frame lemmas and C05's `mapSrc` -/
namespace Pm.C13

theorem postSrc_eq_rawIdx (N : Nat) (shift : Int) (start t : Nat) :
    postSrc N shift start t = (Pm.C01.rawIdx N shift (start : Int) (t : Int)).toNat := by
  unfold postSrc rollSrc Pm.C01.rawIdx
  congr 2
  push_cast
  ring

theorem mapSrc_eq_postSrc (ax : Pm.C05.Axis) (t : Nat) (h : 0 ≤ Pm.C05.cropStart ax) :
    Pm.C05.mapSrc ax t = postSrc ax.fast ax.shift (Pm.C05.cropStart ax).toNat t := by
  unfold Pm.C05.mapSrc postSrc
  congr 1
  omega

theorem cropStart_nat (conv ext : Nat) (h : ext ≤ conv) :
    Pm.C01.cropStart conv ext = (((conv - ext) / 2 : Nat) : Int) := by
  unfold Pm.C01.cropStart; omega

/-- full Fourier padding, `same` crop, any template extent (also larger than the target) -/
theorem window_same_pad (g : Bool) (n m N t : Nat) (hm : 0 < m) (hn : 0 < n) (ht : t < n)
    (hN : max n m + m - 1 ≤ N) (hg : n < m → g = true) :
    postSrc N (shiftAxis true g n m false) ((max n m + m - 1 - n) / 2) t = t + (m - 1) / 2 := by
  rw [shiftAxis_eq_C01 true g n m hg, postSrc_eq_rawIdx]
  have hc : Pm.C01.convLen n m true = max n m + m - 1 := by simp [Pm.C01.convLen]
  have h := (Pm.C01.same_axis_full n m N (t : Int) hm hn (by rw [hc]; exact hN) (by omega) (by omega)).1
  rw [hc, cropStart_nat _ _ (by omega)] at h
  rw [h]; omega

/-- no Fourier padding, template fits, `same` crop: voxels whose window lies inside the target -/
theorem window_same_nopad (g : Bool) (n m N t : Nat) (b : Bool) (hm : 0 < m) (hmn : m ≤ n) (hN : n ≤ N)
    (h0 : m / 2 ≤ t) (h1 : t + (m - 1) / 2 ≤ n - 1) :
    postSrc N (shiftAxis false g n m b) 0 t = t + (m - 1) / 2 := by
  rw [shiftAxis_fits false g n m b hmn, baseShift_eq_C01, postSrc_eq_rawIdx]
  have hc : Pm.C01.convLen n m false = n := Pm.C01.convLen_nopad n m hmn
  have h := (Pm.C01.same_axis false n m N (t : Int) hm hmn (by rw [hc]; exact hN) (by omega) (by omega)
    (fun _ => ⟨by omega, by omega⟩)).1
  rw [hc, cropStart_nat _ _ (Nat.le_refl _)] at h
  simp only [Nat.sub_self, Nat.zero_div] at h
  rw [h]; omega

/-- `valid` crop, template fits, with or without Fourier padding -/
theorem window_valid (pad g : Bool) (n m N j : Nat) (b : Bool) (hm : 0 < m) (hmn : m ≤ n)
    (hN : Pm.C01.convLen n m pad ≤ N) (hj : j < n - m + m % 2) :
    postSrc N (shiftAxis pad g n m b) ((Pm.C01.convLen n m pad - (n - m + m % 2)) / 2) j = j + m / 2 + (m - 1) / 2 := by
  rw [shiftAxis_fits pad g n m b hmn, baseShift_eq_C01, postSrc_eq_rawIdx]
  have h := (Pm.C01.valid_axis pad n m N (j : Int) hm hmn hN (by omega) (by unfold Pm.C01.validExt; omega)).1
  have hle : n - m + m % 2 ≤ Pm.C01.convLen n m pad := by
    cases pad
    · rw [Pm.C01.convLen_nopad n m hmn]; omega
    · rw [Pm.C01.convLen_pad n m hmn]; omega
  unfold Pm.C01.validExt at h
  rw [cropStart_nat _ _ hle] at h
  rw [h]; omega


/-! ### n-D side conditions -/

/-- template fits on every axis, `t` a target voxel, window inside the target when there is no Fourier padding -/
def FitsAt (pad : Bool) : List Nat → List Nat → List Int → Prop
  | [], [], [] => True
  | n :: ns, m :: ms, t :: ts =>
      (0 < m ∧ m ≤ n ∧ 0 ≤ t ∧ t < n ∧
        (pad = false → (((m / 2 : Nat) : Int) ≤ t ∧ t ≤ (n : Int) - 1 - (((m - 1) / 2 : Nat) : Int)))) ∧ FitsAt pad ns ms ts
  | _, _, _ => False

/-- template fits on every axis, `j` a voxel of the `valid` output -/
def ValidAt : List Nat → List Nat → List Int → Prop
  | [], [], [] => True
  | n :: ns, m :: ms, j :: js => (0 < m ∧ m ≤ n ∧ 0 ≤ j ∧ j < Pm.C01.validExt n m) ∧ ValidAt ns ms js
  | _, _, _ => False

theorem fitsAt_fits (pad : Bool) : ∀ (ns ms : List Nat) (ts : List Int), FitsAt pad ns ms ts → Fits ns ms
  | [], [], [], _ => trivial
  | _ :: ns, _ :: ms, _ :: ts, ⟨⟨_, h, _⟩, hr⟩ => ⟨h, fitsAt_fits pad ns ms ts hr⟩
  | [], [], _ :: _, h => by cases h
  | [], _ :: _, _, h => by cases h
  | _ :: _, [], _, h => by cases h
  | _ :: _, _ :: _, [], h => by cases h

theorem validAt_fits : ∀ (ns ms : List Nat) (js : List Int), ValidAt ns ms js → Fits ns ms
  | [], [], [], _ => trivial
  | _ :: ns, _ :: ms, _ :: js, ⟨⟨_, h, _⟩, hr⟩ => ⟨h, validAt_fits ns ms js hr⟩
  | [], [], _ :: _, h => by cases h
  | [], _ :: _, _, h => by cases h
  | _ :: _, [], _, h => by cases h
  | _ :: _, _ :: _, [], h => by cases h

/-! ### array level, `same` crop with full Fourier padding -/

/-- per axis: positive extents, `t` a target voxel, the array has room for the convolution -/
def SamePadOk : List Nat → List Nat → List Nat → List Nat → Prop
  | [], [], [], [] => True
  | n :: ns, m :: ms, N :: Ns, t :: ts => (0 < m ∧ 0 < n ∧ t < n ∧ max n m + m - 1 ≤ N) ∧ SamePadOk ns ms Ns ts
  | _, _, _, _ => False

/-- the convolution shape with full padding -/
def padConv (tg tp : List Nat) : List Nat := List.zipWith (fun n m => max n m + m - 1) tg tp

/-- crop starts of the `same` mode -/
def sameStarts (tg tp : List Nat) : List Nat := List.zipWith (fun c n => (c - n) / 2) (padConv tg tp) tg

theorem pySlice_center (c n : Nat) (h : n ≤ c) :
    pySlice c (centerStart c n) (centerStop c n) = ((c - n) / 2, (c - n) / 2 + n) := by
  have hs : centerStart c n = (((c - n) / 2 : Nat) : Int) := by unfold centerStart; omega
  have he : centerStop c n = (((c - n) / 2 + n : Nat) : Int) := by
    unfold centerStop; rw [hs]; push_cast; ring
  unfold pySlice
  rw [hs, he]
  have a : ¬ ((((c - n) / 2 : Nat) : Int) < 0) := by omega
  have b : ¬ ((((c - n) / 2 + n : Nat) : Int) < 0) := by omega
  simp only [a, b, if_false, Int.toNat_natCast]
  have e1 : min ((c - n) / 2) c = (c - n) / 2 := by omega
  have e2 : min ((c - n) / 2 + n) c = (c - n) / 2 + n := by omega
  rw [e1, e2]
  congr 1
  omega

theorem convCrop_same_any (c n m : Nat) (h : n ≤ c) : convCrop .same c n m = some ((c - n) / 2, n) := by
  unfold convCrop
  simp only
  rw [pySlice_center c n h]
  simp

theorem convCrops_same_pad : ∀ (tg tp Ns ts : List Nat), SamePadOk tg tp Ns ts →
    convCrops .same (padConv tg tp) tg tp = some (List.zip (sameStarts tg tp) tg)
  | [], [], [], [], _ => rfl
  | n :: ns, m :: ms, N :: Ns, t :: ts, ⟨⟨hm, hn, ht, hN⟩, hr⟩ => by
    have ih := convCrops_same_pad ns ms Ns ts hr
    unfold convCrops at ih ⊢
    unfold padConv sameStarts at ih ⊢
    unfold padConv
    simp only [List.zipWith_cons_cons, zip3With, List.mapM_cons, id, List.zip_cons_cons]
    rw [convCrop_same_any _ n m (by omega), ih]
    rfl
  | [], [], [], _ :: _, h => by cases h
  | [], [], _ :: _, _, h => by cases h
  | [], _ :: _, _, _, h => by cases h
  | _ :: _, [], _, _, h => by cases h
  | _ :: _, _ :: _, [], _, h => by cases h
  | _ :: _, _ :: _, _ :: _, [], h => by cases h

theorem same_pad_lists (g : Bool) : ∀ (tg tp : List Nat) (bm : List Bool) (Ns ts : List Nat),
    NoBatch tg tp bm → (SomeLarger tg tp → g = true) → SamePadOk tg tp Ns ts →
    rollIdx Ns (zip3With (shiftAxis true g) tg tp bm) (List.zipWith (· + ·) (sameStarts tg tp) ts)
        = List.zipWith (fun t m => t + (m - 1) / 2) ts tp ∧
    inShape Ns (List.zipWith (· + ·) (sameStarts tg tp) ts) = true ∧
    inShape tg ts = true ∧
    (List.zip (sameStarts tg tp) tg).map (·.1) = sameStarts tg tp ∧
    (List.zip (sameStarts tg tp) tg).map (·.2) = tg
  | [], [], [], [], [], _, _, _ => by simp [rollIdx, zip3With, sameStarts, padConv, inShape]
  | n :: ns, m :: ms, b :: bs, N :: Ns, t :: ts, ⟨hb, hbr⟩, hg, ⟨⟨hm, hn, ht, hN⟩, hr⟩ => by
    subst hb
    obtain ⟨i1, i2, i3, i4, i5⟩ := same_pad_lists g ns ms bs Ns ts hbr (fun h => hg (Or.inr h)) hr
    unfold sameStarts padConv at i1 i2 i4 i5 ⊢
    unfold rollIdx at i1 ⊢
    simp only [List.zipWith_cons_cons, zip3With, List.zip_cons_cons, List.map_cons] at i1 i2 i4 i5 ⊢
    have hw := window_same_pad g n m N t hm hn ht hN (fun h => hg (Or.inl h))
    unfold postSrc at hw
    refine ⟨by rw [hw, i1], ?_, ?_, by rw [i4], by rw [i5]⟩
    · rw [inShape_cons]; exact ⟨by omega, i2⟩
    · rw [inShape_cons]; exact ⟨ht, i3⟩
  | [], [], _ :: _, _, _, h, _, _ => by cases h
  | [], _ :: _, _, _, _, h, _, _ => by cases h
  | _ :: _, [], _, _, _, h, _, _ => by cases h
  | _ :: _, _ :: _, [], _, _, h, _, _ => by cases h
  | [], [], [], _ :: _, _, _, _, h => by cases h
  | [], [], [], [], _ :: _, _, _, h => by cases h
  | _ :: _, _ :: _, _ :: _, [], _, _, _, h => by cases h
  | _ :: _, _ :: _, _ :: _, _ :: _, [], _, _, h => by cases h

end Pm.C13
