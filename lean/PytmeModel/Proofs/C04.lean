import PytmeModel.Model.C04
import PytmeModel.Proofs.Common

/-! Helper lemmas for C04: running maximum, the rotation table, one submission, boxes. -/
namespace Pm.C04
set_option linter.unusedSectionVars false

/-! ## `specMax` = fold of `max` -/

theorem specMax_nil (thr : Int) : specMax thr [] = thr := rfl
theorem specMax_cons (thr x : Int) (l : List Int) : specMax thr (x :: l) = specMax (max thr x) l := rfl

theorem specMax_append (thr : Int) (l₁ l₂ : List Int) :
    specMax thr (l₁ ++ l₂) = specMax (specMax thr l₁) l₂ := by
  simp [specMax, List.foldl_append]

theorem le_specMax (thr : Int) (l : List Int) : thr ≤ specMax thr l := by
  induction l generalizing thr with
  | nil => simp [specMax]
  | cons x l ih =>
    rw [specMax_cons]
    have := ih (max thr x)
    omega

theorem mem_le_specMax {thr x : Int} {l : List Int} (h : x ∈ l) : x ≤ specMax thr l := by
  induction l generalizing thr with
  | nil => cases h
  | cons y l ih =>
    rw [specMax_cons]
    rcases List.mem_cons.mp h with rfl | h
    · have := le_specMax (max thr x) l
      omega
    · exact ih h

theorem specMax_eq_or_mem (thr : Int) (l : List Int) : specMax thr l = thr ∨ specMax thr l ∈ l := by
  induction l generalizing thr with
  | nil => left; rfl
  | cons x l ih =>
    rw [specMax_cons]
    rcases ih (max thr x) with h | h
    · rcases Int.le_total thr x with hx | hx
      · right; rw [h]; simp [Int.max_eq_right hx]
      · left; rw [h]; exact Int.max_eq_left hx
    · right; exact List.mem_cons_of_mem _ h

/-- `specMax` is characterised by: upper bound of threshold and values, and attained -/
theorem specMax_unique {thr m : Int} {l : List Int} (h0 : thr ≤ m) (h1 : ∀ x ∈ l, x ≤ m)
    (h2 : m = thr ∨ m ∈ l) : m = specMax thr l := by
  have a := le_specMax thr l
  have c := specMax_eq_or_mem thr l
  rcases h2 with h2 | h2
  · rcases c with c | c
    · omega
    · have := h1 _ c; omega
  · have := mem_le_specMax (thr := thr) h2
    rcases c with c | c
    · omega
    · have := h1 _ c; omega

theorem specMax_perm {thr : Int} {l₁ l₂ : List Int} (h : l₁.Perm l₂) : specMax thr l₁ = specMax thr l₂ := by
  apply specMax_unique (le_specMax _ _)
  · intro x hx; exact mem_le_specMax (h.mem_iff.mpr hx)
  · rcases specMax_eq_or_mem thr l₁ with c | c
    · left; exact c
    · right; exact h.mem_iff.mp c

/-- folding a sub-maximum in: `max v (max of l above thr) = max of l above v` when `thr ≤ v` -/
theorem max_specMax {thr v : Int} (l : List Int) (h : thr ≤ v) : max v (specMax thr l) = specMax v l := by
  apply specMax_unique
  · omega
  · intro x hx; have := mem_le_specMax (thr := thr) hx; omega
  · rcases specMax_eq_or_mem thr l with c | c
    · left; omega
    · rcases Int.le_total v (specMax thr l) with hv | hv
      · right; rw [Int.max_eq_right hv]; exact c
      · left; exact Int.max_eq_left hv

theorem specMax_congr_mem {thr : Int} {l₁ l₂ : List Int} (h : ∀ x, x ∈ l₁ ↔ x ∈ l₂) :
    specMax thr l₁ = specMax thr l₂ := by
  apply specMax_unique (le_specMax _ _)
  · intro x hx; exact mem_le_specMax ((h x).mpr hx)
  · rcases specMax_eq_or_mem thr l₁ with c | c
    · exact Or.inl c
    · exact Or.inr ((h _).mp c)

theorem specMax_eq_thr_iff (thr : Int) (l : List Int) : specMax thr l = thr ↔ ∀ x ∈ l, x ≤ thr := by
  constructor
  · intro h x hx; have := mem_le_specMax (thr := thr) hx; omega
  · intro h
    rcases specMax_eq_or_mem thr l with c | c
    · exact c
    · have := h _ c; have := le_specMax thr l; omega

/-! ## the rotation table -/

section table
variable {K : Type} [DecidableEq K]

/-- identifiers are `0 … n-1` in insertion order and keys are pairwise different -/
def TableOK (t : Table K) : Prop := t.map Prod.snd = List.range t.length ∧ (t.map Prod.fst).Nodup

theorem lookup_eq_none_iff (k : K) (t : Table K) : lookup k t = none ↔ k ∉ t.map Prod.fst := by
  induction t with
  | nil => simp [lookup]
  | cons kv t ih =>
    obtain ⟨k', i⟩ := kv
    by_cases h : k' = k
    · simp [lookup, h]
    · simp only [lookup, h, if_false, List.map_cons, List.mem_cons, not_or]
      rw [ih]
      constructor
      · intro hh; exact ⟨fun e => h e.symm, hh⟩
      · intro hh; exact hh.2

theorem lookup_some_mem {k : K} {t : Table K} {i : Nat} (h : lookup k t = some i) : (k, i) ∈ t := by
  induction t with
  | nil => simp [lookup] at h
  | cons kv t ih =>
    obtain ⟨k', j⟩ := kv
    by_cases hk : k' = k
    · simp [lookup, hk] at h; subst hk; subst h; exact List.mem_cons_self
    · simp [lookup, hk] at h; exact List.mem_cons_of_mem _ (ih h)

theorem lookup_append (k : K) (t u : Table K) :
    lookup k (t ++ u) = match lookup k t with | some i => some i | none => lookup k u := by
  induction t with
  | nil => simp [lookup]
  | cons kv t ih =>
    obtain ⟨k', j⟩ := kv
    by_cases hk : k' = k
    · simp [lookup, hk]
    · simp [lookup, hk, ih]

theorem mem_lookup_of_nodup {k : K} {i : Nat} {t : Table K} (hn : (t.map Prod.fst).Nodup) (h : (k, i) ∈ t) :
    lookup k t = some i := by
  induction t with
  | nil => cases h
  | cons kv t ih =>
    obtain ⟨k', j⟩ := kv
    simp only [List.map_cons, List.nodup_cons] at hn
    rcases List.mem_cons.mp h with e | h'
    · cases e; simp [lookup]
    · have : k' ≠ k := by
        intro e; subst e
        exact hn.1 (List.mem_map.mpr ⟨(k', i), h', rfl⟩)
      simp [lookup, this, ih hn.2 h']

theorem TableOK.snd_lt {t : Table K} (ok : TableOK t) {k : K} {i : Nat} (h : (k, i) ∈ t) : i < t.length := by
  have : i ∈ t.map Prod.snd := List.mem_map.mpr ⟨(k, i), h, rfl⟩
  rw [ok.1] at this
  exact List.mem_range.mp this

theorem TableOK.lookup_lt {t : Table K} (ok : TableOK t) {k : K} {i : Nat} (h : lookup k t = some i) : i < t.length :=
  ok.snd_lt (lookup_some_mem h)

/-- different keys never share an identifier -/
theorem TableOK.injective {t : Table K} (ok : TableOK t) {k k' : K} {i : Nat}
    (h : lookup k t = some i) (h' : lookup k' t = some i) : k = k' := by
  have hs : (t.map Prod.snd).Nodup := by rw [ok.1]; exact List.nodup_range
  have m := lookup_some_mem h
  have m' := lookup_some_mem h'
  clear h h' ok
  induction t with
  | nil => cases m
  | cons kv t ih =>
    simp only [List.map_cons, List.nodup_cons] at hs
    rcases List.mem_cons.mp m with e | m1 <;> rcases List.mem_cons.mp m' with e' | m1'
    · rw [← e'] at e; exact (Prod.mk.inj e).1
    · exfalso; subst e; exact hs.1 (List.mem_map.mpr ⟨(k', i), m1', rfl⟩)
    · exfalso; subst e'; exact hs.1 (List.mem_map.mpr ⟨(k, i), m1, rfl⟩)
    · exact ih hs.2 m1 m1'

theorem tableOK_nil : TableOK ([] : Table K) := ⟨rfl, List.nodup_nil⟩

theorem tableOK_snoc {t : Table K} (ok : TableOK t) {k : K} (h : lookup k t = none) :
    TableOK (t ++ [(k, t.length)]) := by
  constructor
  · simp [ok.1, List.range_succ]
  · rw [List.map_append, List.nodup_append]
    refine ⟨ok.2, by simp, ?_⟩
    intro a ha b hb
    simp at hb; subst hb
    intro e; subst e
    exact (lookup_eq_none_iff _ _).mp h ha

/-- what `setdefault` does to lookups: old entries keep their identifier, the key has one afterwards -/
theorem setdefault_spec (t : Table K) (k : K) :
    lookup k (setdefault t k).1 = some (setdefault t k).2 ∧
    (∀ k' i, lookup k' t = some i → lookup k' (setdefault t k).1 = some i) ∧
    (∀ k', (lookup k' (setdefault t k).1).isSome ↔ ((lookup k' t).isSome ∨ k' = k)) := by
  unfold setdefault
  cases h : lookup k t with
  | some i =>
    refine ⟨h, fun _ _ h' => h', fun k' => ?_⟩
    constructor
    · intro hh; exact Or.inl hh
    · rintro (hh | rfl)
      · exact hh
      · simp [h]
  | none =>
    refine ⟨?_, ?_, ?_⟩
    · simp [lookup_append, h, lookup]
    · intro k' i h'; simp [lookup_append, h']
    · intro k'
      rw [lookup_append]
      cases h' : lookup k' t with
      | some j => simp
      | none =>
        by_cases e : k = k'
        · subst e; simp [lookup]
        · have e' : ¬ k' = k := fun x => e x.symm
          simp [lookup, e, e']

theorem setdefault_ok {t : Table K} (ok : TableOK t) (k : K) : TableOK (setdefault t k).1 := by
  unfold setdefault
  cases h : lookup k t with
  | some i => exact ok
  | none => exact tableOK_snoc ok h

theorem setdefault_length_le (t : Table K) (k : K) : t.length ≤ (setdefault t k).1.length := by
  unfold setdefault
  cases h : lookup k t <;> simp

end table

/-! ## one submission, voxel by voxel -/

section submit
variable {K : Type} [DecidableEq K]

theorem submit_shape (s : State K) (a : Arr Int) (k : K) : (submit s a k).scores.shape = s.scores.shape := rfl

theorem submit_table (s : State K) (a : Arr Int) (k : K) : (submit s a k).table = (setdefault s.table k).1 := rfl

theorem submit_scores_getD (s : State K) (a : Arr Int) (k : K) (idx : List Nat)
    (h : inShape s.scores.shape idx = true) :
    (submit s a k).scores.getD idx 0 = max (s.scores.getD idx 0) (a.getD idx 0) := by
  simp only [submit, maxUpdate]
  rw [Arr.getD_ofFn _ _ _ _ h]
  split <;> omega

theorem submit_rots_getD (s : State K) (a : Arr Int) (k : K) (idx : List Nat)
    (h : inShape s.scores.shape idx = true) :
    (submit s a k).rots.getD idx 0 =
      if a.getD idx 0 > s.scores.getD idx 0 then ((setdefault s.table k).2 : Int) else s.rots.getD idx 0 := by
  simp only [submit, maxUpdate]
  rw [Arr.getD_ofFn _ _ _ _ h]

theorem run_snoc (shape : List Nat) (thr : Int) (h : List (Arr Int × K)) (a : Arr Int) (k : K) :
    run shape thr (h ++ [(a, k)]) = submit (run shape thr h) a k := by
  simp [run, runFrom, List.foldl_append]

theorem valsAt_snoc (h : List (Arr Int × K)) (a : Arr Int) (k : K) (idx : List Nat) :
    valsAt (h ++ [(a, k)]) idx = valsAt h idx ++ [a.getD idx 0] := by
  simp [valsAt]

end submit

/-! ## boxes -/

theorem localIdx_inShape : ∀ {off sh p q : List Nat}, localIdx off sh p = some q → inShape sh q = true
  | [], [], [], q, h => by simp [localIdx] at h; subst h; rfl
  | [], [], _ :: _, _, h => by simp [localIdx] at h
  | [], _ :: _, _, _, h => by simp [localIdx] at h
  | _ :: _, [], _, _, h => by simp [localIdx] at h
  | _ :: _, _ :: _, [], _, h => by simp [localIdx] at h
  | o :: os, s :: ss, x :: xs, q, h => by
      simp only [localIdx] at h
      split at h
      · rename_i hx
        cases h' : localIdx os ss xs with
        | none => simp [h'] at h
        | some q' =>
          simp [h'] at h; subst h
          simp only [inShape_cons]
          exact ⟨by omega, localIdx_inShape h'⟩
      · cases h

/-- a box at offset zero is the array itself -/
theorem localIdx_zero : ∀ (sh p : List Nat),
    localIdx (List.replicate sh.length 0) sh p = if inShape sh p = true then some p else none
  | [], [] => by simp [localIdx, inShape]
  | [], _ :: _ => by simp [localIdx, inShape]
  | _ :: _, [] => by simp [localIdx, inShape, List.replicate]
  | s :: ss, x :: xs => by
      simp only [List.length_cons, List.replicate_succ, localIdx, inShape]
      rw [localIdx_zero ss xs]
      by_cases hx : x < s <;> by_cases hi : inShape ss xs = true <;> simp [hx, hi]

end Pm.C04
