import DriverLib.Util
import PytmeModel.Model.C15
open Lean Drv Pm Pm.C15
namespace Drv.C15

def getBox (a : Json) (k : String) : Except String Box := do
  let l ← getIntListList a k
  l.mapM (fun p => match p with
    | [s, e] => pure (s, e)
    | _ => throw "BadArg:box")

def jBox (b : Box) : Json := jIntss (b.map (fun p => [p.1, p.2]))

def getDens (a : Json) : Except String (Dens Int Int) := do
  let sh ← getNatList a "shape"; let d ← getIntList a "data"
  let o ← getIntList a "origin"; let r ← getIntList a "rate"
  if d.length ≠ prodL sh ∨ o.length ≠ sh.length ∨ r.length ≠ sh.length then throw "BadArg:shape"
  pure ⟨⟨sh, d.toArray⟩, List.zip o r⟩

def jDens (d : Dens Int Int) : Json :=
  Json.mkObj [("shape", jNats d.data.shape), ("data", jInts d.data.toList),
              ("origin", jInts (d.frame.map Prod.fst)), ("rate", jInts (d.frame.map Prod.snd))]

def getOp (j : Json) : Except String (Op Int) := do
  let k ← getStr j "op"
  match k with
  | "adjust" => pure (.adjust (← getBox j "box") (← getInt j "pad"))
  | "pad" => pure (.pad (← getNatList j "newshape") (← getBool j "center") (← getInt j "pad"))
  | "trim" => pure (.trim (← getInt j "cutoff") (← getInt j "margin") (← getInt j "pad"))
  | "copy" => pure .copy
  | _ => throw "BadArg:op"

/-- a geometry history: `pad` is turned into the box it hands to `adjust_box` for the extents then in force -/
def geoStatesJ (g : Geo Int) : List Json → Except String (List (Geo Int))
  | [] => pure []
  | j :: js => do
      let k ← getStr j "op"
      let op : GOp ← match k with
        | "resample" => pure (GOp.resample (← getNatList j "newrate"))
        | "adjust" => pure (GOp.box (← getBox j "box"))
        | "pad" => pure (GOp.box (Dens.padBox (← getBool j "center") g.shape (← getNatList j "newshape")))
        | "copy" => pure GOp.copy
        | _ => throw "BadArg:op"
      let g' := geoStep g op
      pure (g' :: (← geoStatesJ g' js))

/-- the operations of a history that did not raise (python: the caller catches and goes on) -/
def keepOk (d : Dens Int Int) : List (Op Int) → List (Op Int)
  | [] => []
  | op :: ops => match step d op with
      | some d' => op :: keepOk d' ops
      | none => keepOk d ops

/-- which buffers of the result are the very buffers of the source (heap model) -/
def aliasOf (op : String) : Except String (List Bool) := do
  -- raw arrays at addresses 0..3; a density built from them is the source
  let h0 : Heap Nat := ⟨[10, 11, 12, 13]⟩
  let (h1, src) := construct h0 0 1 2 3
  let shared (s r : DRef) : List Bool := [r.data == s.data, r.origin == s.origin, r.rate == s.rate, r.md == s.md]
  match op with
  | "construct" => pure (shared ⟨0, 1, 2, 3⟩ src)
  | "copy" => pure (shared src (copyD h1 src).2)
  | "empty" => pure (shared src (emptyD h1 src).2)
  | "adjust" => pure (shared src (adjustD h1 src).2)
  | "to_memmap" | "to_numpy" => pure (shared src (remapD h1 src true).2)
  | "to_memmap_noop" | "to_numpy_noop" => pure (shared src (remapD h1 src false).2)
  | _ => throw "BadArg:op"

/-- the density a deepen3 op works on: the one given, or that density after `adjust_box(box, pad)` when a box is given -/
def getDensMaybeAdjusted (a : Json) : Except String (Dens Int Int) := do
  let d ← getDens a
  match a.getObjVal? "box" with
  | .ok (Json.null) => pure d
  | .ok _ =>
      let box ← getBox a "box"
      if box.length ≠ d.data.shape.length then throw "ValueError"
      pure (d.adjustBox box (← getInt a "pad"))
  | .error _ => pure d

def getOptInt (a : Json) (k : String) : Except String (Option Int) :=
  match a.getObjVal? k with
  | .ok (Json.null) => pure none
  | .ok _ => do pure (some (← getInt a k))
  | .error _ => pure none

def handle (op : String) (a : Json) : Option R :=
  match op with
  | "c15.adjustAxis" => some do
      let p := adjustAxis (← getNat a "n") (← getInt a "start") (← getInt a "stop")
      pure (jNats [p.src, p.len, p.left, p.right])
  | "c15.adjustBox" => some do
      let d ← getDens a; let box ← getBox a "box"
      if box.length ≠ d.data.shape.length then throw "ValueError"
      pure (jDens (d.adjustBox box (← getInt a "pad")))
  | "c15.padBox" => some do
      let sh ← getNatList a "shape"; let ns ← getNatList a "newshape"
      if ns.length ≠ sh.length then throw "ValueError"
      pure (jBox (Dens.padBox (← getBool a "center") sh ns))
  | "c15.pad" => some do
      let d ← getDens a; let ns ← getNatList a "newshape"
      if ns.length ≠ d.data.shape.length then throw "ValueError"
      pure (jDens (d.pad ns (← getBool a "center") (← getInt a "pad")))
  | "c15.trimBox" => some do
      let d ← getDens a
      match trimBox d.data (← getInt a "cutoff") (← getInt a "margin") with
      | some b => pure (jBox b)
      | none => throw "ValueError"
  | "c15.mebox" => some do
      let d ← getDens a
      match mebox d.data (← getInt a "cutoff") (← getNat a "side") with
      | some b => pure (jBox b)
      | none => throw "ValueError"
  | "c15.centeredFrame" => some do
      let d ← getDens a
      match mebox d.data (← getInt a "cutoff") (← getNat a "side") with
      | none => throw "ValueError"
      | some b =>
          let d1 := d.adjustBox b 0
          let d2 := d1.pad (centeredShape d.data.shape d1.data.shape) true 0
          pure (Json.mkObj [("box", jBox b), ("shape", jNats d2.data.shape), ("origin", jInts (d2.frame.map Prod.fst))])
  | "c15.resample" => some do
      let sh ← getNatList a "shape"; let o ← getIntList a "origin"
      let r ← getNatList a "rate"; let nr ← getNatList a "newrate"
      if r.length ≠ sh.length ∨ nr.length ≠ sh.length ∨ nr.any (· == 0) then throw "BadArg:rate"
      let g := resample (⟨sh, o, r⟩ : Geo Int) nr
      pure (Json.mkObj [("shape", jNats g.shape), ("origin", jInts g.origin), ("rate", jNats g.rate)])
  | "c15.geoRun" => some do
      let sh ← getNatList a "shape"; let o ← getIntList a "origin"; let r ← getNatList a "rate"
      if r.length ≠ sh.length ∨ o.length ≠ sh.length then throw "BadArg:rate"
      let st ← geoStatesJ (⟨sh, o, r⟩ : Geo Int) (← getArr a "ops").toList
      pure (jList (st.map (fun g => Json.mkObj [("shape", jNats g.shape), ("origin", jInts g.origin), ("rate", jNats g.rate)])))
  | "c15.run" => some do
      let d ← getDens a
      let ops ← (← getArr a "ops").toList.mapM getOp
      let states := runStates d ops
      let ok := keepOk d ops
      let fin := runFrom d ok
      let tr : Json := match fin with
        | some f => jInts ((allIdx f.data.shape).map (fun idx =>
            match traceFrom d ok idx with
            | some s => (flatIdx d.data.shape s : Int)
            | none => -1))
        | none => Json.null
      pure (Json.mkObj [("states", jList (states.map (fun s => match s with
                          | some x => jDens x
                          | none => jStr "raised"))),
                        ("trace", tr)])
  | "c15.broadcast" => some do
      match broadcastAxes (← getNat a "ndim") (← getIntList a "xs") with
      | some r => pure (jInts r)
      | none => throw "ValueError"
  | "c15.setter" => some do
      match setterAxes (← getNat a "ndim") (← getIntList a "xs") with
      | some r => pure (jInts r)
      | none => throw "ZeroDivisionError"
  | "c15.alias" => some do pure (Json.arr ((← aliasOf (← getStr a "which")).map jBool).toArray)
  | "c15.pointcloud" => some do
      let d ← getDensMaybeAdjusted a
      let cl := toPointcloud d.data (← getInt a "thr")
      pure (Json.mkObj [("cloud", jNatss cl), ("phys", jIntss (cl.map (phys d.frame)))])
  | "c15.empty" => some do
      let d ← getDens a
      pure (jDens d.empty)
  | "c15.coreMask" => some do
      let d ← getDensMaybeAdjusted a
      let c := coreMask d.data
      pure (Json.mkObj [("shape", jNats c.shape), ("data", jNats c.toList)])
  | "c15.com" => some do
      let d ← getDensMaybeAdjusted a
      let co ← getOptInt a "cutoff"
      -- `cutoff=None` takes `min(arr) - 1`: numpy raises on an array without voxels
      if co.isNone ∧ prodL d.data.shape = 0 then throw "ValueError"
      let c := centerOfMass d.data co
      pure (Json.mkObj [("num", jInts c.1), ("den", jInt c.2), ("origin", jInts (d.frame.map Prod.fst)),
                        ("rate", jInts (d.frame.map Prod.snd))])
  | _ => none
end Drv.C15
