import DriverLib.Util
import PytmeModel.Model.C05
import PytmeModel.Model.C05Batch
open Lean Drv Pm Pm.C05
namespace Drv.C05

def optVal (j : Json) (k : String) : Option Json :=
  match j.getObjVal? k with
  | .ok .null => none
  | .ok v => some v
  | .error _ => none

def optInt (j : Json) (k : String) : Except String (Option Int) :=
  match optVal j k with
  | none => pure none
  | some v => do pure (some (← v.getInt?))

def optNatList (j : Json) (k : String) : Except String (Option (List Nat)) :=
  match optVal j k with
  | none => pure none
  | some v => do pure (some (← natList (← v.getArr?)))

def optIntList (j : Json) (k : String) : Except String (Option (List Int)) :=
  match optVal j k with
  | none => pure none
  | some v => do pure (some (← intList (← v.getArr?)))

def getCfg (a : Json) : Except String Cfg := do
  let c ← a.getObjVal? "cfg"
  pure { nPeaks := ← getNat c "n", minDist := ← getNat c "md", minBoundary := ← getNat c "mb",
         minScore := ← optInt c "lo", maxScore := ← optInt c "hi" }

def stratOf (s : String) : Except String Strategy :=
  match s with
  | "sort" => pure .sort | "maxfilter" => pure .maxFilter | "fast" => pure .fast
  | "recursive" => pure .recursive | "scipy" => pure .scipy
  | _ => throw "BadArg:strategy"

def getOrc (j : Json) : Except String Orc := do
  match optVal j "orc" with
  | none => pure {}
  | some o =>
    let plm ← match optVal o "plm" with
      | none => pure []
      | some v => (← v.getArr?).toList.mapM (fun x => do natList (← x.getArr?))
    pure { callTopk := ← optNatList o "callTopk", argsort := ← optNatList o "argsort",
           plm := plm, updTopk := ← optNatList o "updTopk" }

def getArrInt (j : Json) : Except String (Arr Int) := do
  let sh ← getNatList j "shape"
  let d ← getIntList j "data"
  if d.length ≠ prodL sh then throw "BadArg:shape"
  pure ⟨sh, d.toArray⟩

def getSub (j : Json) : Except String Sub := do
  pure { scores := ← getArrInt j, rot := ← getNat j "rot", orc := ← getOrc j }

def peakOf (j : Json) : Except String Peak := do
  let a ← j.getArr?
  if a.size ≠ 3 then throw "BadArg:peak"
  pure { pos := ← intList (← a[0]!.getArr?), rot := ← a[1]!.getNat?, score := ← a[2]!.getInt? }

def peaksOf (j : Json) : Except String (List Peak) := do
  (← j.getArr?).toList.mapM peakOf

def jPeak (p : Peak) : Json := Json.arr #[jInts p.pos, jNat p.rot, jInt p.score]
def jPeaks (ps : List Peak) : Json := jList (ps.map jPeak)

def modeOf (s : String) : Except String ConvMode :=
  match s with
  | "same" => pure .same | "valid" => pure .valid | _ => pure .other

def getAxes (a : Json) : Except String (List Axis) := do
  let fast ← getNatList a "fast"; let conv ← getNatList a "conv"
  let tg ← getNatList a "target"; let tp ← getNatList a "template"
  let shift ← match ← optIntList a "shift" with
    | some s => pure s
    | none => pure (fast.map (fun _ => (0 : Int)))
  let mode ← modeOf (← getStr a "mode")
  if fast.length ≠ conv.length ∨ tg.length ≠ conv.length ∨ tp.length ≠ conv.length ∨ shift.length ≠ conv.length then
    throw "BadArg:rank"
  let rec go : List Nat → List Nat → List Nat → List Nat → List Int → List Axis
    | f :: fs, c :: cs, t :: ts, m :: ms, s :: ss =>
        { fast := f, conv := c, out := outLen mode c t m, shift := s } :: go fs cs ts ms ss
    | _, _, _, _, _ => []
  pure (go fast conv tg tp shift)

def handle (op : String) (a : Json) : Option R :=
  match op with
  | "c05.greedy" => some do
      -- find_candidate_indices on a coordinate list: kept indices
      let md ← getNat a "md"
      let cs ← getIntListList a "coords"
      let ps : List Peak := (List.range cs.length).map (fun i => ⟨cs.getD i [], i, 0⟩)
      pure (jNats ((filterPoints md ps).map (·.rot)))
  | "c05.topk" => some do
      let s ← getIntList a "scores"
      pure (jNats (topkSort s (← getNat a "k")))
  | "c05.isTopK" => some do
      pure (jBool (isTopK (← getIntList a "scores") (← getNat a "k") (← getNatList a "order")))
  | "c05.isArgsort" => some do
      pure (jBool (isArgsortDesc (← getIntList a "scores") (← getNatList a "order")))
  | "c05.callPeaks" => some do
      let cfg ← getCfg a
      let st ← stratOf (← getStr a "strategy")
      if st = .fast ∧ cfg.minDist = 0 then throw "ZeroDivision"
      let s ← getSub a
      pure (jNatss (callPeaks cfg st s.scores s.orc))
  | "c05.maxFilterConst" => some do
      let s ← getArrInt a
      pure (jNatss (callMaxFilterConst (← getNat a "md") s))
  | "c05.tiles" => some do
      let n ← getNat a "n"; let md ← getNat a "md"
      pure (Json.mkObj [("len", jNat (tileLen n md)), ("starts", jNats (tileStarts n md)),
                        ("old", jNats (tileStartsOld n md))])
  | "c05.run" => some do
      let cfg ← getCfg a
      let st ← stratOf (← getStr a "strategy")
      if st = .fast ∧ cfg.minDist = 0 then throw "ZeroDivision"
      let subs ← (← getArr a "subs").toList.mapM getSub
      pure (jList ((runTrace cfg st [] subs).map jPeaks))
  | "c05.merge" => some do
      let cfg ← getCfg a
      let off ← optIntList a "offset"
      let parts ← (← getArr a "parts").toList.mapM (fun j => do
        let o ← optNatList j "order"
        match optVal j "peaks" with
        | none => pure ((none : Option (List Peak)), o)
        | some v => pure (some (← peaksOf v), o))
      pure (jPeaks (merge cfg off [] parts))
  | "c05.postprocess" => some do
      let axes ← getAxes a
      let wrap ← getBool a "wrap"
      let ps ← peaksOf (← a.getObjVal? "peaks")
      pure (jPeaks (postprocess wrap axes ps))
  | "c05.postprocessOld" => some do
      let axes ← getAxes a
      let wrap ← getBool a "wrap"
      let ps ← getIntList a "p"
      pure (jList ((List.zipWith (fun ax p => match ppAxisOld wrap ax p with
        | some q => jInt q | none => Json.null) axes ps)))
  | "c05.mapSrc" => some do
      -- raw index read by the score map at every output index, per axis
      let axes ← getAxes a
      pure (jNatss (axes.map (fun ax => (List.range ax.out.toNat).map (mapSrc ax))))
  | "c05.spec" => some do
      -- clauses of the property on a reported list
      let md ← getNat a "md"
      let ps ← getIntListList a "pos"
      let shape ← getNatList a "shape"
      pure (Json.mkObj [("separated", jBool (specSeparated md ps)),
                        ("inbounds", jBool (ps.all (inBoundsI shape)))])
  | "c05.batchify" => some do
      -- PeakCaller._batchify: (subset, offset) pairs in order, and the shape of scores[subset]
      let shape ← getNatList a "shape"
      let bd ← optNatList a "bd"
      match bd with
      | some b => if b.any (fun d => decide (shape.length ≤ d)) then throw "IndexError"
      | none => pure ()
      let jOpt : Option Nat → Json := fun o => match o with | some v => jNat v | none => Json.null
      pure (jList ((batchify shape bd).map (fun sel =>
        Json.mkObj [("sel", jList (sel.map jOpt)), ("off", jNats (selOffset sel)),
                    ("shape", jNats (selShape shape sel))])))
  | "c05.greedyB" => some do
      -- filter_points_indices(coords, md, batch_dims=bd) on the numpy backend: kept row indices
      let md ← getNat a "md"
      let bd ← optNatList a "bd"
      let cs ← getIntListList a "coords"
      match bd with
      | some b => if md ≠ 0 ∧ cs ≠ [] ∧ b.any (fun d => decide ((cs.headD []).length ≤ d)) then throw "IndexError"
      | none => pure ()
      let ps : List Peak := (List.range cs.length).map (fun i => ⟨cs.getD i [], i, 0⟩)
      pure (jNats ((filterPointsB md bd ps).map (·.rot)))
  | "c05.bucket" => some do
      let md ← getNat a "md"
      if md = 0 then throw "ZeroDivision"
      pure (jNats (filterBucket md (← getIntListList a "coords")))
  | "c05.mibl" => some do
      let r := maxIndexByLabel (← getIntList a "labels") (← getIntList a "scores")
      pure (jList (r.map (fun e => Json.arr #[jInt e.1, jNat e.2])))
  | "c05.clusterKeep" => some do
      pure (jNats (clusterKeep (← getIntList a "labels") (← getIntList a "scores")))
  | "c05.clusterMerge" => some do
      let ps ← peaksOf (← a.getObjVal? "peaks")
      let labels ← getIntList a "labels"
      if (← getBool a "byScore") then pure (jPeaks (clusterMergeByScore ps labels))
      else
        if ps.any (fun p => decide (p.pos.length < 3)) then throw "IndexError"
        pure (jPeaks (clusterMerge ps labels))
  | "c05.runB" => some do
      let cfg ← getCfg a
      let st ← stratOf (← getStr a "strategy")
      if st = .fast ∧ cfg.minDist = 0 then throw "ZeroDivision"
      let bd ← getNatList a "bd"
      let subs ← (← getArr a "subs").toList.mapM getSub
      if subs.any (fun s => bd.any (fun d => decide (s.scores.shape.length ≤ d))) then throw "IndexError"
      pure (jList ((runTraceB cfg st bd [] subs).map jPeaks))
  | "c05.mergeB" => some do
      let cfg ← getCfg a
      let bd ← getNatList a "bd"
      let off ← optIntList a "offset"
      let parts ← (← getArr a "parts").toList.mapM (fun j => match j with
        | .null => pure (none : Option (List Peak))
        | v => do pure (some (← peaksOf v)))
      pure (jPeaks (mergeB cfg bd off [] parts))
  | _ => none
end Drv.C05
