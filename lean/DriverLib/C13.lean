import DriverLib.Util
import PytmeModel.Model.C13
open Lean Drv Pm Pm.C13
namespace Drv.C13

def modeOf (s : String) : Except String Mode :=
  match s with
  | "full" => pure .full | "same" => pure .same | "valid" => pure .valid
  | _ => throw "BadArg:mode"

def handle (op : String) (a : Json) : Option R :=
  match op with
  | "c13.nextFastLen" => some do pure (jNat (nextFastLen (← getNat a "n")))
  | "c13.nextFastLenRange" => some do
      let n ← getNat a "n"
      pure (jNats ((List.range n).map nextFastLen))
  | "c13.convShapes" => some do
      let s1 ← getNatList a "s1"; let s2 ← getNatList a "s2"
      if s1.length ≠ s2.length then throw "BadArg:rank"
      let f := fastShape s1 s2
      pure (Json.mkObj [("conv", jNats (convShape s1 s2)), ("fast", jNats f), ("ft", jNats (fastFtShape f))])
  | "c13.centerSlice" => some do
      let c ← getNat a "cur"; let n ← getNat a "new"
      pure (jInts [centerStart c n, centerStop c n])
  | "c13.extractCenter" => some do
      let c ← getNat a "cur"; let n ← getNat a "new"
      let (lo, hi) := pySlice c (extractStart c n) (extractStop c n)
      pure (jNats [lo, hi])
  | "c13.centered" => some do
      let c ← getNat a "cur"; let n ← getNat a "new"
      let (lo, hi) := pySlice c (centerStart c n) (centerStop c n)
      pure (jNats [lo, hi])
  | "c13.convCrop" => some do
      let m ← modeOf (← getStr a "mode")
      match convCrop m (← getNat a "conv") (← getNat a "s1") (← getNat a "s2") with
      | some (lo, ext) => pure (jNats [lo, ext])
      | none => throw "NegativeExtent"
  | "c13.topleftPad" => some do
      let sh ← getNatList a "shape"; let d ← getIntList a "data"; let ns ← getNatList a "newshape"
      let pad ← getInt a "pad"
      if d.length ≠ prodL sh ∨ sh.length ≠ ns.length then throw "BadArg:shape"
      pure (jInts (topleftPad ⟨sh, d.toArray⟩ ns pad).toList)
  | "c13.centerBox" => some do
      let c ← getNatList a "cur"; let n ← getNatList a "new"
      if c.length ≠ n.length then throw "BadArg:rank"
      let b := if (← getStr a "kind") == "trunc" then extractBox c n else centeredBox c n
      pure (jNatss (b.map fun (lo, hi) => [lo, hi]))
  | "c13.centeredMask" => some do
      let sh ← getNatList a "shape"; let d ← getIntList a "data"; let n ← getNatList a "new"
      if d.length ≠ prodL sh ∨ sh.length ≠ n.length then throw "BadArg:shape"
      pure (jInts (centeredMask ⟨sh, d.toArray⟩ n).toList)
  | "c13.convMask" => some do
      let m ← modeOf (← getStr a "mode")
      let sh ← getNatList a "shape"; let d ← getIntList a "data"
      let cv ← getNatList a "conv"; let s1 ← getNatList a "s1"; let s2 ← getNatList a "s2"
      if d.length ≠ prodL sh ∨ sh.length ≠ cv.length ∨ sh.length ≠ s1.length ∨ sh.length ≠ s2.length then throw "BadArg:shape"
      match convMask m ⟨sh, d.toArray⟩ cv s1 s2 with
      | some r => pure (Json.mkObj [("shape", jNats r.shape), ("data", jInts r.toList)])
      | none => throw "NegativeExtent"
  | _ => none
end Drv.C13
