import DriverLib.Util
import PytmeModel.Model.C13
open Lean Drv Pm Pm.C13
namespace Drv.C13

def modeOf (s : String) : Except String Mode :=
  match s with
  | "full" => pure .full | "same" => pure .same | "valid" => pure .valid
  | _ => throw "BadArg:mode"

def handle (op : String) (a : Json) : Option R :=
  match op with
  | "c13.nextFastLen" => some do pure (jNat (nextFastLen (← getNat a "n")))
  | "c13.nextFastLenRange" => some do
      let n ← getNat a "n"
      pure (jNats ((List.range n).map nextFastLen))
  | "c13.convShapes" => some do
      let s1 ← getNatList a "s1"; let s2 ← getNatList a "s2"
      if s1.length ≠ s2.length then throw "BadArg:rank"
      let f := fastShape s1 s2
      pure (Json.mkObj [("conv", jNats (convShape s1 s2)), ("fast", jNats f), ("ft", jNats (fastFtShape f))])
  | "c13.centerSlice" => some do
      let c ← getNat a "cur"; let n ← getNat a "new"
      pure (jInts [centerStart c n, centerStop c n])
  | "c13.extractCenter" => some do
      let c ← getNat a "cur"; let n ← getNat a "new"
      let (lo, hi) := pySlice c (extractStart c n) (extractStop c n)
      pure (jNats [lo, hi])
  | "c13.centered" => some do
      let c ← getNat a "cur"; let n ← getNat a "new"
      let (lo, hi) := pySlice c (centerStart c n) (centerStop c n)
      pure (jNats [lo, hi])
  | "c13.convCrop" => some do
      let m ← modeOf (← getStr a "mode")
      match convCrop m (← getNat a "conv") (← getNat a "s1") (← getNat a "s2") with
      | some (lo, ext) => pure (jNats [lo, ext])
      | none => throw "NegativeExtent"
  | "c13.topleftPad" => some do
      let sh ← getNatList a "shape"; let d ← getIntList a "data"; let ns ← getNatList a "newshape"
      let pad ← getInt a "pad"
      if d.length ≠ prodL sh ∨ sh.length ≠ ns.length then throw "BadArg:shape"
      pure (jInts (topleftPad ⟨sh, d.toArray⟩ ns pad).toList)
  | "c13.centerBox" => some do
      let c ← getNatList a "cur"; let n ← getNatList a "new"
      if c.length ≠ n.length then throw "BadArg:rank"
      let b := if (← getStr a "kind") == "trunc" then extractBox c n else centeredBox c n
      pure (jNatss (b.map fun (lo, hi) => [lo, hi]))
  | "c13.centeredMask" => some do
      let sh ← getNatList a "shape"; let d ← getIntList a "data"; let n ← getNatList a "new"
      if d.length ≠ prodL sh ∨ sh.length ≠ n.length then throw "BadArg:shape"
      pure (jInts (centeredMask ⟨sh, d.toArray⟩ n).toList)
  | "c13.convMask" => some do
      let m ← modeOf (← getStr a "mode")
      let sh ← getNatList a "shape"; let d ← getIntList a "data"
      let cv ← getNatList a "conv"; let s1 ← getNatList a "s1"; let s2 ← getNatList a "s2"
      if d.length ≠ prodL sh ∨ sh.length ≠ cv.length ∨ sh.length ≠ s1.length ∨ sh.length ≠ s2.length then throw "BadArg:shape"
      match convMask m ⟨sh, d.toArray⟩ cv s1 s2 with
      | some r => pure (Json.mkObj [("shape", jNats r.shape), ("data", jInts r.toList)])
      | none => throw "NegativeExtent"
  | "c13.fourierPadding" => some do
      let tg ← getNatList a "target"; let tp ← getNatList a "template"; let b ← getNatList a "batch"
      if tg.length ≠ tp.length ∨ tg.length ≠ b.length then throw "BadArg:rank"
      let r := fourierPadding tg tp (b.map (· != 0)) (← getBool a "pad")
      pure (Json.mkObj [("conv", jNats r.conv), ("fast", jNats r.fast), ("ft", jNats r.ft), ("shift", jInts r.shift)])
  | "c13.matchingDims" => some do
      let r ← matchingDims (← getNatList a "target") (← getNatList a "template") (← getNatList a "tdims") (← getNatList a "pdims")
      pure (Json.mkObj [("target", jNats r.target), ("template", jNats r.template), ("batch", jNats (r.batch.map fun b => if b then 1 else 0))])
  | "c13.targetPadding" => some do
      let tp ← getNatList a "template"; let b ← getNatList a "batch"
      if tp.length ≠ b.length then throw "BadArg:rank"
      pure (jNats (targetPadding (← getBool a "pad") tp (b.map (· != 0))))
  | "c13.postMap" => some do
      let m ← modeOf (← getStr a "mode")
      let sh ← getNatList a "shape"; let d ← getIntList a "data"; let sf ← getIntList a "shift"
      let cv ← getNatList a "conv"; let s1 ← getNatList a "s1"; let s2 ← getNatList a "s2"
      if d.length ≠ prodL sh ∨ sh.length ≠ cv.length ∨ sh.length ≠ s1.length ∨ sh.length ≠ s2.length ∨ sh.length ≠ sf.length then
        throw "BadArg:shape"
      match postMap (⟨sh, d.toArray⟩ : Arr Int) sf m cv s1 s2 0 with
      | some r => pure (Json.mkObj [("shape", jNats r.shape), ("data", jInts r.toList)])
      | none => throw "NegativeExtent"
  | "c13.postSrc" => some do
      pure (jNat (postSrc (← getNat a "fast") (← getInt a "shift") (← getNat a "start") (← getNat a "t")))
  | "c13.topk" => some do
      let sh ← getNatList a "shape"; let d ← getIntList a "data"; let k ← getNat a "k"
      if d.length ≠ prodL sh then throw "BadArg:shape"
      let arr : Arr Int := ⟨sh, d.toArray⟩
      match topkIndices arr k, topkFlat arr.toList k with
      | some idx, some fl => pure (Json.mkObj [("idx", jNatss idx), ("vals", jInts (fl.map fun f => d.getD f 0))])
      | _, _ => throw "KthOutOfBounds"
  | "c13.indices" => some do
      let r := indicesArr (← getNatList a "shape")
      pure (Json.mkObj [("shape", jNats r.shape), ("data", jNats r.toList)])
  | "c13.centerOfMass" => some do
      let sh ← getNatList a "shape"; let d ← getIntList a "data"
      if d.length ≠ prodL sh then throw "BadArg:shape"
      let hc ← getBool a "hasCut"; let cv ← getInt a "cut"
      let cut : Option Int := if hc then some cv else none
      pure (jIntss ((centerOfMass ⟨sh, d.toArray⟩ cut).map fun (n, dn) => [n, dn]))
  | "c13.buildFft" => some do
      let fast ← getNatList a "fast"; let ft ← getNatList a "ft"
      let hi ← getBool a "hasInverse"; let iv ← getNatList a "inverse"
      let inv : Option (List Nat) := if hi then some iv else none
      match buildFft fast ft inv with
      | some r => pure (Json.mkObj [("fwdIn", jNats r.fwdIn), ("fwdOut", jNats r.fwdOut), ("fwdAxes", jNats r.fwdAxes),
                        ("invIn", jNats r.invIn), ("invOut", jNats r.invOut), ("invAxes", jNats r.invAxes)])
      | none => throw "CannotAvoidCopy"
  | "c13.shared" => some do
      let sh ← getNatList a "shape"; let b ← getNatList a "bytes"
      let s := toShared sh (← getNat a "itemsize") b (← getNat a "slack")
      pure (Json.mkObj [("size", jNat s.buf.length), ("shape", jNats s.shape), ("read", jNats (fromShared s))])
  | "c13.maxFilter" => some do
      let sh ← getNatList a "shape"; let d ← getIntList a "data"
      if d.length ≠ prodL sh then throw "BadArg:shape"
      pure (jNatss (maxFilterCoordinates ⟨sh, d.toArray⟩ (← getNat a "size")))
  | "c13.rigidMatrix" => some do
      let r ← getIntListList a "rinv"; let c ← getIntList a "center"; let t ← getIntList a "translation"
      if r.length ≠ c.length ∨ r.length ≠ t.length ∨ r.any (·.length ≠ c.length) then throw "BadArg:shape"
      pure (Json.mkObj [("matrix", jIntss (rigidMatrix r c t)), ("offset", jInts (rigidOffset r c t))])
  | _ => none
end Drv.C13
