import DriverLib.Util
import PytmeModel.Model.C06
open Lean Drv Pm Pm.C06
namespace Drv.C06

/-- rationals travel as `[num, den]` (or a bare integer) -/
def ratOf (v : Json) : Except String Rat :=
  match v with
  | .arr #[n, d] => do
      let n ← n.getInt?
      let d ← d.getNat?
      if d = 0 then throw "BadArg:den" else pure (mkRat n d)
  | _ => do pure (((← v.getInt?) : Int) : Rat)

def jRat (q : Rat) : Json := jList [jInt q.num, jNat q.den]
def jRats (l : List Rat) : Json := jList (l.map jRat)
def jRatss (l : List (List Rat)) : Json := jList (l.map jRats)

def ratList (v : Json) : Except String (List Rat) := do (← v.getArr?).toList.mapM ratOf
def ratRows (v : Json) : Except String (List (List Rat)) := do (← v.getArr?).toList.mapM ratList

def getRatList (a : Json) (k : String) : Except String (List Rat) := do ratList (← a.getObjVal? k)
def getRatRows (a : Json) (k : String) : Except String (List (List Rat)) := do ratRows (← a.getObjVal? k)

/-- optional field: absent or `null` ↦ `none` -/
def optField (a : Json) (k : String) : Option Json :=
  match a.getObjVal? k with
  | .ok .null => none
  | .ok v => some v
  | .error _ => none

def optRatList (a : Json) (k : String) : Except String (Option (List Rat)) :=
  match optField a k with
  | none => pure none
  | some v => do pure (some (← ratList v))

def squareOK {α : Type} (d : Nat) (rows : List (List α)) : Bool :=
  rows.length == d && rows.all (fun r => r.length == d)

def ptsOK {α : Type} (d : Nat) (pts : List (List α)) : Bool := pts.all (fun r => r.length == d)

def optInt (o : Option Int) : Json := match o with | some v => jInt v | none => Json.null

def handle (op : String) (a : Json) : Option R :=
  match op with
  | "c06.matrix" => some do
      let rows ← getRatRows a "rinv"
      let d := rows.length
      if !squareOK d rows then throw "BadArg:matrix"
      let t ← optRatList a "t"; let c ← optRatList a "c"
      if (t.map (·.length)).getD d ≠ d ∨ (c.map (·.length)).getD d ≠ d then throw "BadArg:rank"
      let M := rigidMatrix (matOfRows d rows) (t.map (vecOfList d)) (c.map (vecOfList d))
      pure (jRatss (rowsOfMat M))
  | "c06.src" => some do
      let rows ← getRatRows a "rinv"
      let d := rows.length
      if !squareOK d rows then throw "BadArg:matrix"
      let t ← getRatList a "t"; let c ← getRatList a "c"
      let pts ← getIntListList a "pts"
      if t.length ≠ d ∨ c.length ≠ d ∨ !ptsOK d pts then throw "BadArg:rank"
      let M := rigidMatrix (matOfRows d rows) (some (vecOfList d t)) (some (vecOfList d c))
      pure (jList (pts.map (fun p => jRats (listOfVec (affineSrc M (vecOfList d (p.map (fun (z : Int) => (z : Rat)))))))))
  | "c06.grid" => some do
      let sh ← getNatList a "shape"
      let d := sh.length
      let data ← getIntList a "data"
      let rows ← getIntListList a "rinv"
      let t ← getIntList a "t"
      if data.length ≠ prodL sh ∨ !squareOK d rows ∨ t.length ≠ d then throw "BadArg:shape"
      let mask : Option (List Int) ← match optField a "mask" with
        | none => pure none
        | some v => do pure (some (← intList (← v.getArr?)))
      if (mask.map (·.length)).getD (prodL sh) ≠ prodL sh then throw "BadArg:mask"
      let n : Fin d → Nat := fun i => sh.getD i.val 0
      let f : Vec d Int → Int := fnOfArr ⟨sh, data.toArray⟩
      let g : Option (Vec d Int → Int) := mask.map (fun m => fnOfArr ⟨sh, m.toArray⟩)
      let (o, om) := rigidGrid n (matOfRows d rows) (vecOfList d t) f g
      -- optional larger caller buffer, pre-filled with a constant
      let bufShape : List Nat := ((getNatList a "bufshape").toOption).getD sh
      let fill : Int := ((getInt a "fill").toOption).getD 0
      if bufShape.length ≠ d then throw "BadArg:bufshape"
      let at_ (h : Vec d Int → Option Int) : Json :=
        jList ((allIdx bufShape).map (fun idx =>
          optInt (writeCorner n (fun _ => fill) h (vecOfList d (idx.map (fun (z : Nat) => (z : Int)))))))
      pure (Json.mkObj [("out", at_ o), ("mask", match om with | some h => at_ h | none => Json.null)])
  | "c06.gridmask" => some do
      let sh ← getNatList a "shape"
      let d := sh.length
      let mask ← getIntList a "mask"
      let rows ← getIntListList a "rinv"
      let t ← getIntList a "t"
      let order ← getNat a "order"
      if mask.length ≠ prodL sh ∨ !squareOK d rows ∨ t.length ≠ d ∨ order > 3 then throw "BadArg:shape"
      let n : Fin d → Nat := fun i => sh.getD i.val 0
      let m : Arr Rat := ⟨sh, (mask.map (fun (z : Int) => (z : Rat))).toArray⟩
      let sm := smoothMask order m   -- evaluated once; `maskGrid order … m = maskGridOf … (smoothMask order m)`
      let h := maskGridOf n (matOfRows d rows) (vecOfList d t) sm
      pure (jList ((allIdx sh).map (fun idx =>
        match h (vecOfList d (idx.map (fun (z : Nat) => (z : Int)))) with
        | some q => jRat q
        | none => Json.null)))
  | "c06.push" => some do
      let sh ← getNatList a "shape"
      let d := sh.length
      let rows ← getIntListList a "R"
      let t ← getIntList a "t"
      let pts ← getIntListList a "pts"
      if !squareOK d rows ∨ t.length ≠ d ∨ !ptsOK d pts then throw "BadArg:shape"
      let n : Fin d → Nat := fun i => sh.getD i.val 0
      pure (jIntss (pts.map (fun p => listOfVec (push2 n (matOfRows d rows) (vecOfList d t) (vecOfList d p)))))
  | "c06.linear" => some do
      let sh ← getNatList a "shape"
      let d := sh.length
      let data ← getIntList a "data"
      let rows ← getRatRows a "rinv"
      let t ← getRatList a "t"
      if data.length ≠ prodL sh ∨ !squareOK d rows ∨ t.length ≠ d then throw "BadArg:shape"
      let arr : Arr Rat := ⟨sh, (data.map (fun (z : Int) => (z : Rat))).toArray⟩
      -- centre: given (geometric centre or any other), or `null` = centre of mass with cutoff 0
      let c ← match ← optRatList a "c" with
        | some c => pure c
        | none => pure (centerOfMass arr 0)
      if c.length ≠ d then throw "BadArg:shape"
      let M := rigidMatrix (matOfRows d rows) (some (vecOfList d t)) (some (vecOfList d c))
      let srcs := (allIdx sh).map (fun idx => listOfVec (affineSrc M (vecOfList d (ratIdx idx))))
      -- `rigidLinear arr rinv t c o = linInterp arr (affineSrc (rigidMatrix rinv t c) o)`: the function of the order-1 theorems
      let out := (allIdx sh).map (fun idx => rigidLinear arr (matOfRows d rows) (vecOfList d t) (vecOfList d c) (vecOfList d (ratIdx idx)))
      pure (Json.mkObj [("out", jRats out), ("src", jRatss srcs), ("c", jRats c)])
  | "c06.lineararr" => some do
      -- whole-array order-1 transform with its mass and first moments (`rigidLinearArr`, `mass`, `moment`)
      let sh ← getNatList a "shape"
      let d := sh.length
      let data ← getIntList a "data"
      let rows ← getRatRows a "rinv"
      let t ← getRatList a "t"
      let c ← getRatList a "c"
      if data.length ≠ prodL sh ∨ !squareOK d rows ∨ t.length ≠ d ∨ c.length ≠ d then throw "BadArg:shape"
      let arr : Arr Rat := ⟨sh, (data.map (fun (z : Int) => (z : Rat))).toArray⟩
      let out := rigidLinearArr arr (matOfRows d rows) (vecOfList d t) (vecOfList d c)
      let axes := List.range d
      pure (Json.mkObj [("out", jRats out.toList),
                        ("mass_in", jRat (mass arr)), ("mass_out", jRat (mass out)),
                        ("moment_in", jRats (axes.map (moment arr))), ("moment_out", jRats (axes.map (moment out)))])
  | "c06.com" => some do
      let sh ← getNatList a "shape"
      let data ← getIntList a "data"
      if data.length ≠ prodL sh then throw "BadArg:shape"
      let cutoff ← ratOf (← a.getObjVal? "cutoff")
      pure (jRats (centerOfMass ⟨sh, (data.map (fun (z : Int) => (z : Rat))).toArray⟩ cutoff))
  | "c06.clean" => some do
      -- tail of Density.rigid_transform on the flattened output (`old` = the absolute threshold before the repair)
      let eps ← ratOf (← a.getObjVal? "eps")
      let data ← getRatList a "data"
      let old := (getBool a "old").toOption.getD false
      pure (jRats (if old then cleanNoiseAbs eps data else cleanNoise eps data))
  | "c06.defaults" => some do
      pure (Json.mkObj [("geometric", Json.mkObj (defaultGeometric.map (fun (k, v) => (k, jBool v)))),
                        ("order", Json.mkObj (defaultOrder.map (fun (k, v) => (k, jNat v))))])
  | "c06.coords" => some do
      let x ← getRatRows a "x"
      let rows ← getRatRows a "R"
      let d := rows.length
      let t ← getRatList a "t"
      let center ← optRatList a "center"
      let geo ← getBool a "geo"
      let dtfix := (getBool a "dtypeMismatch").toOption.getD false
      let mask ← getRatRows a "mask"
      if !squareOK d rows ∨ t.length ≠ d ∨ !ptsOK d x ∨ !ptsOK d mask ∨ (center.map (·.length)).getD d ≠ d then
        throw "BadArg:shape"
      let Rm : Mat d Rat := matOfRows d rows
      let mk (pts : List (List Rat)) : Fin pts.length → Vec d Rat := fun k => vecOfList d (pts.getD k.val [])
      let outJ {N M : Nat} (r : (Fin N → Vec d Rat) × (Fin M → Vec d Rat)) : Json :=
        Json.mkObj [("out", jRatss (List.ofFn (fun k => listOfVec (r.1 k)))),
                    ("mask", jRatss (List.ofFn (fun k => listOfVec (r.2 k))))]
      if geo then
        match x with
        | [] => throw "ValueError:empty"
        | x0 :: xs =>
          let xf : Fin (xs.length + 1) → Vec d Rat := fun k => vecOfList d ((x0 :: xs).getD k.val [])
          pure (outJ (coordsTransformGeo halfFloorRat xf Rm (vecOfList d t) (center.map (vecOfList d)) (mk mask)))
      else
        if x.length = 0 then throw "ValueError:empty" else
        let r := coordsTransform (mk x) Rm (vecOfList d t) (center.map (vecOfList d)) (mk mask)
        pure (outJ (if dtfix then (coordsDtypeFix truncRat r.1, r.2) else r))
  | _ => none
end Drv.C06
