import DriverLib.Util
import PytmeModel.Model.C16
open Lean Drv Pm Pm.C16
namespace Drv.C16

def phaseName : Phase → String
  | .subset => "subset" | .toBackend => "toBackend" | .setupPre => "setupPre" | .setupPost => "setupPost"
  | .analyzerInit => "analyzerInit" | .scoreEntry => "scoreEntry" | .rotate => "rotate"
  | .callback => "callback" | .postprocess => "postprocess" | .merge => "merge" | .outerMerge => "outerMerge"
  | .filter => "filter" | .alloc => "alloc" | .collect => "collect"

def phaseOf (s : String) : Except String Phase :=
  match s with
  | "subset" => pure .subset | "toBackend" => pure .toBackend | "setupPre" => pure .setupPre
  | "setupPost" => pure .setupPost | "analyzerInit" => pure .analyzerInit | "scoreEntry" => pure .scoreEntry
  | "rotate" => pure .rotate | "callback" => pure .callback | "postprocess" => pure .postprocess
  | "merge" => pure .merge | "outerMerge" => pure .outerMerge
  | "filter" => pure .filter | "alloc" => pure .alloc | "collect" => pure .collect
  | _ => throw "BadArg:phase"

def jPos (p : Pos) : Json := Json.arr #[jStr (phaseName p.phase), jNat p.tile, jNat p.idx]

def posOf (j : Json) : Except String Pos := do
  let a ← j.getArr?
  if a.size ≠ 3 then throw "BadArg:pos"
  pure ⟨← phaseOf (← a[0]!.getStr?), ← a[1]!.getNat?, ← a[2]!.getNat?⟩

def getPlan (a : Json) : Except String Plan := do
  (← getArr a "plan").toList.mapM posOf

/-- optional boolean field (absent = false) -/
def optBool (c : Json) (k : String) : Except String Bool :=
  match c.getObjVal? k with
  | .ok (.bool b) => pure b
  | .ok _ => throw s!"BadArg:{k}"
  | .error _ => pure false

def getCfg (a : Json) : Except String Cfg := do
  let c ← a.getObjVal? "cfg"
  pure { ntiles := ← getNat c "ntiles", nrot := ← getNat c "nrot", outer := ← getNat c "outer",
         inner := ← getNat c "inner", hasCb := ← getBool c "hasCb", shared := ← getBool c "shared",
         jpc := ← getNat c "jpc", setupSegs := ← getNat c "setupSegs", cbSegs := ← getNat c "cbSegs",
         postSegs := ← getNat c "postSegs", copies := ← getBool c "copies",
         tfilter := ← optBool c "tfilter", gfilter := ← optBool c "gfilter" }

def tileSchedOf (j : Json) : Except String TileSched := do
  pure { picks := ← getNatList j "picks", jobKill := ← getNatList j "jobKill" }

def progressOf (j : Json) : Except String Progress := do
  pure { steps := ← getNat j "steps", exited := ← getBool j "exited" }

def getSched (a : Json) : Except String Sched := do
  match a.getObjVal? "sched" with
  | .error _ => pure {}
  | .ok s =>
    pure { outerPicks := ← getNatList s "outerPicks",
           tiles := ← (← getArr s "tiles").toList.mapM tileSchedOf,
           progress := ← (← getArr s "progress").toList.mapM progressOf }

def getPolicy (a : Json) : Except String Policy := do
  match a.getObjVal? "policy" with
  | .error _ => pure .kill
  | .ok (.str "kill") => pure .kill
  | .ok (.str "drain") => pure .drain
  | .ok _ => throw "BadArg:policy"

def getAmbient (a : Json) : Except String (Option Exc) := do
  match a.getObjVal? "ambient" with
  | .ok (.bool true) => pure (some .ambient)
  | _ => pure none

def jExc (e : Exc) : Json :=
  let root := match e.root with
    | .fault p => Json.mkObj [("kind", jStr "fault"), ("pos", jPos p)]
    | .badArg => Json.mkObj [("kind", jStr "badArg")]
    | .ambient => Json.mkObj [("kind", jStr "ambient")]
    | .wrapped _ => Json.mkObj [("kind", jStr "wrapped")]
  Json.mkObj [("raised", root), ("wraps", jNat e.wraps)]

def jOutcome (r : Option Exc × World) : Json :=
  let w := r.2
  Json.mkObj [
    ("outcome", match r.1 with | none => jStr "returned" | some e => jExc e),
    ("trace", jList (w.trace.map jPos)),
    ("live", jList (w.live.map (fun s => Json.arr #[match s.mgr with | some m => jInt m | none => jInt (-1), jNat s.serial]))),
    ("nalloc", jNat w.nalloc),
    ("inputs", jNat w.inputs)]

def handle (op : String) (a : Json) : Option R :=
  match op with
  | "c16.scanSubsets" => some do
      let r := scanSubsets (← getCfg a) (← getPlan a) (← getAmbient a) (← getPolicy a) (← getSched a) {}
      pure (jOutcome r)
  | "c16.scan" => some do
      let sch ← getSched a
      let r := scanDirect (← getCfg a) (← getPlan a) (← getAmbient a) (sch.tiles.getD 0 {}) {}
      pure (jOutcome r)
  | "c16.allPoints" => some do
      pure (jList ((allPoints (← getCfg a)).map jPos))
  | "c16.scanPoints" => some do
      pure (jList ((scanPoints (← getCfg a)).map jPos))
  | "c16.chunks" => some do
      let R ← getNat a "nrot"; let n ← getNat a "njobs"
      pure (jNatss ((List.range n).map (chunk R n)))
  | "c16.nCallbackClasses" => some do
      pure (jNat (nCallbackClasses (← getCfg a)))
  | "c16.flatSteps" => some do
      -- number of allocations / points in each prefix of a tile's sequentialised steps: (points, segments)
      let cfg ← getCfg a; let t ← getNat a "tile"
      let ss := flatSteps cfg t
      pure (jList (ss.map (fun s => match s with
        | .point p => jPos p
        | .alloc n => Json.mkObj [("alloc", jNat n)]
        | .write pr => Json.mkObj [("write", jBool pr)]
        | .fail _ => jStr "fail")))
  | _ => none
end Drv.C16
