import DriverLib.Util
import PytmeModel.Model.C17
import PytmeModel.Model.C17Scores
open Lean Drv Pm Pm.C17
namespace Drv.C17

/-! JSON ops for C17.  The scratch-state machines are executed over *provenance tokens*
(`Nat`): every numerical kernel returns a buffer filled with the index of the call that produced
it, so the reply says, for every buffer and every returned value, which call(s) it stems from. -/

def dedup (l : List Nat) : List Nat :=
  (l.foldl (fun acc x => if acc.contains x then acc else x :: acc) []).reverse

def tok (x : List Nat) : Nat := x.headD 0

def jWin (w : Win) : Json := jInts [w.tLo, w.tHi, w.gLo, w.gHi]

def kindOf (s : String) : Except String CallKind :=
  match s with
  | "plain" => pure .plain | "normalised" => pure .normalised | "generic" => pure .generic
  | _ => throw "BadArg:kind"

def methodOf (s : String) : Except String Method :=
  match s with
  | "differential_evolution" => pure .de | "basinhopping" => pure .basinhopping
  | "minimize" => pure .minimize
  | _ => throw "BadArg:method"

def boundsOf (j : Json) (k : String) : Except String (Option (List Bound)) := do
  let v ← j.getObjVal? k
  match v with
  | .null => pure none
  | .arr a =>
      let l ← a.toList.mapM (fun x => do
        let p ← intList (← x.getArr?)
        match p with
        | [lo, hi] => pure (lo, hi)
        | _ => throw "BadArg:bound")
      pure (some l)
  | _ => throw "BadArg:bounds"

def jBounds (b : Option (List Bound)) : Json :=
  match b with
  | none => Json.null
  | some l => Json.arr (l.map (fun p => jInts [p.1, p.2])).toArray

def constsOf (a : Json) : Except String Consts := do
  pure ⟨← getInt a "fmin", ← getInt a "fmax", ← getInt a "res", ← getInt a "half", ← getNat a "ndim"⟩

/-- coordinate score object over tokens -/
def c2dStatic (kind : CallKind) (n m : Nat) (flags : List Bool) : C2DStatic Nat (List Nat) :=
  { kind := kind
    rigid := fun x => List.replicate n (tok x)
    rigidMask := fun x => List.replicate m (tok x)
    interp := fun p => p
    denomOf := fun tv => tv.headD 0
    denomPos := fun k => flags.getD (k - 1) true
    one := 0
    final := fun tv rot mrot den => dedup (tv ++ rot ++ (mrot.getD []) ++ [den])
    zero := [] }

def c2dTrace (kind : CallKind) (hasMask : Bool) (n m calls : Nat) (flags : List Bool) : Json :=
  let S := c2dStatic kind n m flags
  let st0 : C2DState Nat := ⟨List.replicate n 0, if hasMask then some (List.replicate m 0) else none,
    List.replicate n 0, 0⟩
  let rec go (fuel k : Nat) (st : C2DState Nat) (acc : List Json) : List Json :=
    match fuel with
    | 0 => acc.reverse
    | f + 1 =>
      let (v, st') := c2dStep S st [k]
      let j := Json.mkObj [("value", jNats v), ("rotated", jNats (dedup st'.rotated)),
        ("mask", match st'.maskRotated with | some mm => jNats (dedup mm) | none => Json.null),
        ("values", jNats (dedup st'.targetValues)), ("denominator", jNat st'.denominator),
        ("pure", jNats (c2dPure S hasMask [k]))]
      go f (k + 1) st' (j :: acc)
  jList (go calls 1 st0 [])

/-- density-to-density score object over tokens: 1000 = grid, 999 = zero fill, 0 = initial -/
def d2dStatic (shape tshape : List Nat) (rotateMask : Bool) (vox : List (List Int)) :
    D2DStatic Nat (List Nat × List Win) :=
  let L := prodL shape
  { shape := shape, targetShape := tshape, rotateMask := rotateMask
    mask0 := List.replicate L 0, zeroA := 999
    mkGrid := fun s => List.replicate (prodL s * s.length) 1000
    affine := fun x g => List.replicate g.length (tok x)
    interpT := fun p => List.replicate L (p.headD 998)
    interpM := fun p => List.replicate L (p.headD 998)
    normalize := fun t _ => t
    voxel := fun x => vox.getD (tok x - 1) []
    final := fun tr mr ws => (dedup (tr ++ mr), ws) }

def d2dTrace (old : Bool) (shape tshape : List Nat) (rotateMask : Bool) (vox : List (List Int)) : Json :=
  let S := d2dStatic shape tshape rotateMask vox
  let L := prodL shape
  let st0 : D2DState Nat := ⟨none, [], List.replicate L 0, S.mask0, []⟩
  let rec go (fuel k : Nat) (st : D2DState Nat) (acc : List Json) : List Json :=
    match fuel with
    | 0 => acc.reverse
    | f + 1 =>
      let (v, st') := if old then d2dStepOld S st [k] else d2dStep S st [k]
      let j := Json.mkObj [("value", jNats v.1), ("wins", jList (v.2.map jWin)),
        ("lens", jList (List.zipWith (fun w (p : Nat × Nat) => jNats [w.tLen p.1, w.gLen p.2]) v.2 (List.zip shape tshape))),
        ("gridOut", jNats (dedup st'.gridOut)), ("templateRot", jNats (dedup st'.templateRot)),
        ("maskRot", jNats (dedup st'.maskRot)),
        ("grid", match st'.cache with | some (c, g) => Json.mkObj [("center", jNats c), ("tokens", jNats (dedup g)), ("size", jNat g.length)] | none => Json.null),
        ("pure", jNats (d2dPure S [k]).1)]
      go f (k + 1) st' (j :: acc)
  jList (go vox.length 1 st0 [])

/-- exact float payload: the IEEE-754 bit pattern as a natural number (the decimal rendering of
`jFloat` keeps six digits only) -/
def jFloatX (f : Float) : Json := jNat f.toBits.toNat

def m3Of (l : List Float) : Except String (M3 Float) :=
  match l with
  | [a, b, c, d, e, f, g, h, i] => pure ⟨a, b, c, d, e, f, g, h, i⟩
  | _ => throw "BadArg:matrix"

def m3List (m : M3 Float) : List Float := [m.a11, m.a12, m.a13, m.a21, m.a22, m.a23, m.a31, m.a32, m.a33]

def v3Of (l : List Float) : Except String (V3 Float) :=
  match l with
  | [a, b, c] => pure ⟨a, b, c⟩
  | _ => throw "BadArg:point"

def getPoints (a : Json) (k : String) : Except String (List (V3 Float)) := do
  (← getArr a k).toList.mapM (fun x => do v3Of (← (← x.getArr?).toList.mapM floatOf))

def jPoints (l : List (V3 Float)) : Json := jList (l.map (fun p => jList [jFloatX p.x, jFloatX p.y, jFloatX p.z]))


/-! ### score formulas over `Rat` (inputs are integers; replies are exact fractions `[num, den]`) -/

def jRat (q : Rat) : Json := jList [jInt q.num, jNat q.den]
def jRats (l : List Rat) : Json := jList (l.map jRat)

/-- row-major integer array as a lookup function (only ever read inside the volume) -/
def tgtFn (shape : List Nat) (data : Array Int) : List Int → Rat :=
  fun p => ((data.getD (flatIdx shape (p.map Int.toNat)) 0 : Int) : Rat)

def tgtFnI (shape : List Nat) (data : Array Int) : List Int → Int :=
  fun p => data.getD (flatIdx shape (p.map Int.toNat)) 0

def ratsOf (l : List Int) : List Rat := l.map (fun (a : Int) => (a : Rat))

def getTarget (a : Json) (k : String) : Except String (Array Int) := do pure (← getIntList a k).toArray

def epsD : Rat := 1 / 4503599627370496

def ratioPts (P : List (List Int)) (den : Nat) : List (List (Int × Nat)) := P.map (fun p => p.map (fun x => (x, den)))

def scoreOp (name : String) (a : Json) : R := do
  let shape ← getNatList a "shape"
  let data ← getTarget a "target"
  if data.size ≠ prodL shape then throw "BadArg:target"
  let P ← getIntListList a "P"
  let wI ← getIntList a "w"
  let w := ratsOf wI
  let sign : Rat := scoreSign 1 (← getBool a "negate")
  let T := tgtFn shape data
  let v := sampleAll 0 shape T P
  match name with
  | "cc" => pure (Json.mkObj [("values", jRats v), ("score", jRat (ccScore 0 1 sign v w))])
  | "ncc" =>
      let q := nccParts 0 v w
      pure (Json.mkObj [("values", jRats v), ("guard", jBool (nccGuard 0 v w)), ("num", jRat q.1), ("densq", jRat q.2),
        ("sign", jRat sign)])
  | "nccmean" =>
      let cells := (allIdx shape).map (fun i => i.map (fun (k : Nat) => (k : Int)))
      let T' := centreTarget 0 (1 / (prodL shape : Rat)) cells T
      let w' := centreWeights 0 (1 / (w.length : Rat)) w
      let v' := sampleAll 0 shape T' P
      let q := nccParts 0 v' w'
      pure (Json.mkObj [("values", jRats v'), ("weights", jRats w'), ("guard", jBool (nccGuard 0 v' w')),
        ("num", jRat q.1), ("densq", jRat q.2), ("sign", jRat sign)])
  | "laplace" =>
      let P0 ← getIntListList a "P0"
      let w' := laplaceWeights 0 shape.length P0 w
      let v' := sampleAll 0 shape (laplaceTarget 0 shape T) P
      pure (Json.mkObj [("values", jRats v'), ("weights", jRats w'), ("score", jRat (ccScore 0 1 sign v' w'))])
  | "plsq" => pure (Json.mkObj [("values", jRats v), ("score", jRat (plsq 0 v w * sign))])
  | "mi" =>
      pure (Json.mkObj [("values", jRats v), ("score", jRat (miOf 0 epsD (fun n => (n : Rat)) v w * sign)),
        ("bins", jNatss [v.map (binOf (fun n => (n : Rat)) (listMin 0 v) (listMax 0 v)),
          w.map (binOf (fun n => (n : Rat)) (listMin 0 w) (listMax 0 w))])])
  | "mcc" =>
      let mdata ← getTarget a "mask"
      if mdata.size ≠ prodL shape then throw "BadArg:mask"
      let den ← getNat a "den"
      if den = 0 then throw "BadArg:den"
      let Pm ← getIntListList a "Pm"
      let q := mccParts 0 epsD shape T (tgtFn shape mdata) (ratioPts P den) (ratioPts Pm den) w
      pure (Json.mkObj [("num", jRat q.1), ("d1", jRat q.2.1), ("d2", jRat q.2.2), ("sign", jRat sign)])
  | "envelope" =>
      let thr : Rat := mkRat (← getInt a "thrNum") (← getNat a "thrDen")
      let code : List Int → Int := fun p => envCode thr (T p)
      let codes := (allIdx shape).map (fun i => code (i.map (fun (k : Nat) => (k : Int))))
      let present := cnt (-1) codes
      let absent := cnt 1 codes
      let vv := sampleAll 0 shape code P
      let q := envelopeParts present absent vv
      pure (Json.mkObj [("values", jInts vv), ("present", jInt present), ("absent", jInt absent),
        ("num", jInt q.1), ("den", jInt q.2), ("sign", jRat sign)])
  | _ => throw "BadArg:score"

def pointsOp (name : String) (a : Json) : R := do
  let A ← getIntListList a "A"
  let B ← getIntListList a "B"
  let sign : Rat := scoreSign 1 (← getBool a "negate")
  match name with
  | "chamfer" =>
      match B with
      | [] => throw "BadArg:empty"
      | q0 :: qs => pure (Json.mkObj [("sq", jInts (chamferSqs 0 A q0 qs)), ("sign", jRat sign)])
  | "nvs" =>
      let q := nvsParts (0 : Int) A B
      pure (Json.mkObj [("num", jInt q.1), ("densq", jInt q.2.1), ("count", jNat q.2.2), ("sign", jRat sign)])
  | _ => throw "BadArg:score"

def flcOp (a : Json) : R := do
  let shape ← getNatList a "shape"
  let tshape ← getNatList a "targetShape"
  let g ← getTarget a "template"
  let m ← getTarget a "mask"
  let f ← getTarget a "target"
  let v ← getIntList a "v"
  if g.size ≠ prodL shape ∨ m.size ≠ prodL shape ∨ f.size ≠ prodL tshape ∨ v.length ≠ shape.length
      ∨ shape.length ≠ tshape.length then throw "BadArg:shape"
  let gf : List Nat → Rat := fun i => ((g.getD (flatIdx shape i) 0 : Int) : Rat)
  let mf : List Nat → Rat := fun i => ((m.getD (flatIdx shape i) 0 : Int) : Rat)
  let q := flcOf (0 : Rat) shape tshape gf mf (tgtFn tshape f) v
  let sign : Rat := scoreSign 1 (← getBool a "negate")
  pure (Json.mkObj [("num", jRat q.1), ("vg", jRat q.2.1), ("vf", jRat q.2.2.1), ("n", jRat q.2.2.2),
    ("sign", jRat sign)])

def handle (op : String) (a : Json) : Option R :=
  match op with
  | "c17.formatPose" => some do
      let x ← getIntList a "x"
      let (t, r) := formatPose x
      pure (jIntss [t, r])
  | "c17.poseOf" => some do
      let x ← getIntList a "x"
      pure (jIntss [poseOfTranslation 0 x, poseOfAngles 0 x])
  | "c17.window" => some do
      let n ← getNat a "n"; let N ← getNat a "N"
      let v := truncRatio (← getInt a "num") (← getNat a "den")
      let w := if (← getBool a "old") then flcWindowOld n N v else flcWindow n N v
      pure (Json.mkObj [("v", jInt v), ("win", jWin w), ("lens", jNats [w.tLen n, w.gLen N])])
  | "c17.c2dTrace" => some do
      let kind ← kindOf (← getStr a "kind")
      let flags ← (← getArr a "flags").toList.mapM (·.getBool?)
      pure (c2dTrace kind (← getBool a "hasMask") (← getNat a "n") (← getNat a "m") flags.length flags)
  | "c17.d2dTrace" => some do
      let shape ← getNatList a "shape"; let tshape ← getNatList a "targetShape"
      let nums ← getIntListList a "num"; let dens ← getNatListList a "den"
      if shape.length ≠ tshape.length ∨ nums.length ≠ dens.length then throw "BadArg:rank"
      let vox := List.zipWith (fun ns ds => List.zipWith truncRatio ns ds) nums dens
      pure (d2dTrace (← getBool a "old") shape tshape (← getBool a "rotateMask") vox)
  | "c17.effBounds" => some do
      let c ← constsOf a
      let m ← methodOf (← getStr a "method")
      pure (jBounds (effBounds c m (← boundsOf a "bt") (← boundsOf a "br")))
  | "c17.optimizeWrap" => some do
      let x0 ← getIntList a "x0"; let rx ← getIntList a "resX"
      let i ← getInt a "initial"; let f ← getInt a "resFun"
      let r := if (← getBool a "old") then optimizeWrapOld x0 i rx f else optimizeWrap x0 i rx f
      pure (Json.mkObj [("x", jInts r.1), ("fun", jInt r.2)])
  | "c17.startPose" => some do
      let c ← constsOf a
      let v ← a.getObjVal? "x0"
      match v with
      | .null => pure (jInts (startPose c none))
      | _ => pure (jInts (startPose c (some (← getIntList a "x0"))))
  | "c17.inBounds" => some do
      match (← boundsOf a "b") with
      | some b => pure (jBool (inBounds b (← getIntList a "x")))
      | none => pure (jBool true)
  | "c17.kabsch" => some do
      let U ← m3Of (← getFloatList a "U"); let Vh ← m3Of (← getFloatList a "Vh")
      let ref ← getPoints a "reference"; let q ← getPoints a "query"
      if q.length = 0 then throw "BadArg:empty"
      let R := kabschRotation (fun d => d < 0) U Vh
      let out := alignAll 0.0 (1.0 / q.length.toFloat) R ref q
      pure (Json.mkObj [("rotation", jList ((m3List R).map jFloatX)), ("aligned", jPoints out),
        ("sqdev", jFloatX (sqDev 0.0 ref out))])
  | "c17.rigidCoords" => some do
      let R ← m3Of (← getFloatList a "R"); let t ← v3Of (← getFloatList a "t")
      let pts ← getPoints a "points"
      if pts.length = 0 then throw "BadArg:empty"
      pure (jPoints (rigidCoords 0.0 (1.0 / pts.length.toFloat) R t pts))
  | "c17.score.cc" => some (scoreOp "cc" a)
  | "c17.score.ncc" => some (scoreOp "ncc" a)
  | "c17.score.nccmean" => some (scoreOp "nccmean" a)
  | "c17.score.laplace" => some (scoreOp "laplace" a)
  | "c17.score.plsq" => some (scoreOp "plsq" a)
  | "c17.score.mi" => some (scoreOp "mi" a)
  | "c17.score.mcc" => some (scoreOp "mcc" a)
  | "c17.score.envelope" => some (scoreOp "envelope" a)
  | "c17.score.chamfer" => some (pointsOp "chamfer" a)
  | "c17.score.nvs" => some (pointsOp "nvs" a)
  | "c17.score.flc" => some (flcOp a)
  | _ => none
end Drv.C17
