import Lean.Data.Json
open Lean

namespace Drv

abbrev R := Except String Json

def getNat (j : Json) (k : String) : Except String Nat := do
  let v ← j.getObjVal? k
  v.getNat?

def getInt (j : Json) (k : String) : Except String Int := do
  let v ← j.getObjVal? k
  v.getInt?

def getStr (j : Json) (k : String) : Except String String := do
  let v ← j.getObjVal? k
  v.getStr?

def getBool (j : Json) (k : String) : Except String Bool := do
  let v ← j.getObjVal? k
  v.getBool?

def getArr (j : Json) (k : String) : Except String (Array Json) := do
  let v ← j.getObjVal? k
  v.getArr?

def natList (a : Array Json) : Except String (List Nat) :=
  a.toList.mapM (·.getNat?)

def intList (a : Array Json) : Except String (List Int) :=
  a.toList.mapM (·.getInt?)

def getNatList (j : Json) (k : String) : Except String (List Nat) := do
  natList (← getArr j k)

def getIntList (j : Json) (k : String) : Except String (List Int) := do
  intList (← getArr j k)

def getIntListList (j : Json) (k : String) : Except String (List (List Int)) := do
  (← getArr j k).toList.mapM (fun x => do intList (← x.getArr?))

def getNatListList (j : Json) (k : String) : Except String (List (List Nat)) := do
  (← getArr j k).toList.mapM (fun x => do natList (← x.getArr?))

def jNat (n : Nat) : Json := Json.num (JsonNumber.fromNat n)
def jInt (n : Int) : Json := Json.num (JsonNumber.fromInt n)
def jNats (l : List Nat) : Json := Json.arr (l.map jNat).toArray
def jInts (l : List Int) : Json := Json.arr (l.map jInt).toArray
def jNatss (l : List (List Nat)) : Json := Json.arr (l.map jNats).toArray
def jIntss (l : List (List Int)) : Json := Json.arr (l.map jInts).toArray
def jStr (s : String) : Json := Json.str s
def jBool (b : Bool) : Json := Json.bool b
def jList (l : List Json) : Json := Json.arr l.toArray

/-- a float payload travels as its decimal repr (Python `repr(float)` parses it back exactly
enough for the tolerances used; exact comparisons never use Float). -/
def jFloat (f : Float) : Json :=
  if f.isNaN then Json.str "nan" else if f.isInf then Json.str (if f > 0 then "inf" else "-inf")
  else match JsonNumber.fromFloat? f with
    | .inr n => Json.num n
    | .inl s => Json.str s

/-- exact float payload: `[m, e]` with value `m · 2^e` (the decimal printer above keeps ~6 digits only) -/
def jFloatExact (f : Float) : Json :=
  if f.isNaN then Json.str "nan" else if f.isInf then Json.str (if f > 0 then "inf" else "-inf") else
  let (m, e) := f.frExp
  let s := Float.scaleB m 53
  let n : Int := (Float.abs s).toUInt64.toNat
  Json.arr #[jInt (if s < 0 then -n else n), jInt (e - 53)]

def getFloat (j : Json) (k : String) : Except String Float := do
  let v ← j.getObjVal? k
  match v with
  | .num n => pure n.toFloat
  | .str "nan" => pure (0.0/0.0)
  | .str "inf" => pure (1.0/0.0)
  | .str "-inf" => pure (-1.0/0.0)
  | _ => throw "BadArg:float"

def floatOf (v : Json) : Except String Float :=
  match v with
  | .num n => pure n.toFloat
  | .str "nan" => pure (0.0/0.0)
  | .str "inf" => pure (1.0/0.0)
  | .str "-inf" => pure (-1.0/0.0)
  | _ => throw "BadArg:float"

def getFloatList (j : Json) (k : String) : Except String (List Float) := do
  (← getArr j k).toList.mapM floatOf

end Drv
