import DriverLib.Util
import PytmeModel.Model.C04
open Lean Drv Pm Pm.C04
namespace Drv.C04

def getArrInt (sh : List Nat) (j : Json) (k : String) : Except String (Arr Int) := do
  let d ← getIntList j k
  if d.length ≠ prodL sh then throw "BadArg:shape"
  pure ⟨sh, d.toArray⟩

def getSubs (sh : List Nat) (j : Json) : Except String (List (Arr Int × String)) := do
  let a ← j.getArr?
  a.toList.mapM (fun x => do
    let arr ← getArrInt sh x "d"
    let k ← getStr x "k"
    pure (arr, k))

def getTable (j : Json) (k : String) : Except String (Table String) := do
  (← getArr j k).toList.mapM (fun x => do
    let p ← x.getArr?
    if p.size ≠ 2 then throw "BadArg:table"
    let key ← p[0]!.getStr?
    let v ← p[1]!.getNat?
    pure (key, v))

def jTable (t : Table String) : Json :=
  jList (t.map (fun kv => jList [jStr kv.1, jNat kv.2]))

def jState (s : State String) : Json :=
  Json.mkObj [("shape", jNats s.scores.shape), ("scores", jInts s.scores.toList),
              ("rots", jInts s.rots.toList), ("table", jTable s.table)]

def getStore (x : Json) : Except String (Store String) := do
  let sh ← getNatList x "shape"
  let off ← getNatList x "offset"
  if off.length ≠ sh.length then throw "BadArg:offset"
  let sc ← getArrInt sh x "scores"
  let rt ← getArrInt sh x "rots"
  let t ← getTable x "table"
  pure ⟨sc, off, rt, t⟩

def jStore (s : Store String) : Json :=
  Json.mkObj [("shape", jNats s.scores.shape), ("offset", jNats s.offset), ("scores", jInts s.scores.toList),
              ("rots", jInts s.rots.toList), ("table", jTable s.table)]

def handle (op : String) (a : Json) : Option R :=
  match op with
  | "c04.run" => some do
      let sh ← getNatList a "shape"
      let thr ← getInt a "thr"
      let subs ← getSubs sh (← a.getObjVal? "subs")
      let s := run sh thr subs
      match a.getObjVal? "post" with
      | .ok p => do
          let shift ← getIntList p "shift"; let starts ← getNatList p "starts"; let exts ← getNatList p "exts"
          if shift.length ≠ sh.length ∨ starts.length ≠ sh.length ∨ exts.length ≠ sh.length then throw "BadArg:post"
          pure (jState (postprocess s shift starts exts))
      | .error _ => pure (jState s)
  | "c04.merge" => some do
      let thr ← getInt a "thr"
      let ps ← (← getArr a "stores").toList.mapM (fun x => if x.isNull then pure none else do pure (some (← getStore x)))
      let ss := ps.filterMap id
      match ss with
      | s :: _ => if ss.any (fun t => t.offset.length ≠ s.offset.length) then throw "BadArg:ndim"
      | [] => pure ()
      match mergeOpt thr ps with
      | some m => pure (jStore m)
      | none => pure (Json.str "none")
  | "c04.interleave" => some do
      let sh ← getNatList a "shape"
      let thr ← getInt a "thr"
      let lock ← getBool a "lock"
      let work ← (← getArr a "work").toList.mapM (getSubs sh)
      let sched ← getNatList a "sched"
      let sys := runSched lock (sysInit sh thr work) sched
      pure (Json.mkObj [("state", jState sys.shared), ("done", jBool (allDone sys work.length))])
  | "c04.specMax" => some do
      let thr ← getInt a "thr"
      let vals ← getIntListList a "vals"
      pure (jInts (vals.map (specMax thr)))
  | _ => none
end Drv.C04
