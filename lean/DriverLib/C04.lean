import DriverLib.Util
import PytmeModel.Model.C04
open Lean Drv Pm Pm.C04
namespace Drv.C04

def getArrInt (sh : List Nat) (j : Json) (k : String) : Except String (Arr Int) := do
  let d ← getIntList j k
  if d.length ≠ prodL sh then throw "BadArg:shape"
  pure ⟨sh, d.toArray⟩

def getSubs (sh : List Nat) (j : Json) : Except String (List (Arr Int × String)) := do
  let a ← j.getArr?
  a.toList.mapM (fun x => do
    let arr ← getArrInt sh x "d"
    let k ← getStr x "k"
    pure (arr, k))

def getTable (j : Json) (k : String) : Except String (Table String) := do
  (← getArr j k).toList.mapM (fun x => do
    let p ← x.getArr?
    if p.size ≠ 2 then throw "BadArg:table"
    let key ← p[0]!.getStr?
    let v ← p[1]!.getNat?
    pure (key, v))

def jTable (t : Table String) : Json :=
  jList (t.map (fun kv => jList [jStr kv.1, jNat kv.2]))

def jState (s : State String) : Json :=
  Json.mkObj [("shape", jNats s.scores.shape), ("scores", jInts s.scores.toList),
              ("rots", jInts s.rots.toList), ("table", jTable s.table)]

def getStore (x : Json) : Except String (Store String) := do
  let sh ← getNatList x "shape"
  let off ← getNatList x "offset"
  if off.length ≠ sh.length then throw "BadArg:offset"
  let sc ← getArrInt sh x "scores"
  let rt ← getArrInt sh x "rots"
  let t ← getTable x "table"
  pure ⟨sc, off, rt, t⟩

def jStore (s : Store String) : Json :=
  Json.mkObj [("shape", jNats s.scores.shape), ("offset", jNats s.offset), ("scores", jInts s.scores.toList),
              ("rots", jInts s.rots.toList), ("table", jTable s.table)]

/-- a matrix as rows of words (hex of one element each) -/
def getMat (j : Json) (k : String) : Except String (List (List String)) := do
  (← getArr j k).toList.mapM (fun row => do
    (← row.getArr?).toList.mapM (fun w => w.getStr?))

def getSubsMat (sh : List Nat) (j : Json) : Except String (List (Arr Int × List (List String))) := do
  let a ← j.getArr?
  a.toList.mapM (fun x => do
    let arr ← getArrInt sh x "d"
    let m ← getMat x "m"
    pure (arr, m))

def jMat (m : List (List String)) : Json := jList (m.map (fun row => jList (row.map jStr)))

def sameFile (a b : Arr Int) : Bool := a.shape == b.shape && a.toList == b.toList

def getSubsAny (j : Json) : Except String (List (Arr Int × String)) := do
  let a ← j.getArr?
  a.toList.mapM (fun x => do
    let sh ← getNatList x "shape"
    let arr ← getArrInt sh x "d"
    let k ← getStr x "k"
    pure (arr, k))

def handle (op : String) (a : Json) : Option R :=
  match op with
  | "c04.run" => some do
      let sh ← getNatList a "shape"
      let thr ← getInt a "thr"
      let subs ← getSubs sh (← a.getObjVal? "subs")
      let s := run sh thr subs
      match a.getObjVal? "post" with
      | .ok p => do
          let shift ← getIntList p "shift"; let starts ← getNatList p "starts"; let exts ← getNatList p "exts"
          if shift.length ≠ sh.length ∨ starts.length ≠ sh.length ∨ exts.length ≠ sh.length then throw "BadArg:post"
          pure (jState (postprocess s shift starts exts))
      | .error _ => pure (jState s)
  | "c04.merge" => some do
      let thr ← getInt a "thr"
      let ps ← (← getArr a "stores").toList.mapM (fun x => if x.isNull then pure none else do pure (some (← getStore x)))
      let ss := ps.filterMap id
      match ss with
      | s :: _ => if ss.any (fun t => t.offset.length ≠ s.offset.length) then throw "BadArg:ndim"
      | [] => pure ()
      match mergeOpt thr ps with
      | some m => pure (jStore m)
      | none => pure (Json.str "none")
  | "c04.interleave" => some do
      let sh ← getNatList a "shape"
      let thr ← getInt a "thr"
      let lock ← getBool a "lock"
      let work ← (← getArr a "work").toList.mapM (getSubs sh)
      let sched ← getNatList a "sched"
      let sys := runSched lock (sysInit sh thr work) sched
      pure (Json.mkObj [("state", jState sys.shared), ("done", jBool (allDone sys work.length))])
  | "c04.runNoLock" => some do
      let sh ← getNatList a "shape"
      let thr ← getInt a "thr"
      let subs ← getSubs sh (← a.getObjVal? "subs")
      pure (jState (runNoLock sh thr subs))
  | "c04.runInv" => some do
      let sh ← getNatList a "shape"
      let thr ← getInt a "thr"
      let subs ← getSubs sh (← a.getObjVal? "subs")
      pure (jStore (iterInv (runInv sh thr subs) (List.replicate sh.length 0)))
  | "c04.runMat" => some do
      let sh ← getNatList a "shape"
      let thr ← getInt a "thr"
      let n ← getNat a "n"
      let subs ← getSubsMat sh (← a.getObjVal? "subs")
      let s := run sh thr (subs.map (fun am => (am.1, matKey am.2)))
      let dec := s.rots.toList.map (fun r => match decodeRot n s.table r with
        | some m => jMat m
        | none => Json.null)
      pure (Json.mkObj [("scores", jInts s.scores.toList), ("rots", jInts s.rots.toList),
        ("table", jList (s.table.map (fun kv => jList [jStr (String.join kv.1), jNat kv.2]))),
        ("decoded", jList dec)])
  | "c04.mergeMem" => some do
      let thr ← getInt a "thr"
      let ps ← (← getArr a "stores").toList.mapM (fun x => if x.isNull then pure none else do pure (some (← getStore x)))
      let ss := ps.filterMap id
      match ss with
      | s :: _ => if ss.any (fun t => t.offset.length ≠ s.offset.length) then throw "BadArg:ndim"
      | [] => pure ()
      -- every given store is written to two files first (`array_to_memmap`), in list order
      let built := ps.foldl (fun (acc : FS × List (Option (MStore String))) p =>
        match p with
        | none => (acc.1, acc.2 ++ [none])
        | some st =>
          let c := storeToFiles acc.1 st
          (c.1, acc.2 ++ [some c.2])) (([] : FS), [])
      let fs := built.1
      let r := mergeOptMem thr fs built.2
      let same := (List.range fs.length).all (fun q => sameFile (r.1.read q) (fs.read q))
      pure (Json.mkObj [("result", match r.2 with
          | some m => jStore (m.load r.1)
          | none => Json.str "none"),
        ("paths", match r.2 with
          | some m => jNats [m.scores, m.rots]
          | none => jNats []),
        ("files_before", jNat fs.length), ("files_after", jNat r.1.length), ("inputs_unchanged", jBool same)])
  | "c04.memmapHandler" => some do
      let fsh ← getNatList a "shape"
      let starts ← getNatList a "starts"
      let files ← (← getArr a "files").toList.mapM (fun x => do
        let d ← intList (← x.getArr?)
        if d.length ≠ prodL fsh then throw "BadArg:file"
        pure (⟨fsh, d.toArray⟩ : Arr Int))
      let paths ← getTable a "paths"
      let subs ← getSubsAny (← a.getObjVal? "subs")
      match memmapHandlerRun paths starts files subs with
      | some fs => pure (jList (fs.map (fun f => jInts f.toList)))
      | none => pure (Json.str "KeyError")
  | "c04.once" => some do
      -- one analyzer of the merged volume fed every submission of every tile (embedded, threshold outside the box)
      let thr ← getInt a "thr"
      let tiles ← (← getArr a "tiles").toList.mapM (fun x => do
        let sh ← getNatList x "shape"
        let off ← getNatList x "offset"
        if off.length ≠ sh.length then throw "BadArg:offset"
        let subs ← getSubs sh (← x.getObjVal? "subs")
        pure (⟨off, sh, subs⟩ : Tile String))
      let out := outShape (tiles.map (tileStore thr))
      pure (jState (run out thr (bigHist thr out tiles)))
  | "c04.specMax" => some do
      let thr ← getInt a "thr"
      let vals ← getIntListList a "vals"
      pure (jInts (vals.map (specMax thr)))
  | _ => none
end Drv.C04
