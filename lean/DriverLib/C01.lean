import DriverLib.Util
import PytmeModel.Model.C01
open Lean Drv Pm Pm.C01
namespace Drv.C01

def floatOps (eps : Float) : Ops Float :=
  { zero := 0.0, one := 1.0, add := (· + ·), sub := (· - ·), mul := (· * ·), div := (· / ·),
    sqrt := Float.sqrt, lt := fun a b => a < b, ofNat := fun n => n.toFloat, eps := eps }

structure Req where
  score : String
  pad : Bool
  valid : Bool
  ns : List Nat
  ms : List Nat
  Ns : List Nat
  R : GridRot
  eps : Float
  ratio : Float
  order : Nat

def outShape (r : Req) : List Nat := if r.valid then List.zipWith validExt r.ns r.ms else r.ns
def crops (r : Req) : List Int := if r.valid then validCrops r.pad r.ns r.ms else sameCrops r.pad r.ns r.ms
/-- all branches of `_fourier_padding` (also a template larger than the target on some axis) -/
def shifts (r : Req) : List Int := List.zipWith (fun n m => fourierShiftFull n m r.pad) r.ns r.ms
def frame (r : Req) (t : List Int) : List Int := frameIdx r.Ns (shifts r) (crops r) t
/-- translation (frame of the scored array) of output position `j` -/
def transl (r : Req) (j : List Int) : List Int := if r.valid then validT r.ms j else j

def stats (d : List Float) : Float × Float :=
  let n := d.length.toFloat
  let mu := d.foldl (· + ·) 0.0 / n
  let var := d.foldl (fun a x => a + (x - mu) * (x - mu)) 0.0 / n
  (mu, Float.sqrt var)

/-- NOTE on evaluation: Lean compiles a definition that returns a function by eta-expansion, so every
array a field reads from is built here as a `let`-bound *value* and only then wrapped by `ext`. -/
def runFloat (r : Req) (impl mirror : Bool) (tgt tpl : List Float) (wm : List Float) (tm : Option (List Float)) : List Float :=
  let o := floatOps r.eps
  let rot : (List Int → Float) → (List Int → Float) := rotF r.R r.ms
  let (tgt, tpl) :=
    if r.score == "CAM" then
      let (m1, s1) := stats tgt; let (m2, s2) := stats tpl
      let s1 := if s1 < r.eps then r.eps else s1   -- `be.maximum(be.std(x), eps)`
      let s2 := if s2 < r.eps then r.eps else s2
      (tgt.map (fun x => (x - m1) / s1), tpl.map (fun x => (x - m2) / s2))
    else (tgt, tpl)
  let fA : Arr Float := ⟨r.ns, tgt.toArray⟩
  let f2A : Arr Float := ⟨r.ns, (tgt.map (fun x => x * x)).toArray⟩
  let gA0 : Arr Float := ⟨r.ms, tpl.toArray⟩
  let wA0 : Arr Float := ⟨r.ms, wm.toArray⟩
  -- masks that get rotated (FLC, MCC) pass through the un-prefiltered spline when order > 1 (implementation only)
  -- `mirror`: evaluate what the code evaluates (setup standardisation of the template under the given mask,
  -- un-prefiltered interpolation of rotated masks); `!mirror`: the textbook definition with the inputs as given
  let gA0 : Arr Float :=
    if mirror && r.score == "FLC" then
      let g0 := ext gA0; let w0 := ext wA0
      let st := normStats o r.ms g0 w0 (maskSum o r.ms w0)
      matA r.ms (normT o st g0 w0)
    else gA0
  let wA0 : Arr Float := if mirror && r.order > 1 && (r.score == "FLC" || r.score == "MCC") then smooth3 o wA0 else wA0
  -- stored frame (implementation) = reversed arrays; natural frame (spec) = the arrays themselves
  let gA : Arr Float := if impl then matA r.ms (rev r.ms (ext gA0)) else gA0
  let wA : Arr Float := if impl then matA r.ms (rev r.ms (ext wA0)) else wA0
  let f := ext fA; let f2 := ext f2A; let g := ext gA; let w := ext wA
  let C (pos : List Int) : (List Int → Float) → (List Int → Float) → Float :=
    if impl then
      let u := frame r pos
      fun a b => let bA := matA r.ms b; circ r.Ns a (ext bA) u
    else
      let t := transl r pos
      fun a b => let bA := matA r.ms b; corrSpec r.ms a (ext bA) t
  let outs := (allIdx (outShape r)).map natsToInts
  match r.score, tm with
  | "MCC", some tmd =>
    let tmA : Arr Float := ⟨r.ns, tmd.toArray⟩
    let fmA : Arr Float := ⟨r.ns, (List.zipWith (fun x m => if m > 0 then x else 0.0) tgt tmd).toArray⟩
    let fm2A : Arr Float := ⟨r.ns, (List.zipWith (fun x m => if m > 0 then x * x else 0.0) tgt tmd).toArray⟩
    let tmf := ext tmA; let fm := ext fmA; let fm2 := ext fm2A
    let GA := matA r.ms (rot g); let WA := matA r.ms (rot w)
    let G := ext GA; let W := ext WA
    -- raw maps over the whole torus give the two global maxima (as the code takes them over the fast-shape arrays)
    let rawC (u : List Int) : (List Int → Float) → (List Int → Float) → Float :=
      if impl then fun a s => let sA := matA r.ms s; circ r.Ns a (ext sA) u
      else
        let t := List.zipWith (fun (x : Int) (m : Nat) => x - (((m - 1) / 2 : Nat) : Int)) u r.ms
        fun a b => let bA := matA r.ms b; corrSpec r.ms a (ext bA) t
    let allParts := (torusIdx r.Ns).map (fun u => mccParts o (rawC u) r.ms fm fm2 tmf G W)
    let maxDen := allParts.foldl (fun acc p => if acc < p.2.1.abs then p.2.1.abs else acc) 0.0
    let maxOv := allParts.foldl (fun acc p => if acc < p.2.2 then p.2.2 else acc) (-1.0e300)
    outs.map (fun pos =>
      let parts := mccParts o (C pos) r.ms fm fm2 tmf G W
      mccFinish o 1000.0 r.ratio parts maxDen maxOv)
  | _, _ =>
    outs.map (fun pos =>
      match r.score with
      | "CORR" | "CAM" => scoreCORR o (C pos) r.ms rot f f2 g w
      | "FLCSphericalMask" =>
        if mirror then scoreFLCSph o (C pos) r.ms rot f f2 g w
        else
          let GA := matA r.ms (rot g)
          scoreFLC o (C pos) r.ms f f2 (ext GA) w
      | "FLC" =>
        let GA := matA r.ms (rot g); let WA := matA r.ms (rot w)
        scoreFLC o (C pos) r.ms f f2 (ext GA) (ext WA)
      | _ => 0.0)

/-- CC / LCC exactly over the integers -/
def runInt (r : Req) (impl : Bool) (tgt tpl : List Int) : List Int :=
  let (tgtA, tplA) : Arr Int × Arr Int :=
    if r.score == "LCC" then (lapWrap ⟨r.ns, tgt.toArray⟩, lapWrap ⟨r.ms, tpl.toArray⟩)
    else (⟨r.ns, tgt.toArray⟩, ⟨r.ms, tpl.toArray⟩)
  let f := ext tgtA
  let g := ext tplA
  let outs := (allIdx (outShape r)).map natsToInts
  if impl then
    let sA := matA r.ms (rotF r.R r.ms (rev r.ms g))
    let s := ext sA
    outs.map (fun pos => circ r.Ns f s (frame r pos))
  else
    let GA := matA r.ms (rotF r.R r.ms g)
    let G := ext GA
    outs.map (fun pos => corrSpec r.ms f G (transl r pos))

def parseReq (a : Json) : Except String Req := do
  let ns ← getNatList a "ns"; let ms ← getNatList a "ms"; let Ns ← getNatList a "Ns"
  let perm ← getNatList a "perm"
  let flip ← (do let arr ← getArr a "flip"; arr.toList.mapM (·.getBool?))
  if ns.length ≠ ms.length ∨ ns.length ≠ Ns.length ∨ perm.length ≠ ns.length ∨ flip.length ≠ ns.length then throw "BadArg:rank"
  let mode ← getStr a "mode"
  if mode ≠ "same" ∧ mode ≠ "valid" then throw "BadArg:mode"
  pure { score := ← getStr a "score", pad := ← getBool a "pad", valid := mode == "valid", ns := ns, ms := ms, Ns := Ns,
         R := ⟨perm, flip⟩, eps := ← getFloat a "eps", ratio := (getFloat a "ratio").toOption.getD 0.3,
         order := (getNat a "order").toOption.getD 1 }

def handle (op : String) (a : Json) : Option R :=
  match op with
  | "c01.shapes" => some do
      -- conv shape, fourier shift (all branches) and crop starts per axis
      let ns ← getNatList a "ns"; let ms ← getNatList a "ms"; let pad ← getBool a "pad"
      pure (Json.mkObj [
        ("conv", jNats (List.zipWith (fun n m => convLen n m pad) ns ms)),
        ("shift", jInts (List.zipWith (fun n m => fourierShiftFull n m pad) ns ms)),
        ("same", jInts (sameCrops pad ns ms)), ("valid", jInts (validCrops pad ns ms))])
  | "c01.int" => some do
      let r ← parseReq a
      let tgt ← getIntList a "target"; let tpl ← getIntList a "template"
      if tgt.length ≠ prodL r.ns ∨ tpl.length ≠ prodL r.ms then throw "BadArg:data"
      pure (Json.mkObj [("impl", jInts (runInt r true tgt tpl)), ("spec", jInts (runInt r false tgt tpl))])
  | "c01.float" => some do
      let r ← parseReq a
      let tgt ← getFloatList a "target"; let tpl ← getFloatList a "template"; let wm ← getFloatList a "mask"
      let tm := (getFloatList a "targetMask").toOption
      if tgt.length ≠ prodL r.ns ∨ tpl.length ≠ prodL r.ms ∨ wm.length ≠ prodL r.ms then throw "BadArg:data"
      let what ← getStr a "what"
      let res := if what == "impl" then runFloat r true true tgt tpl wm tm
                 else if what == "spec" then runFloat r false true tgt tpl wm tm
                 else runFloat r false false tgt tpl wm tm
      pure (jList (res.map jFloatExact))
  | "c01.smooth3" => some do
      let sh ← getNatList a "shape"; let d ← getFloatList a "data"
      if d.length ≠ prodL sh then throw "BadArg:data"
      pure (jList ((smooth3 (floatOps 0.0) ⟨sh, d.toArray⟩).toList.map jFloatExact))
  | "c01.lap" => some do
      let sh ← getNatList a "shape"; let d ← getIntList a "data"
      if d.length ≠ prodL sh then throw "BadArg:data"
      pure (jInts (lapWrap ⟨sh, d.toArray⟩).toList)
  | _ => none
end Drv.C01
