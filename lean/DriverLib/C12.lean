import DriverLib.Util
import PytmeModel.Model.C12
open Lean Drv Pm Pm.C12
namespace Drv.C12

/-- floats travel exactly, as `[numerator, denominator]` of `float.as_integer_ratio()` -/
def ratFloat (v : Json) : Except String Float := do
  let a ← v.getArr?
  if a.size ≠ 2 then throw "BadArg:float-pair"
  let p ← a[0]!.getInt?
  let q ← a[1]!.getNat?
  if q = 0 then throw "BadArg:float-den"
  pure (Float.ofInt p / Float.ofNat q)

def optFloat (j : Json) (k : String) : Except String (Option Float) := do
  let v ← j.getObjVal? k
  match v with
  | .null => pure none
  | _ => pure (some (← ratFloat v))

def reqFloat (j : Json) (k : String) : Except String Float := do
  ratFloat (← j.getObjVal? k)

def floatList (j : Json) (k : String) : Except String (List Float) := do
  (← getArr j k).toList.mapM ratFloat

/-- exact output: `[m, e]` meaning `m * 2^e` (`Util.jFloat` keeps six decimals only) -/
def jFloatX (f : Float) : Json :=
  if f.isNaN then Json.str "nan" else if f.isInf then Json.str (if f > 0 then "inf" else "-inf") else
  let (m, e) := f.frExp
  let s := Float.scaleB m 53
  let n : Int := (Float.abs s).toUInt64.toNat
  Json.arr #[jInt (if s < 0 then -n else n), jInt (e - 53)]

def jFloats (l : List Float) : Json := Json.arr (l.map jFloatX).toArray

def kwOf (v : Json) : Except String Kw := do
  (← v.getArr?).toList.mapM (fun p => do
    let a ← p.getArr?
    if a.size ≠ 2 then throw "BadArg:kw"
    pure (← a[0]!.getStr?, ← a[1]!.getStr?))

def jKw (k : Kw) : Json := Json.arr (k.map (fun (a, b) => Json.arr #[jStr a, jStr b])).toArray

def okShape (s : List Nat) : Bool := decide (2 ≤ s.length) && decide (s.length ≤ 3) && s.all (fun n => decide (2 ≤ n))

def arrOut (a : Arr Float) : Json :=
  Json.mkObj [("shape", jNats a.shape), ("data", jFloats a.toList)]

def optNat (j : Json) (k : String) : Except String (Option Nat) := do
  let v ← j.getObjVal? k
  match v with
  | .null => pure none
  | _ => pure (some (← v.getNat?))

def optStr (j : Json) (k : String) : Except String (Option String) := do
  let v ← j.getObjVal? k
  match v with
  | .null => pure none
  | _ => pure (some (← v.getStr?))

/-- an n-D array `{"shape": [...], "data": [[p, q], ...]}` (row-major) -/
def arrIn (j : Json) (k : String) : Except String (Arr Float) := do
  let v ← j.getObjVal? k
  let s ← getNatList v "shape"
  let d ← floatList v "data"
  if d.length ≠ prodL s then throw "BadArg:array-size"
  pure ⟨s, d.toArray⟩

def jOptNat : Option Nat → Json
  | none => Json.null
  | some n => jNat n

def handle (op : String) (a : Json) : Option R :=
  match op with
  | "c12.bins" => some do
      let s ← getNatList a "shape"
      if !okShape s then throw "BadArg:shape"
      let nb := nBins s (← optNat a "n_bins")
      if nb = 0 then throw "BadArg:n_bins"
      pure (Json.mkObj [("n_bins", jNat nb), ("max_bins", jNat (maxBins s)),
        ("bins", jNats (binsArr floatOps s nb).toList),
        ("voxel_bins", jNats ((allIdx s).map (binOfVoxel floatOps s nb)))])
  | "c12.whitennone" => some do
      let s ← getNatList a "shape"
      let spec ← floatList a "spectrum"
      let nb ← getNat a "n_bins"
      if !okShape s ∨ nb = 0 then throw "BadArg:shape"
      pure (arrOut (whitenNone floatOps spec.toArray s nb))
  | "c12.stepvol" => some do
      let s ← getNatList a "shape"
      let o ← getNat a "opening"; let t ← getNat a "tilt"
      if !okShape s ∨ o ≥ s.length ∨ t ≥ s.length ∨ o = t then throw "BadArg:axes"
      let plane ← arrIn a "plane"
      if plane.shape.length ≠ 2 then throw "BadArg:plane"
      pure (Json.mkObj [("plane_shape", jNats (planeShape s o t)), ("row", jNat (planeRow s o)),
        ("volume", arrOut (stepVolume floatOps plane s o t (← reqFloat a "wmax")))])
  | "c12.wedgetail" => some do
      let vol ← arrIn a "vol"
      if !okShape vol.shape then throw "BadArg:shape"
      let args : WTail Float := ⟨vol.shape, ← optFloat a "cutoff", ← getBool a "weight_wedge", ← getBool a "rrf"⟩
      pure (arrOut (wedgeTail floatOps vol args))
  | "c12.contvol" => some do
      let s ← getNatList a "shape"
      let o ← getNat a "opening"; let t ← getNat a "tilt"
      if !okShape s ∨ o ≥ s.length ∨ t ≥ s.length ∨ o = t then throw "BadArg:axes"
      let args : WArgs Float := ⟨s, ← reqFloat a "start", ← reqFloat a "stop", ← reqFloat a "big", o, t, none, false⟩
      pure (arrOut (contVolume floatOps args))
  | "c12.tiltplane" => some do
      let s ← getNatList a "shape"
      if s.isEmpty ∨ !s.all (fun n => decide (2 ≤ n)) then throw "BadArg:shape"
      pure (arrOut (tiltPlaneZero floatOps s (← reqFloat a "w") (← optFloat a "cutoff")))
  | "c12.tiltfn" => some do
      let s ← getNatList a "shape"
      if s.isEmpty ∨ !s.all (fun n => decide (2 ≤ n)) then throw "BadArg:shape"
      let c ← optFloat a "cutoff"
      match (← getStr a "kind") with
      | "relion" => pure (arrOut (tiltPlaneFn floatOps s (relionVal floatOps (← reqFloat a "sigma") (← reqFloat a "cos")) c))
      | "grigorieff" => pure (arrOut (tiltPlaneFn floatOps s
          (grigorieffVal floatOps (← reqFloat a "w") (← reqFloat a "amplitude") (← reqFloat a "power") (← reqFloat a "offset")) c))
      | _ => throw "BadArg:kind"
  | "c12.tilted" => some do
      let s ← getNatList a "shape"
      let op ← getNat a "opening"
      if s.length ≠ 3 ∨ op ≥ 3 ∨ !s.all (fun n => decide (2 ≤ n)) then throw "BadArg:shape"
      let rows ← (← getArr a "matrix").toList.mapM (fun r => do (← r.getArr?).toList.mapM ratFloat)
      if rows.length ≠ 3 ∨ !rows.all (fun r => r.length == 3) then throw "BadArg:matrix"
      let c ← optFloat a "cutoff"
      let val ← match (← getStr a "kind") with
        | "grid" => pure (fun (r : Float) => r)
        | "const" => do let w ← reqFloat a "w"; pure (fun (_ : Float) => w)
        | "relion" => do pure (relionVal floatOps (← reqFloat a "sigma") (← reqFloat a "cos"))
        | "grigorieff" => do
            pure (grigorieffVal floatOps (← reqFloat a "w") (← reqFloat a "amplitude") (← reqFloat a "power") (← reqFloat a "offset"))
        | _ => throw "BadArg:kind"
      pure (arrOut (tiltedPlane floatOps rows s op val c))
  | "c12.recfilter" => some do
      let ps ← getNatList a "plane_shape"
      if ps.length ≠ 2 ∨ !ps.all (fun n => decide (2 ≤ n)) then throw "BadArg:shape"
      let kind := recFilterKind (← getStr a "filter_type")
      let arr ← match kind with
        | some "ramp" => pure (some (recFilterRamp floatOps ps (← reqFloat a "scale")))
        | some "ramp-cont" => pure none
        | some _ => pure (some (recFilterRadial floatOps ps (fun r => r)))
        | none => pure none
      pure (Json.mkObj [("kind", match kind with | none => Json.null | some k => jStr k),
        ("array", match arr with | none => Json.null | some x => arrOut x)])
  | "c12.binshape" => some do
      pure (Json.mkObj [("shape", jNats (binShape (← getNatList a "shape") (← optNat a "batch"))),
        ("rank", jNat (maskRank (← getNatList a "shape").length (← optNat a "batch")))])
  | "c12.stepweights" => some do
      pure (jBool (stepWeightsFromCos (← getBool a "weight_wedge") (← getBool a "wedge_weights_given")))
  | "c12.wedgecall" => some do
      let p := wedgeCallPlan (← getStr a "func") (← getNat a "n_self") (← getNat a "n_call") (← getBool a "cutoff")
      pure (Json.mkObj [("raises", jBool p.raises), ("planes", jNat p.nPlanes), ("reported", jNat p.nReported),
        ("cut", Json.arr (p.cut.map jBool).toArray)])
  | "c12.wedgeplan" => some do
      let s ← getNatList a "shape"
      let wt ← optStr a "weight_type"
      pure (Json.mkObj [("func", match wedgeWeightFunc wt with | none => Json.null | some f => jStr f),
        ("replaced", jBool (wedgeWeightsReplaced wt)),
        ("stack", jNats (wedgeStackShape s (← getNat a "opening") (← getNat a "n")))])
  | "c12.ctfplan" => some do
      let s ← getNatList a "shape"
      let p := ctfPlan s (← optNat a "opening") (← getNat a "n_angles") (← getNat a "n_self") (← getNat a "n_defocus")
        (← getBool a "rrf")
      pure (Json.mkObj [("shape", jNats p.shape), ("shifted", jBool p.shifted), ("cropped", jBool p.cropped),
        ("opening", jOptNat p.opening)])
  | "c12.radialone" => some do
      let s ← getNatList a "shape"
      if !okShape s then throw "BadArg:shape"
      pure (arrOut (radialMaskOne floatOps s (← getBool a "rrf") (fun r => r)))
  | "c12.meta" => some do
      let c ← match (← getStr a "cls") with
        | "BandPassFilter" => pure Cls.bandpass | "LinearWhiteningFilter" => pure Cls.whitening
        | "WedgeReconstructed" => pure Cls.wedgeRec | "Wedge" => pure Cls.wedge | "CTF" => pure Cls.ctf
        | "ReconstructFromTilt" => pure Cls.reconstruct | _ => throw "BadArg:cls"
      pure (Json.mkObj [("emits", Json.arr ((emits c).map jStr).toArray), ("mult", jBool (multFlag c)),
        ("reads_sirf", jBool (readsSirf c))])
  | "c12.pp" => some do
      let (g, r) := ppBandpass (← getBool a "sigma_is_zero") (← getBool a "omit_negative")
      let (c, w, r2) := ppWedge (← getBool a "infinite_plane") (← getBool a "has_weights") (← getBool a "omit_negative")
      pure (Json.mkObj [("use_gaussian", jBool g), ("bp_rrf", jBool r), ("cutoff", jBool c), ("weight_wedge", jBool w),
        ("wedge_rrf", jBool r2)])
  | "c12.axis" => some do
      let n ← getNat a "n"
      if n = 0 then throw "BadArg:n"
      let r := List.range n
      pure (Json.mkObj [("center", jNat (center n)), ("shift", jNat (shiftAmt n)), ("half", jNat (halfLen n)),
        ("freq", jInts (r.map (freqIndex n))), ("src", jNats (r.map (shiftSrc n))), ("neg", jNats (r.map (negPos n)))])
  | "c12.shapes" => some do
      let s ← getNatList a "shape"
      if s.isEmpty then throw "BadArg:shape"
      pure (Json.mkObj [("fourier", jNats (fourierShape s (← getBool a "sirf"))), ("crop", jNats (cropShape s))])
  | "c12.bandpass" => some do
      let s ← getNatList a "shape"
      let lp ← optFloat a "lowpass"; let hp ← optFloat a "highpass"
      let srs ← floatList a "sampling_rate"
      let g ← getBool a "gaussian"
      if !okShape s ∨ srs.isEmpty then throw "BadArg:shape"
      if g ∧ lp.isNone ∧ hp.isNone then throw "BadArg:no-cutoff"
      let args : BPArgs Float := ⟨s, lp, hp, srs, g, ← getBool a "rrf", ← getBool a "sirf"⟩
      pure (arrOut (bandpass floatOps args))
  | "c12.whiten" => some do
      let s ← getNatList a "shape"
      let spec ← floatList a "spectrum"
      if !okShape s ∨ spec.isEmpty then throw "BadArg:shape"
      pure (arrOut (whiten floatOps spec.toArray s (← getBool a "sirf")))
  | "c12.whitenaxes" => some do
      let nd ← getNat a "nd"
      let b ← match (← a.getObjVal? "batch") with
        | .null => pure none
        | v => pure (some (← v.getNat?))
      pure (Json.mkObj [("axes", jNats (whitenShiftAxes nd b)), ("old", jNats (whitenShiftAxesOld nd b)),
        ("rank", jNat (maskRank nd b))])
  | "c12.wedge" => some do
      let s ← getNatList a "shape"
      let o ← getNat a "opening"; let t ← getNat a "tilt"
      if !okShape s ∨ o ≥ s.length ∨ t ≥ s.length ∨ o = t then throw "BadArg:axes"
      let args : WArgs Float := ⟨s, ← reqFloat a "start", ← reqFloat a "stop", ← reqFloat a "big", o, t,
        ← optFloat a "cutoff", ← getBool a "rrf"⟩
      pure (arrOut (contWedge floatOps args))
  | "c12.calls" => some do
      let cfg ← kwOf (← a.getObjVal? "cfg")
      let calls ← (← getArr a "calls").toList.mapM kwOf
      let call ← match (← getStr a "mode") with
        | "copy" => pure callCopy | "leaky" => pure callLeaky | _ => throw "BadArg:mode"
      let (fin, effs) := runCalls call cfg calls
      pure (Json.mkObj [("state", jKw fin), ("effective", Json.arr (effs.map jKw).toArray)])
  | "c12.compose" => some do
      let parts ← (← getArr a "parts").toList.mapM (fun p => do
        let d ← p.getObjVal? "data"
        let data ← match d with
          | .null => pure none
          | _ => pure (some (← (← d.getArr?).toList.mapM ratFloat))
        let m ← getBool p "mult"
        pure (⟨data, m, []⟩ : Ret Float))
      let ts : List (Transform Float) := parts.map (fun r => fun _ _ => r)
      match compose (fun (x y : Float) => x * y) ts [] none with
      | none => pure (Json.mkObj [("data", Json.null), ("empty", jBool true)])
      | some r => pure (Json.mkObj [("data", match r.data with | none => Json.null | some d => jFloats d),
                                   ("mult", jBool r.mult)])
  | _ => none
end Drv.C12
