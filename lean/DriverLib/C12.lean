import DriverLib.Util
import PytmeModel.Model.C12
open Lean Drv Pm Pm.C12
namespace Drv.C12

/-- floats travel exactly, as `[numerator, denominator]` of `float.as_integer_ratio()` -/
def ratFloat (v : Json) : Except String Float := do
  let a ← v.getArr?
  if a.size ≠ 2 then throw "BadArg:float-pair"
  let p ← a[0]!.getInt?
  let q ← a[1]!.getNat?
  if q = 0 then throw "BadArg:float-den"
  pure (Float.ofInt p / Float.ofNat q)

def optFloat (j : Json) (k : String) : Except String (Option Float) := do
  let v ← j.getObjVal? k
  match v with
  | .null => pure none
  | _ => pure (some (← ratFloat v))

def reqFloat (j : Json) (k : String) : Except String Float := do
  ratFloat (← j.getObjVal? k)

def floatList (j : Json) (k : String) : Except String (List Float) := do
  (← getArr j k).toList.mapM ratFloat

/-- exact output: `[m, e]` meaning `m * 2^e` (`Util.jFloat` keeps six decimals only) -/
def jFloatX (f : Float) : Json :=
  if f.isNaN then Json.str "nan" else if f.isInf then Json.str (if f > 0 then "inf" else "-inf") else
  let (m, e) := f.frExp
  let s := Float.scaleB m 53
  let n : Int := (Float.abs s).toUInt64.toNat
  Json.arr #[jInt (if s < 0 then -n else n), jInt (e - 53)]

def jFloats (l : List Float) : Json := Json.arr (l.map jFloatX).toArray

def kwOf (v : Json) : Except String Kw := do
  (← v.getArr?).toList.mapM (fun p => do
    let a ← p.getArr?
    if a.size ≠ 2 then throw "BadArg:kw"
    pure (← a[0]!.getStr?, ← a[1]!.getStr?))

def jKw (k : Kw) : Json := Json.arr (k.map (fun (a, b) => Json.arr #[jStr a, jStr b])).toArray

def okShape (s : List Nat) : Bool := decide (2 ≤ s.length) && decide (s.length ≤ 3) && s.all (fun n => decide (2 ≤ n))

def arrOut (a : Arr Float) : Json :=
  Json.mkObj [("shape", jNats a.shape), ("data", jFloats a.toList)]

def handle (op : String) (a : Json) : Option R :=
  match op with
  | "c12.axis" => some do
      let n ← getNat a "n"
      if n = 0 then throw "BadArg:n"
      let r := List.range n
      pure (Json.mkObj [("center", jNat (center n)), ("shift", jNat (shiftAmt n)), ("half", jNat (halfLen n)),
        ("freq", jInts (r.map (freqIndex n))), ("src", jNats (r.map (shiftSrc n))), ("neg", jNats (r.map (negPos n)))])
  | "c12.shapes" => some do
      let s ← getNatList a "shape"
      if s.isEmpty then throw "BadArg:shape"
      pure (Json.mkObj [("fourier", jNats (fourierShape s (← getBool a "sirf"))), ("crop", jNats (cropShape s))])
  | "c12.bandpass" => some do
      let s ← getNatList a "shape"
      let lp ← optFloat a "lowpass"; let hp ← optFloat a "highpass"
      let srs ← floatList a "sampling_rate"
      let g ← getBool a "gaussian"
      if !okShape s ∨ srs.isEmpty then throw "BadArg:shape"
      if g ∧ lp.isNone ∧ hp.isNone then throw "BadArg:no-cutoff"
      let args : BPArgs Float := ⟨s, lp, hp, srs, g, ← getBool a "rrf", ← getBool a "sirf"⟩
      pure (arrOut (bandpass floatOps args))
  | "c12.whiten" => some do
      let s ← getNatList a "shape"
      let spec ← floatList a "spectrum"
      if !okShape s ∨ spec.isEmpty then throw "BadArg:shape"
      pure (arrOut (whiten floatOps spec.toArray s (← getBool a "sirf")))
  | "c12.whitenaxes" => some do
      let nd ← getNat a "nd"
      let b ← match (← a.getObjVal? "batch") with
        | .null => pure none
        | v => pure (some (← v.getNat?))
      pure (Json.mkObj [("axes", jNats (whitenShiftAxes nd b)), ("old", jNats (whitenShiftAxesOld nd b)),
        ("rank", jNat (maskRank nd b))])
  | "c12.wedge" => some do
      let s ← getNatList a "shape"
      let o ← getNat a "opening"; let t ← getNat a "tilt"
      if !okShape s ∨ o ≥ s.length ∨ t ≥ s.length ∨ o = t then throw "BadArg:axes"
      let args : WArgs Float := ⟨s, ← reqFloat a "start", ← reqFloat a "stop", ← reqFloat a "big", o, t,
        ← optFloat a "cutoff", ← getBool a "rrf"⟩
      pure (arrOut (contWedge floatOps args))
  | "c12.calls" => some do
      let cfg ← kwOf (← a.getObjVal? "cfg")
      let calls ← (← getArr a "calls").toList.mapM kwOf
      let call ← match (← getStr a "mode") with
        | "copy" => pure callCopy | "leaky" => pure callLeaky | _ => throw "BadArg:mode"
      let (fin, effs) := runCalls call cfg calls
      pure (Json.mkObj [("state", jKw fin), ("effective", Json.arr (effs.map jKw).toArray)])
  | "c12.compose" => some do
      let parts ← (← getArr a "parts").toList.mapM (fun p => do
        let d ← p.getObjVal? "data"
        let data ← match d with
          | .null => pure none
          | _ => pure (some (← (← d.getArr?).toList.mapM ratFloat))
        let m ← getBool p "mult"
        pure (⟨data, m, []⟩ : Ret Float))
      let ts : List (Transform Float) := parts.map (fun r => fun _ _ => r)
      match compose (fun (x y : Float) => x * y) ts [] none with
      | none => pure (Json.mkObj [("data", Json.null), ("empty", jBool true)])
      | some r => pure (Json.mkObj [("data", match r.data with | none => Json.null | some d => jFloats d),
                                   ("mult", jBool r.mult)])
  | _ => none
end Drv.C12
