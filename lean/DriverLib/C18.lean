import DriverLib.Util
import PytmeModel.Model.C18
open Lean Drv Pm Pm.C18
namespace Drv.C18

def itemOf (j : Json) : Except String Item := do
  let k ← getStr j "kind"
  match k with
  | "obj" => pure (.obj (← getStr j "payload"))
  | "tup" => pure (.tup (← getStr j "first") (← getStr j "rest"))
  | "memmap" => pure (.memmap (← getNatList j "shape") (← getStr j "dtype") (← getStr j "file") (← getNat j "content"))
  | _ => throw "BadArg:kind"

def jLoaded : Loaded → Json
  | .obj p => Json.mkObj [("kind", jStr "obj"), ("payload", jStr p)]
  | .tup a b => Json.mkObj [("kind", jStr "tup"), ("first", jStr a), ("rest", jStr b)]
  | .memmap e => Json.mkObj [("kind", jStr "memmap"), ("enc", jStr e)]

def handle (op : String) (a : Json) : Option R :=
  match op with
  | "c18.pickle" => some do
      let items ← (← getArr a "items").toList.mapM itemOf
      let fresh : Nat → String := fun i => s!"new{i}"
      let fs : FS := items.filterMap (fun it => match it with | .memmap _ _ f c => some (f, c) | _ => none)
      let (recs, fs') := writeItems fresh 0 fs items
      pure (Json.mkObj [("loaded", jList ((loadAll recs).map jLoaded)),
                        ("files", jList (fs'.map (fun (f, c) => Json.arr #[jStr f, jNat c])))])
  | "c18.rewrite" => some do
      -- the same path written twice (first `before`, then `items`): what a reader gets afterwards
      let before ← (← getArr a "before").toList.mapM itemOf
      let items ← (← getArr a "items").toList.mapM itemOf
      let fresh : Nat → String := fun i => s!"new{i}"
      let (r1, _) := writeItems fresh 0 [] before
      let (r2, _) := writeItems (fun i => s!"again{i}") 0 [] items
      let d : Disk := Disk.write (Disk.write [] "out" r1) "out" r2
      match Disk.read d "out" with
      | some rs => pure (Json.mkObj [("loaded", jList ((loadAll rs).map jLoaded))])
      | none => throw "NoSuchPath"
  | "c18.keptAt" => some do
      pure (Json.mkObj [("kept", Json.bool (keptAt (← getNat a "d") (← getNat a "n") (← getNat a "x")))])
  | "c18.refPos" => some do
      pure (jInts (refPos (← getNatList a "ms") (← getIntList a "P0")))
  | _ => none
end Drv.C18
