import DriverLib.Util
import PytmeModel.Model.C18
import PytmeModel.Model.C18Cli
open Lean Drv Pm Pm.C18
namespace Drv.C18

def itemOf (j : Json) : Except String Item := do
  let k ← getStr j "kind"
  match k with
  | "obj" => pure (.obj (← getStr j "payload"))
  | "tup" => pure (.tup (← getStr j "first") (← getStr j "rest"))
  | "memmap" => pure (.memmap (← getNatList j "shape") (← getStr j "dtype") (← getStr j "file") (← getNat j "content"))
  | _ => throw "BadArg:kind"

def jLoaded : Loaded → Json
  | .obj p => Json.mkObj [("kind", jStr "obj"), ("payload", jStr p)]
  | .tup a b => Json.mkObj [("kind", jStr "tup"), ("first", jStr a), ("rest", jStr b)]
  | .memmap e => Json.mkObj [("kind", jStr "memmap"), ("enc", jStr e)]

/-- optional field: absent or `null` ↦ `none` -/
def optInt (a : Json) (k : String) : Except String (Option Int) :=
  match a.getObjVal? k with
  | .ok .null => pure none
  | .ok v => do pure (some (← v.getInt?))
  | .error _ => pure none

def optNat (a : Json) (k : String) : Except String (Option Nat) :=
  match a.getObjVal? k with
  | .ok .null => pure none
  | .ok v => do pure (some (← v.getNat?))
  | .error _ => pure none

def optIntList (a : Json) (k : String) : Except String (Option (List Int)) :=
  match a.getObjVal? k with
  | .ok .null => pure none
  | .ok v => do pure (some (← intList (← v.getArr?)))
  | .error _ => pure none

def optStrList (a : Json) (k : String) : Except String (Option (List String)) :=
  match a.getObjVal? k with
  | .ok .null => pure none
  | .ok v => do pure (some (← (← v.getArr?).toList.mapM (·.getStr?)))
  | .error _ => pure none

def jOptInt : Option Int → Json
  | some v => jInt v
  | none => Json.null

def jVox (v : Vox) : Json := Json.arr #[jNats v.pos, jInt v.score]

def voxOfJson (j : Json) : Except String Vox := do
  let a ← j.getArr?
  match a.toList with
  | [p, s] => pure ⟨← natList (← p.getArr?), ← s.getInt?⟩
  | _ => throw "BadArg:vox"

def memberName : Member → String
  | .scores => "scores" | .offset => "offset" | .rotations => "rotations" | .rotationMapping => "rotation_mapping"
  | .translations => "translations" | .peakRotations => "peak_rotations" | .peakScores => "peak_scores" | .details => "details"
  | .info => "meta"

def jPlan : RotPlan → Json
  | .identity s o => Json.mkObj [("branch", jStr "identity"), ("angular", jInt s), ("optimized", jBool o)]
  | .grid s o => Json.mkObj [("branch", jStr "grid"), ("angular", jInt s), ("optimized", jBool o)]
  | .cone ca cs aa as n => Json.mkObj [("branch", jStr "cone"), ("cone_angle", jOptInt ca), ("cone_sampling", jOptInt cs),
      ("axis_angle", jInt aa), ("axis_sampling", jOptInt as), ("n_symmetry", jInt n)]

def jAns : SchedAns → Json
  | none => Json.null
  | some (sp, (o, i)) => Json.mkObj [("splits", jNats sp), ("schedule", jNats [o, i])]

def ansOf (j : Json) : Except String SchedAns :=
  match j with
  | .null => pure none
  | _ => do
    let sp ← getNatList j "splits"
    match ← getNatList j "schedule" with
    | [o, i] => pure (some (sp, (o, i)))
    | _ => throw "BadArg:schedule"

def maskCheckName : MaskCheck → String
  | .noMask => "none" | .ok => "ok" | .shapeMismatch => "shape" | .samplingMismatch => "sampling" | .broadcastError => "broadcast"

def argCheckName : ArgCheck → String
  | .ok => "ok" | .needWedgeAxes => "need-wedge-axes" | .tiltNeitherFileNorRange => "tilt-neither-file-nor-range"
  | .needTiltAngles => "need-tilt-angles"

/-- the stub of `compute_parallelization_schedule`: answers keyed by the padding it is called with -/
def cpsOf (table : List (List Nat × SchedAns)) (c : SchedCall) : SchedAns :=
  match table.find? (fun e => e.1 == c.padding) with
  | some e => e.2
  | none => none

def handleCli (op : String) (a : Json) : Option R :=
  match op with
  | "c18.postprocess" => some do
      -- the whole chain of decisions of postprocess.main for a score-map result read with PeakCallerSort / --min_distance 0
      let shape ← getNatList a "shape"
      let vox := voxOf shape (← getIntList a "scores") (← optIntList a "mask")
      let lo ← optInt a "lo"
      let hi ← optInt a "hi"
      let d := effDist (← getBool a "mask_edges") (← getNat a "d") (← getNatList a "tshape")
      let k := ppNumberOfPeaks lo.isSome (← getBool a "has_nfp") (← optNat a "number_of_peaks")
      pure (Json.mkObj [("d", jNat d), ("k", jNat k),
                        ("reported", jList ((ppMain k d shape lo hi vox).map jVox)),
                        ("survivors", jList ((survivors d shape lo hi vox).map jVox))])
  | "c18.ppPeaks" => some do
      let cands ← (← getArr a "cands").toList.mapM voxOfJson
      pure (jList ((scoreFilter (← optInt a "lo") (← optInt a "hi") cands).map jVox))
  | "c18.ppArgs" => some do
      let bg := match ppBackground (← optStrList a "background") (← getNat a "n_inputs") with
        | .ok l => jList (l.map (fun x => match x with | some s => jStr s | none => Json.null))
        | .error e => jStr e
      pure (Json.mkObj [("number_of_peaks", jNat (ppNumberOfPeaks (← getBool a "has_min") (← getBool a "has_nfp") (← optNat a "number_of_peaks"))),
                        ("background", bg), ("relion_box", jNat (relionBox (← getNat a "box")))])
  | "c18.window" => some do
      let shape ← getNatList a "shape"
      let pos ← getNatList a "pos"
      pure (Json.mkObj [("in", jBool (inWindow (← getNat a "d") shape pos)),
                        ("dist", match borderDist shape pos with | some b => jNat b | none => Json.null)])
  | "c18.layout" => some do
      let pc ← getBool a "peak_calling"
      let D ← getNat a "ndim"
      let w := writerLayout pc
      pure (Json.mkObj [("writer", jList (w.map (fun m => jStr (memberName m)))),
                        ("ndims", jList (w.map (fun m => match memberNdim D m with | some n => jNat n | none => Json.null))),
                        ("score_map", jBool (readerIsScoreMap D w)),
                        ("reader", jList ((readerNames (readerIsScoreMap D w)).map (fun m => jStr (memberName m))))])
  | "c18.rotPlan" => some do
      let ra : RotArgs := ⟨← optInt a "angular", ← getBool a "no_optimized", ← optInt a "cone_angle", ← optInt a "cone_sampling",
                           ← getInt a "axis_angle", ← optInt a "axis_sampling", ← getInt a "axis_symmetry"⟩
      pure (Json.mkObj [("plan", jPlan (rotPlan ra)), ("axis_sampling_after", jOptInt (rotArgsAfter ra).axisSampling)])
  | "c18.schedule" => some do
      let table ← (← getArr a "answers").toList.mapM (fun e => do
        let pad ← getNatList e "padding"
        let ans ← ansOf (← e.getObjVal? "answer")
        pure (pad, ans))
      let tmpl ← getNatList a "tmpl"
      let pe ← getBool a "pad_edges"
      let pf ← getBool a "pad_fourier"
      let o := schedule (cpsOf table) tmpl pf pe
      let tshape ← match (← optNat a "use_tshape") with
        | some _ => getNatList a "tshape"
        | none => pure tmpl
      let pc := (← optNat a "peak_calling") == some 1
      let f := scanFlags pe pf (← getBool a "pad_filter") (← getBool a "no_centering") (cpsOf table) tmpl tshape
      pure (Json.mkObj [("calls", jList (o.calls.map (fun c => Json.mkObj [("box", jNats c.box), ("padding", jNats c.padding)]))),
                        ("result", jAns o.result), ("pad_edges_after", jBool o.padEdgesAfter),
                        ("scan", Json.mkObj [("pad_target_edges", jBool f.padTargetEdges), ("pad_fourier", jBool f.padFourier),
                                             ("pad_template_filter", jBool f.padTemplateFilter), ("centre", jBool f.centre),
                                             ("min_distance", jNat f.minDistance)]),
                        ("callback", jStr (callbackName pc)),
                        ("mask_applied", jBool (maskApplied pc ((← optNat a "has_target_mask") == some 1) ((← optNat a "is_mcc") == some 1)))])
  | "c18.backend" => some do
      let av ← (← getArr a "available").toList.mapM (·.getStr?)
      let req := match a.getObjVal? "backend" with
        | .ok (.str r) => some r
        | _ => none
      let c := selectBackend av req (← getBool a "use_gpu") (← getBool a "mixed") (← getBool a "peak_calling")
      let o := backendInterpolation c (mtInterpolation (← getInt a "interpolation_order"))
      pure (Json.mkObj [("choice", match c with
                          | .rejected => jStr "rejected"
                          | .unchanged => jStr "unchanged"
                          | .chosen n dev => Json.arr #[jStr n, match dev with | some x => jStr x | none => Json.null]),
                        ("interpolation", jOptInt o)])
  | "c18.merge" => some do
      -- inputs: one flat score list per input file; answer: per voxel [score, entity]
      let inputs ← getIntListList a "inputs"
      let n := match inputs with | [] => 0 | f :: _ => f.length
      pure (jList ((List.range n).map (fun i =>
        let r := mergeVoxel (inputs.map (fun l => l.getD i 0))
        Json.arr #[jInt r.1, jNat r.2])))
  | "c18.bgNorm" => some do
      -- voxelwise: fg[i] = fgNum[i] / den, bg[i] = bgNum[i] / den
      let den ← getNat a "den"
      let fg ← getIntList a "fg"
      let bg ← getIntList a "bg"
      pure (jList (List.zipWith (fun x y => match bgNorm (x, den) (y, den) with
        | .fin n d => Json.arr #[jInt n, jNat d]
        | .inf => jStr "inf") fg bg))
  | "c18.maskCheck" => some do
      pure (jStr (maskCheckName (maskCheck (← getBool a "has_path") (← getIntList a "mshape") (← getIntList a "tshape")
                                           (← getIntList a "mrate") (← getIntList a "trate"))))
  | "c18.mtArgs" => some do
      pure (Json.mkObj [("check", jStr (argCheckName (mtValidate (← getBool a "has_tilt") (← getBool a "tilt_is_file")
                                     (← getBool a "tilt_is_number") (← getBool a "has_wedge_axes") (← getBool a "has_ctf")))),
                        ("interpolation", jOptInt (mtInterpolation (← getInt a "interpolation_order")))])
  | _ => none

def handleBase (op : String) (a : Json) : Option R :=
  match op with
  | "c18.pickle" => some do
      let items ← (← getArr a "items").toList.mapM itemOf
      let fresh : Nat → String := fun i => s!"new{i}"
      let fs : FS := items.filterMap (fun it => match it with | .memmap _ _ f c => some (f, c) | _ => none)
      let (recs, fs') := writeItems fresh 0 fs items
      pure (Json.mkObj [("loaded", jList ((loadAll recs).map jLoaded)),
                        ("files", jList (fs'.map (fun (f, c) => Json.arr #[jStr f, jNat c])))])
  | "c18.rewrite" => some do
      -- the same path written twice (first `before`, then `items`): what a reader gets afterwards
      let before ← (← getArr a "before").toList.mapM itemOf
      let items ← (← getArr a "items").toList.mapM itemOf
      let fresh : Nat → String := fun i => s!"new{i}"
      let (r1, _) := writeItems fresh 0 [] before
      let (r2, _) := writeItems (fun i => s!"again{i}") 0 [] items
      let d : Disk := Disk.write (Disk.write [] "out" r1) "out" r2
      match Disk.read d "out" with
      | some rs => pure (Json.mkObj [("loaded", jList ((loadAll rs).map jLoaded))])
      | none => throw "NoSuchPath"
  | "c18.keptAt" => some do
      pure (Json.mkObj [("kept", Json.bool (keptAt (← getNat a "d") (← getNat a "n") (← getNat a "x")))])
  | "c18.refPos" => some do
      pure (jInts (refPos (← getNatList a "ms") (← getIntList a "P0")))
  | _ => none

def handle (op : String) (a : Json) : Option R :=
  match handleBase op a with
  | some r => some r
  | none => handleCli op a
end Drv.C18
