import DriverLib.Util
import PytmeModel.Model.C02
import PytmeModel.Model.C02Run
import PytmeModel.Model.C01
import PytmeModel.Extracted.C02
open Lean Drv Pm Pm.C02
namespace Drv.C02

def jOp : Op → Json
  | .fill b => Json.arr #[jStr "fill", jNat b]
  | .partialW b rs => Json.arr #[jStr "partialW", jNat b, jNats rs]
  | .fullW b rs => Json.arr #[jStr "fullW", jNat b, jNats rs]
  | .read rs => Json.arr #[jStr "read", jNats rs]
  | .out b => Json.arr #[jStr "out", jNat b]

def jSlice (l : List (Nat × Nat)) : Json := jList (l.map (fun s => jNats [s.1, s.2]))

def jJob (J : Job Nat) : Json := Json.mkObj [
  ("index", jNat J.index), ("gpuIndex", jNat J.gpuIndex), ("targetSlice", jSlice J.targetSlice),
  ("templateSlice", jSlice J.templateSlice), ("pad", jNats J.pad), ("offset", jNats J.offset),
  ("valid", jBool J.valid), ("targetShape", jNats J.targetShape), ("templateShape", jNats J.templateShape),
  ("outShape", jNats J.outShape), ("nJobs", jNat J.nJobs), ("threadSafe", jBool J.threadSafe),
  ("chunks", jNatss J.chunks)]

def jTable (t : Pm.C04.Table String) : Json :=
  jList (t.map (fun kv => jList [jStr kv.1, jNat kv.2]))

def jStore (s : Pm.C04.Store String) : Json :=
  Json.mkObj [("shape", jNats s.scores.shape), ("offset", jNats s.offset), ("scores", jInts s.scores.toList),
              ("rots", jInts s.rots.toList), ("table", jTable s.table)]

/-- score arrays given job by job (creation order), rotation by rotation: looked up by the job's slices -/
def tableScore (jobs : List (Job Nat)) (data : List (List (List Int))) : ScoreFn Nat String :=
  fun t m r =>
    match (jobs.zip data).find? (fun jd => jd.1.targetSlice == t && jd.1.templateSlice == m) with
    | some (J, d) => (⟨J.outShape, (d.getD r []).toArray⟩, toString r)
    | none => (⟨[], #[]⟩, toString r)

def handle (op : String) (a : Json) : Option R :=
  match op with
  | "c02.splitRotations" => some do
      let n ← getNat a "n"; let j ← getNat a "nJobs"
      if j == 0 then throw "ZeroDivision"
      pure (jNatss (splitRotations (List.range n) j))
  | "c02.enumJobs" => some do
      let tgt ← getNatList a "target"; let tmpl ← getNatList a "template"
      let ts ← getNatList a "targetSplits"; let ms ← getNatList a "templateSplits"
      let outer ← getNat a "outer"; let inner ← getNat a "inner"; let n ← getNat a "nRot"
      let pe ← getBool a "padEdges"
      if inner == 0 || outer == 0 then throw "ZeroDivision"
      if tgt.length != tmpl.length || ts.length != tgt.length || ms.length != tmpl.length then throw "rank"
      let jobs := enumJobs tgt tmpl ts ms outer inner (List.range n) pe
      -- `fourier_padding` of every job's subset (C01's model of `_fourier_padding`): what `scan` tells its analyzers
      let pf := match getBool a "padFourier" with | .ok b => b | .error _ => true
      pure (Json.mkObj [("jobs", jList (jobs.map jJob)),
        ("convShape", jNatss (jobs.map (fun J => List.zipWith (fun n m => Pm.C01.convLen n m pf) J.targetShape J.templateShape))),
        ("fourierShift", jIntss (jobs.map (fun J => List.zipWith (fun n m => Pm.C01.fourierShiftFull n m pf) J.targetShape J.templateShape))),
        ("mergePlan", jList ((mergePlan jobs).map (fun l => jList (l.map (fun p => jNats [p.1, p.2]))))),
        ("cores", jList ((jobs.map Job.core).map (fun c => Json.mkObj [("targetSlice", jSlice c.targetSlice),
            ("templateSlice", jSlice c.templateSlice), ("offset", jNats c.offset), ("outShape", jNats c.outShape),
            ("rots", jNats c.rots)])))])
  | "c02.scanSubsets" => some do
      let tgt ← getNatList a "target"; let tmpl ← getNatList a "template"
      let ts ← getNatList a "targetSplits"; let ms ← getNatList a "templateSplits"
      let outer ← getNat a "outer"; let inner ← getNat a "inner"
      let rots ← getNatList a "rots"
      let pe ← getBool a "padEdges"; let thr ← getInt a "thr"
      if inner == 0 || outer == 0 then throw "ZeroDivision"
      if tgt.length != tmpl.length || ts.length != tgt.length || ms.length != tmpl.length then throw "rank"
      let data ← (← getArr a "scores").toList.mapM (fun j => do
        (← j.getArr?).toList.mapM (fun r => do intList (← r.getArr?)))
      let jobs := enumJobs tgt tmpl ts ms outer inner rots pe
      if data.length != jobs.length then throw "BadArg:scores"
      if (jobs.zip data).any (fun jd => jd.2.any (fun d => d.length != prodL jd.1.outShape)) then throw "BadArg:shape"
      match scanSubsetsRun thr (tableScore jobs data) jobs with
      | some m => pure (jStore m)
      | none => pure (Json.str "none")
  | "c02.loops" => some do
      pure (Json.mkObj [
        ("corr", Json.mkObj [("inputs", jNats corrInputs), ("ops", jList (corrLoop.map jOp)), ("ok", jBool (defBeforeUse corrInputs corrInputs corrLoop))]),
        ("flc", Json.mkObj [("inputs", jNats flcInputs), ("ops", jList (flcLoop.map jOp)), ("ok", jBool (defBeforeUse flcInputs flcInputs flcLoop))]),
        ("mcc", Json.mkObj [("inputs", jNats mccInputs), ("ops", jList (mccLoop.map jOp)), ("ok", jBool (defBeforeUse mccInputs mccInputs mccLoop))])])
  | _ => none
end Drv.C02
