import DriverLib.Util
import PytmeModel.Model.C02
import PytmeModel.Extracted.C02
open Lean Drv Pm Pm.C02
namespace Drv.C02

def jOp : Op → Json
  | .fill b => Json.arr #[jStr "fill", jNat b]
  | .partialW b rs => Json.arr #[jStr "partialW", jNat b, jNats rs]
  | .fullW b rs => Json.arr #[jStr "fullW", jNat b, jNats rs]
  | .read rs => Json.arr #[jStr "read", jNats rs]
  | .out b => Json.arr #[jStr "out", jNat b]

def handle (op : String) (a : Json) : Option R :=
  match op with
  | "c02.splitRotations" => some do
      let n ← getNat a "n"; let j ← getNat a "nJobs"
      if j == 0 then throw "ZeroDivision"
      pure (jNatss (splitRotations (List.range n) j))
  | "c02.loops" => some do
      pure (Json.mkObj [
        ("corr", Json.mkObj [("inputs", jNats corrInputs), ("ops", jList (corrLoop.map jOp)), ("ok", jBool (defBeforeUse corrInputs corrInputs corrLoop))]),
        ("flc", Json.mkObj [("inputs", jNats flcInputs), ("ops", jList (flcLoop.map jOp)), ("ok", jBool (defBeforeUse flcInputs flcInputs flcLoop))]),
        ("mcc", Json.mkObj [("inputs", jNats mccInputs), ("ops", jList (mccLoop.map jOp)), ("ok", jBool (defBeforeUse mccInputs mccInputs mccLoop))])])
  | _ => none
end Drv.C02
