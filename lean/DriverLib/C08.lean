import DriverLib.Util
import PytmeModel.Model.C08
open Lean Drv Pm Pm.C08
namespace Drv.C08

def hexDigit (n : Nat) : Char := if n < 10 then Char.ofNat (48 + n) else Char.ofNat (87 + n)

def toHex (bs : List Nat) : String :=
  String.ofList (bs.flatMap (fun b => [hexDigit (b / 16 % 16), hexDigit (b % 16)]))

def hexVal (c : Char) : Except String Nat :=
  if '0' ≤ c ∧ c ≤ '9' then pure (c.toNat - 48)
  else if 'a' ≤ c ∧ c ≤ 'f' then pure (c.toNat - 87)
  else throw "BadArg:hex"

def fromHexAux : List Char → List Nat → Except String (List Nat)
  | [], acc => pure acc.reverse
  | [_], _ => throw "BadArg:hex"
  | a :: b :: rest, acc => do
      let x ← hexVal a; let y ← hexVal b
      fromHexAux rest ((x * 16 + y) :: acc)

def fromHex (s : String) : Except String (List Nat) := fromHexAux s.toList []

def getBox (j : Json) (k : String) : Except String Box := do
  let l ← getIntListList j k
  l.mapM (fun p => match p with
    | [a, b] => pure (a, b)
    | _ => throw "BadArg:box")

def ratOf (v : Json) : Except String Rat := do
  let a ← v.getArr?
  match a.toList with
  | [n, d] => do
      let n ← n.getInt?; let d ← d.getNat?
      if d = 0 then throw "BadArg:rat" else pure (mkRat n d)
  | _ => throw "BadArg:rat"

def getRatList (j : Json) (k : String) : Except String (List Rat) := do
  (← getArr j k).toList.mapM ratOf

def jRat (q : Rat) : Json := Json.arr #[jInt q.num, jNat q.den]
def jRats (l : List Rat) : Json := Json.arr (l.map jRat).toArray

def jArrRes (r : Res (Arr Nat)) : Json :=
  match r with
  | .ok a => Json.mkObj [("shape", jNats a.shape), ("data", jNats a.toList)]
  | .err e => Json.mkObj [("raised", jStr e)]

def fmtName : Fmt → String
  | .mrc => "mrc" | .em => "em" | .h5 => "h5"

def jEm (r : Option (EmParsed × List Nat)) : Json :=
  match r with
  | some (p, d) => Json.mkObj [("code", jNat p.code), ("shape", jNats p.shape), ("rateMilli", jInt p.rateMilli),
      ("rateOut", jInt (emRateOut p.rateMilli)), ("hdr", jNat p.hdr), ("data", jNats d)]
  | none => Json.mkObj [("raised", jStr "Malformed")]

def getFields (a : Json) : Except String MrcFields := do
  pure { nxyz := ← getNatList a "nxyz", mode := ← getNat a "mode", nstart := ← getIntList a "nstart",
         mxyz := ← getNatList a "mxyz", cella := ← getRatList a "cella", mapcrs := ← getNatList a "mapcrs",
         origin := ← getRatList a "origin", nsymbt := ← getNat a "nsymbt" }

def jFields (h : MrcFields) : Json :=
  Json.mkObj [("nxyz", jNats h.nxyz), ("mode", jNat h.mode), ("nstart", jInts h.nstart), ("mxyz", jNats h.mxyz),
    ("cella", jRats h.cella), ("mapcrs", jNats h.mapcrs), ("origin", jRats h.origin), ("nsymbt", jNat h.nsymbt)]

def optInt (j : Json) : Except String (Option Int) :=
  match j with
  | Json.null => pure none
  | _ => do pure (some (← j.getInt?))

def getSlice (j : Json) : Except String PySlice := do
  match (← j.getArr?).toList with
  | [a, b, c] => pure ⟨← optInt a, ← optInt b, ← optInt c⟩
  | _ => throw "BadArg:slice"

def handle (op : String) (a : Json) : Option R :=
  match op with
  | "c08.emEncode" => some do
      let code ← getNat a "code"; let b ← getNat a "b"; let sh ← getNatList a "shape"
      let r ← getInt a "rateMilli"; let d ← getNatList a "data"
      let old := (getBool a "old").toOption.getD false
      pure (jStr (toHex (if old then emEncodeOld code b sh r d else emEncode code b sh r d)))
  | "c08.emDecode" => some do
      let f ← fromHex (← getStr a "file")
      let mm := (getBool a "memmap").toOption.getD false
      pure (jEm (if mm then emDecodeMemmap f else emDecode f))
  | "c08.payload" => some do
      pure (jStr (toHex (payload (← getNat a "b") (← getNatList a "data"))))
  | "c08.subsets" => some do
      -- one file, many boxes: [loadSubset …] (with the full-box shortcut) per box
      let f ← fromHex (← getStr a "file")
      let hdr ← getNat a "header"; let sh ← getNatList a "shape"; let b ← getNat a "b"
      let boxes ← (← getArr a "boxes").toList.mapM (fun bj => do
        let l ← (← bj.getArr?).toList.mapM (fun x => do intList (← x.getArr?))
        l.mapM (fun p => match p with
          | [s, e] => pure (s, e)
          | _ => throw "BadArg:box"))
      let raw := (getBool a "raw").toOption.getD false
      let pad := (getBool a "mrcpad").toOption.getD false
      let exact := (getBool a "exact").toOption.getD false    -- truncated files: short reads as coded
      pure (jList (boxes.map (fun bx =>
        let bx := if pad then mrcPadBox bx sh else bx
        jArrRes (if exact then (if raw then readSubsetExact f hdr sh b bx else loadSubsetExact f hdr sh b bx)
          else if raw then readSubset f hdr sh b bx else loadSubset f hdr sh b bx))))
  | "c08.emWrite" => some do
      -- what `_save_em` writes for a density held as `dtype`: the dtype on disk, its type code and item size
      let dt ← getStr a "dtype"
      let w := emWriteDtype dt
      pure (Json.mkObj [("dtype", jStr w), ("code", jNat (emWriteCode dt)), ("b", jNat ((dtypeSize w).getD 0))])
  | "c08.crsSubsets" => some do
      -- MRC file with axis permutation `crs`: one file, many boxes given in the caller's axes
      let f ← fromHex (← getStr a "file")
      let hdr ← getNat a "header"; let sh ← getNatList a "shape"; let b ← getNat a "b"
      let crs ← getNatList a "crs"
      let boxes ← (← getArr a "boxes").toList.mapM (fun bj => do
        let l ← (← bj.getArr?).toList.mapM (fun x => do intList (← x.getArr?))
        l.mapM (fun p => match p with
          | [s, e] => pure (s, e)
          | _ => throw "BadArg:box"))
      let old := (getBool a "old").toOption.getD false
      pure (jList (boxes.map (fun bx =>
        jArrRes (if old then mrcLoadSubsetCrsOld f hdr sh b crs bx else mrcLoadSubsetCrs f hdr sh b crs bx))))
  | "c08.transpose" => some do
      let sh ← getNatList a "shape"; let d ← getNatList a "data"; let p ← getNatList a "perm"
      let r := transposeArr ⟨sh, d.toArray⟩ p
      pure (Json.mkObj [("shape", jNats r.shape), ("data", jNats r.toList)])
  | "c08.slice" => some do
      let sh ← getNatList a "shape"; let d ← getNatList a "data"; let bx ← getBox a "box"
      let r := sliceArr ⟨sh, d.toArray⟩ bx
      pure (Json.mkObj [("shape", jNats r.shape), ("data", jNats r.toList)])
  | "c08.validate" => some do
      match validateSlices (← getBox a "box") (← getNatList a "shape") with
      | some e => pure (jStr e)
      | none => pure (jStr "ok")
  | "c08.shortcut" => some do
      let bx ← getBox a "box"; let sh ← getNatList a "shape"
      pure (Json.mkObj [("exact", jBool (isFullBox bx sh)), ("allclose", jBool (allcloseShape (boxShape bx) sh))])
  | "c08.isGz" => some do
      pure (jBool (isGz (← fromHex (← getStr a "head"))))
  | "c08.fmt" => some do
      let n := (← getStr a "name").toList
      let fin := finalName n (← getBool a "gzip")
      pure (Json.mkObj [("final", jStr (String.ofList fin)), ("save", jStr (fmtName (saveFmt fin))),
        ("load", jStr (fmtName (loadFmt fin)))])
  | "c08.tables" => some do
      pure (Json.mkObj [("save", jList (emSaveTable.map (fun p => jList [jStr p.1, jNat p.2]))),
        ("load", jList (emLoadTable.map (fun p => jList [jNat p.1, jStr p.2]))),
        ("sizes", jList (emLoadTable.map (fun p => jList [jNat p.1, jNat ((emItemsize p.1).getD 0)])))])
  | "c08.mrcFields" => some do
      pure (jFields (mrcFields (← getNatList a "shape") (← getRatList a "origin") (← getRatList a "rate")))
  | "c08.mrcRead" => some do
      match mrcRead (← getFields a) with
      | .ok p => pure (Json.mkObj [("shape", jNats p.shape), ("origin", jRats p.origin), ("rate", jRats p.rate),
          ("header", jNat p.header), ("crs", jNats p.crs)])
      | .err e => pure (Json.mkObj [("raised", jStr e)])
  | "c08.sliceReq" => some do
      -- the `subset` argument as python slices ([start|null, stop|null, step|null] each), one file, many requests
      let fmt ← getStr a "fmt"
      let sh ← getNatList a "shape"
      let reqs ← (← getArr a "reqs").toList.mapM (fun rj => do (← rj.getArr?).toList.mapM getSlice)
      if fmt == "h5" then
        let d ← getNatList a "data"
        pure (jList (reqs.map (fun sl => jArrRes (pySliceArr ⟨sh, d.toArray⟩ sl))))
      else
        let f ← fromHex (← getStr a "file")
        let hdr ← getNat a "header"; let b ← getNat a "b"
        pure (jList (reqs.map (fun sl =>
          jArrRes (if fmt == "em" then emLoadSlices f hdr sh b sl else mrcLoadSlices f hdr sh b sl))))
  | "c08.mrcModes" => some do
      let modes ← getNatList a "modes"; let dts := (← getArr a "dtypes").toList.filterMap (fun j => j.getStr?.toOption)
      pure (Json.mkObj [
        ("modes", jList (modes.map (fun m => match mrcModeDtype m, mrcModeSize m with
          | some d, some b => jList [jNat m, jStr d, jNat b]
          | _, _ => jList [jNat m, Json.null, Json.null]))),
        ("dtypes", jList (dts.map (fun d => match mrcModeOfDtype d with
          | some m => jList [jStr d, jNat m]
          | none => jList [jStr d, Json.null])))])
  | "c08.mrcReadCrs" => some do
      match mrcReadCrs (← getFields a) with
      | .ok p => pure (Json.mkObj [("shape", jNats p.shape), ("origin", jRats p.origin), ("rate", jRats p.rate),
          ("header", jNat p.header), ("crs", jNats p.crs)])
      | .err e => pure (Json.mkObj [("raised", jStr e)])
  | "c08.emSubsetAny" => some do
      let f ← fromHex (← getStr a "file")
      let boxes ← (← getArr a "boxes").toList.mapM (fun bj => do
        let l ← (← bj.getArr?).toList.mapM (fun x => do intList (← x.getArr?))
        l.mapM (fun p => match p with
          | [s, e] => pure (s, e)
          | _ => throw "BadArg:box"))
      pure (Json.mkObj [("b", jNat (emReadItemsize (f.getD 3 0))), ("res", jList (boxes.map (fun bx => jArrRes (emLoadSubsetAny f bx))))])
  | "c08.effMemmap" => some do
      pure (jBool (effMemmap (← fromHex (← getStr a "head")) (← getBool a "memmap")))
  | "c08.emRate" => some do
      let rs ← getRatList a "rates"
      pure (jList (rs.map (fun q => Json.mkObj [("milli", jInt (emRateMilliOf q)), ("read", jRat (emRateRead (emRateMilliOf q)))])))
  | "c08.emHeaderLen" => some do
      let sh ← getNatList a "shape"
      pure (Json.mkObj [("len", jNat (emHeaderLen sh.length)), ("written", jNat (emHeader 5 sh 1000).length),
        ("parsedShape", match emParse (emEncode 5 4 sh 1000 (List.replicate (prodL sh) 0)) with
          | some p => jNats p.shape | none => Json.null)])
  | _ => none
end Drv.C08
