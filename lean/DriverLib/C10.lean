import DriverLib.Util
import PytmeModel.Model.C10
import PytmeModel.Model.C10K
open Lean Drv Pm Pm.C10
namespace Drv.C10

def ratOf (j : Json) : Except String Rat := do
  let a ← j.getArr?
  match a.toList with
  | [n, d] =>
    let n ← n.getInt?; let d ← d.getNat?
    if d = 0 then throw "BadArg:den" else pure (mkRat n d)
  | _ => throw "BadArg:rat"

def ratList (j : Json) : Except String (List Rat) := do
  (← j.getArr?).toList.mapM ratOf

def getRatList (j : Json) (k : String) : Except String (List Rat) := do
  ratList (← j.getObjVal? k)

def optField (j : Json) (k : String) : Option Json :=
  match j.getObjVal? k with
  | .ok Json.null => none
  | .ok v => some v
  | .error _ => none

def getOptRatList (j : Json) (k : String) : Except String (Option (List Rat)) :=
  match optField j k with
  | none => pure none
  | some v => do pure (some (← ratList v))

def getOptIntList (j : Json) (k : String) : Except String (Option (List Int)) :=
  match optField j k with
  | none => pure none
  | some v => do pure (some (← intList (← v.getArr?)))

def getOptStr (j : Json) (k : String) : Except String (Option String) :=
  match optField j k with
  | none => pure none
  | some v => do pure (some (← v.getStr?))

def jRat (q : Rat) : Json := jList [jInt q.num, jNat q.den]
def jRats (l : List Rat) : Json := jList (l.map jRat)

def wtOf (s : String) : Except String WType :=
  match s with
  | "atomic_weight" => pure .atomicWeight
  | "atomic_number" => pure .atomicNumber
  | _ => throw "BadArg:wt"

def atomOf (nd : Nat) (j : Json) : Except String Atom := do
  let xyz ← getRatList j "xyz"
  if xyz.length ≠ nd then throw "BadArg:rank"
  pure ⟨xyz, ← getStr j "elem", ← getStr j "chain"⟩

/-- non-zero voxels as (flat index, value), ascending -/
def sparse (g : Arr Int) : Json :=
  jList (((List.range g.data.size).filter (fun k => g.data.getD k 0 ≠ 0)).map
    (fun k => jList [jNat k, jInt (g.data.getD k 0)]))

def wAtomOf (nd : Nat) (j : Json) : Except String (List Rat × Int) := do
  let xyz ← getRatList j "xyz"
  if xyz.length ≠ nd then throw "BadArg:rank"
  pure (xyz, ← getInt j "w")

def wkOf (s : String) (pad : Nat) : WKind :=
  match s with
  | "atomic_weight" => .point .atomicWeight
  | "atomic_number" => .point .atomicNumber
  | "van_der_waals_radius" => .vdw
  | "scattering_factors" => .scattering
  | "lowpass_scattering_factors" => .scattering
  | "gaussian" => .gaussian pad
  | _ => .unknown

def getOptStrList (j : Json) (k : String) : Except String (Option (List String)) :=
  match optField j k with
  | none => pure none
  | some v => do pure (some (← (← v.getArr?).toList.mapM (·.getStr?)))

def recOf (nd : Nat) (j : Json) : Except String Rec := do
  pure ⟨← atomOf nd j, ← getStr j "res", ← getStr j "rec"⟩

def outK (o : OutK) (extra : List (String × Json)) : Json :=
  Json.mkObj ([("shape", jInts o.shape), ("origin", jRats o.origin), ("rate", jRats o.rate),
    ("outside", jNat o.outside), ("positions", jIntss o.positions), ("grid", sparse o.grid)] ++ extra)

def kArgs (a : Json) : Except String (Nat × Option (List Int) × Option (List Rat) × Option (List Rat) × Option String × WKind) := do
  let nd ← getNat a "nd"
  let shape ← getOptIntList a "shape"
  let rate ← getOptRatList a "rate"
  let origin ← getOptRatList a "origin"
  let chain ← getOptStr a "chain"
  let pad := match getNat a "pad" with | .ok p => p | .error _ => 0
  let wk := wkOf (← getStr a "wt") pad
  if let some s := shape then if s.length ≠ nd then throw "BadArg:rank"
  if let some o := origin then if o.length ≠ nd then throw "BadArg:rank"
  if let some r := rate then if r.any (fun x => x ≤ 0) then throw "BadArg:rate"
  pure (nd, shape, rate, origin, chain, wk)

def handle (op : String) (a : Json) : Option R :=
  match op with
  | "c10.vdwrTable" => some do
      pure (jList (vdwrTable.map (fun e => jList [jStr e.1, match e.2 with | some v => jNat v | none => Json.null])))
  | "c10.toVolumeK" => some do
      let (nd, shape, rate, origin, chain, wk) ← kArgs a
      let atoms ← (← getArr a "atoms").toList.mapM (atomOf nd)
      match toVolumeK nd atoms shape rate origin chain wk with
      | .error e => throw e
      | .ok o => pure (outK o [])
  | "c10.fromFileK" => some do
      let (nd, shape, rate, origin, chain, wk) ← kArgs a
      let recs ← (← getArr a "recs").toList.mapM (recOf nd)
      let elems ← getOptStrList a "elems"
      let residues ← getOptStrList a "residues"
      let kept := (recs.filter (fileKeep elems residues false)).length
      match fromFileK nd recs elems residues shape rate origin chain wk with
      | .error e => throw e
      | .ok o => pure (outK o [("selected", jNat kept)])
  | "c10.specVdw" => some do
      let nd ← getNat a "nd"
      let origin ← getRatList a "origin"
      let rate ← getRatList a "rate"
      let shape ← getIntList a "shape"
      if origin.length ≠ nd ∨ rate.length ≠ nd ∨ shape.length ≠ nd then throw "BadArg:rank"
      if rate.any (fun x => x ≤ 0) then throw "BadArg:rate"
      let atoms ← (← getArr a "atoms").toList.mapM (fun j => do
        let xyz ← getRatList j "xyz"
        if xyz.length ≠ nd then throw "BadArg:rank"
        pure (xyz, ← getNat j "vdwr"))
      let g := Arr.ofFn (toNats shape) (fun v => specVdw origin rate shape atoms (v.map Int.ofNat))
      pure (Json.mkObj [("grid", sparse g),
        ("radii", jIntss (atoms.map (fun x => vdwRadius x.2 rate))),
        ("idx", jIntss (atoms.map (fun x => idxOf origin rate x.1.reverse)))])
  | "c10.sphere" => some do
      let k ← getIntList a "k"
      let ds ← getIntListList a "ds"
      pure (jList (ds.map (fun d => jBool (inSphere k d))))
  | "c10.scatRanges" => some do
      let p ← getIntList a "p"
      let R ← getRatList a "R"
      let shape ← getIntList a "shape"
      let rs := zip3 scatRange p R shape
      pure (Json.mkObj [("ranges", jIntss (rs.map (fun r => [r.1, r.2]))),
        ("kind", jStr (match scatSupport p R shape with | .box _ => "box" | .point => "point" | .indexError => "IndexError"))])
  | "c10.table" => some do
      pure (jList (elementTable.map (fun e => jList [jStr e.1, jNat e.2.1, jNat e.2.2])))
  | "c10.weights" => some do
      let wt ← wtOf (← getStr a "wt")
      let syms ← (← getArr a "syms").toList.mapM (·.getStr?)
      pure (jInts (syms.map (weightOf wt)))
  | "c10.rint" => some do
      let qs ← getRatList a "qs"
      pure (jList (qs.map (fun q => jList [jInt (rint q), jBool (isTie q)])))
  | "c10.toVolume" => some do
      let nd ← getNat a "nd"
      let atoms ← (← getArr a "atoms").toList.mapM (atomOf nd)
      let shape ← getOptIntList a "shape"
      let rate ← getOptRatList a "rate"
      let origin ← getOptRatList a "origin"
      let chain ← getOptStr a "chain"
      let wt ← wtOf (← getStr a "wt")
      if let some s := shape then if s.length ≠ nd then throw "BadArg:rank"
      if let some o := origin then if o.length ≠ nd then throw "BadArg:rank"
      if let some r := rate then if r.any (fun x => x ≤ 0) then throw "BadArg:rate"
      match toVolume nd atoms shape rate origin chain wt with
      | .error e => throw e
      | .ok o =>
        -- per-atom view of the chain subset (before the bounds filter), for aligned comparison
        let sub := subsetByChain chain atoms
        let fr := frame nd (sub.map (fun x => x.xyz.reverse)) shape o.rate origin
        let allPos := sub.map (fun x => posOf o.rate fr x.xyz.reverse)
        let ties := sub.map (fun x =>
          zip3 (fun c og r => isTie ((c - og) / r)) x.xyz.reverse fr.origin0 o.rate)
        pure (Json.mkObj [
          ("shape", jInts o.shape), ("origin", jRats o.origin), ("rate", jRats o.rate),
          ("outside", jNat o.outside),
          ("positions", jIntss (o.kept.map (·.1))), ("weights", jInts (o.kept.map (·.2))),
          ("allpos", jIntss allPos), ("ties", jList (ties.map (fun t => jList (t.map jBool)))),
          ("shift", jInts fr.shift),
          ("grid", sparse o.grid)])
  | "c10.spec" => some do
      let nd ← getNat a "nd"
      let atoms ← (← getArr a "atoms").toList.mapM (wAtomOf nd)
      let origin ← getRatList a "origin"
      let rate ← getRatList a "rate"
      let shape ← getIntList a "shape"
      if origin.length ≠ nd ∨ rate.length ≠ nd ∨ shape.length ≠ nd then throw "BadArg:rank"
      if rate.any (fun x => x ≤ 0) then throw "BadArg:rate"
      let idx := atoms.map (fun x => idxOf origin rate x.1.reverse)
      let ties := atoms.map (fun x => zip3 (fun c og r => isTie ((c - og) / r)) x.1.reverse origin rate)
      pure (Json.mkObj [
        ("idx", jIntss idx), ("ties", jList (ties.map (fun t => jList (t.map jBool)))),
        ("inside", jList (idx.map (fun p => jBool (inBox shape p)))),
        ("outside", jNat (specOutside origin rate shape atoms)),
        ("total", jInt (specTotal origin rate shape atoms))])
  | "c10.specVoxels" => some do
      let nd ← getNat a "nd"
      let atoms ← (← getArr a "atoms").toList.mapM (wAtomOf nd)
      let origin ← getRatList a "origin"
      let rate ← getRatList a "rate"
      let vox ← getIntListList a "voxels"
      if origin.length ≠ nd ∨ rate.length ≠ nd then throw "BadArg:rank"
      if rate.any (fun x => x ≤ 0) then throw "BadArg:rate"
      pure (jInts (vox.map (specVoxel origin rate atoms)))
  | _ => none
end Drv.C10
