import DriverLib.Util
import PytmeModel.Model.C03
open Lean Drv Pm Pm.C03
namespace Drv.C03

def handle (op : String) (a : Json) : Option R :=
  match op with
  | "c03.strictFold" => some do
      -- one voxel: thr, subs = [[value, id], ...]
      let thr ← getInt a "thr"
      let subs ← getIntListList a "subs"
      let ps ← subs.mapM (fun l => match l with
        | [v, i] => pure (v, i)
        | _ => throw "BadArg:subs")
      let r := strictFold thr ps
      pure (jInts [r.1, r.2])
  | "c03.strictFoldMaps" => some do
      -- a whole map: ids[r] is the id of rotation r, maps[r] its flat integer score array
      let thr ← getInt a "thr"
      let size ← getNat a "size"
      let ids ← getIntList a "ids"
      let maps ← getIntListList a "maps"
      if ids.length ≠ maps.length then throw "BadArg:ids"
      if maps.any (fun m => m.length ≠ size) then throw "BadArg:size"
      let r := strictFoldMaps thr size ids maps
      pure (Json.mkObj [("values", jInts (r.map (·.1))), ("ids", jInts (r.map (·.2)))])
  | _ => none
end Drv.C03
