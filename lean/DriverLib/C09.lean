import DriverLib.Util
import PytmeModel.Model.C09
open Lean Drv Pm Pm.C09
namespace Drv.C09

def jS (s : Str) : Json := Json.str (String.ofList s)

def getS (j : Json) (k : String) : Except String Str := do pure (← getStr j k).toList

def decOf (j : Json) : Except String Dec := do
  let n ← getBool j "n"
  let i ← getNat j "i"
  let f ← getNatList j "f"
  if f.any (· ≥ 10) then throw "BadArg:digit"
  pure ⟨n, i, f⟩

def jDec (d : Dec) : Json := Json.mkObj [("n", jBool d.neg), ("i", jNat d.ip), ("f", jNats d.frac)]

def atomOf (j : Json) : Except String Atom := do
  let d (k : String) : Except String Dec := do decOf (← j.getObjVal? k)
  pure { record := ← getS j "record", serial := ← getInt j "serial", name := ← getS j "name",
         alt := ← getS j "alt", resName := ← getS j "resName", chain := ← getS j "chain",
         resSeq := ← getInt j "resSeq", ins := ← getS j "ins", x := ← d "x", y := ← d "y", z := ← d "z",
         occ := ← d "occ", b := ← d "b", seg := ← getS j "seg", elem := ← getS j "elem",
         charge := ← getS j "charge" }

def jAtom (a : Atom) : Json :=
  Json.mkObj [("record", jS a.record), ("serial", jInt a.serial), ("name", jS a.name), ("alt", jS a.alt),
    ("resName", jS a.resName), ("chain", jS a.chain), ("resSeq", jInt a.resSeq), ("ins", jS a.ins),
    ("x", jDec a.x), ("y", jDec a.y), ("z", jDec a.z), ("occ", jDec a.occ), ("b", jDec a.b),
    ("seg", jS a.seg), ("elem", jS a.elem), ("charge", jS a.charge)]

def getAtoms (j : Json) (k : String) : Except String (List Atom) := do
  (← getArr j k).toList.mapM atomOf

def getStrs (j : Json) (k : String) : Except String (List Str) := do
  (← getArr j k).toList.mapM (fun x => do pure (← x.getStr?).toList)

def jCols (l : List Col) : Json := jList (l.map (fun c => jList [Json.str c.f.id, jNat c.lo, jNat c.hi]))

def handle (op : String) (a : Json) : Option R :=
  match op with
  | "c09.cols" => some do
      pure (Json.mkObj [("writer", jCols pdbWriterCols), ("reader", jCols pdbReaderCols),
        ("width", jNat pdbWidth), ("cifNames", jList (cifNames.map Json.str)),
        ("cifReadNames", jList (cifReadNames.map jS))])
  | "c09.writePdb" => some do
      let atoms ← getAtoms a "atoms"
      if ¬ atoms.all pdbRepresentable then throw "Unrepresentable"
      match writePdb atoms with
      | some t => pure (jS t)
      | none => throw "Raised"
  | "c09.loadPdb" => some do
      match loadPdb (← getS a "text") with
      | some l => pure (jList (l.map jAtom))
      | none => throw "Raised"
  | "c09.writeCif" => some do
      let atoms ← getAtoms a "atoms"
      let orig : Option Table := match a.getObjVal? "orig" with
        | .ok (.str s) => parseCif s.toList
        | _ => none
      match writeCif orig atoms with
      | some t => pure (jS t)
      | none => throw "Raised"
  | "c09.loadCif" => some do
      match loadCif (← getS a "text") with
      | some l => pure (jList (l.map jAtom))
      | none => throw "Raised"
  | "c09.filter" => some do
      pure (jList ((filterAtoms (← getBool a "keepNonAtom") (← getStrs a "elems") (← getStrs a "resNames")
        (← getAtoms a "atoms")).map jAtom))
  | "c09.formatString" => some do pure (jS (formatString (← getS a "s")))
  | "c09.splitLine" => some do pure (jList ((splitLine (← getS a "s")).map jS))
  | "c09.pdbLine" => some do pure (jS (pdbLine (← atomOf (← a.getObjVal? "atom"))))
  | _ => none
end Drv.C09
