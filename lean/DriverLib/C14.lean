import DriverLib.Util
import PytmeModel.Model.C14
open Lean Drv Pm Pm.C14
namespace Drv.C14

def jTile (t : List (Nat × Nat)) : Json := jList (t.map (fun (a, b) => jNats [a, b]))

def optStr (a : Json) (k : String) : Option String :=
  match a.getObjVal? k with
  | .ok (.str s) => some s
  | _ => none

def argmaxFirst (l : List Nat) : Nat :=
  let rec go : List Nat → Nat → Nat → Nat → Nat
    | [], _, _, bi => bi
    | x :: xs, i, bv, bi => if x > bv then go xs (i+1) x i else go xs (i+1) bv bi
  match l with
  | [] => 0
  | x :: xs => go xs 1 x 0

def handle (op : String) (a : Json) : Option R :=
  match op with
  | "c14.splitShape" => some do
      let sh ← getNatList a "shape"; let sp ← getNatList a "splits"
      if sh.length ≠ sp.length then throw "BadArg:rank"
      pure (jList ((splitShape sh sp).map jTile))
  | "c14.splitShapeOld" => some do
      let sh ← getNatList a "shape"; let sp ← getNatList a "splits"
      if sh.length ≠ sp.length then throw "BadArg:rank"
      pure (jList ((splitShapeOld sh sp).map jTile))
  | "c14.splitShapeU" => some do
      let sh ← getNatList a "shape"; let sp ← getNatList a "splits"
      if sh.length ≠ sp.length then throw "BadArg:rank"
      pure (jList ((splitShapeU sh sp).map jTile))
  | "c14.tileAxis" => some do
      let N ← getNat a "N"; let s ← getNat a "start"; let e ← getNat a "stop"; let p ← getNat a "p"
      if ¬ (s < e ∧ e ≤ N) then throw "BadArg:slice"
      let t := tileAxis N s e p
      pure (Json.mkObj [("extent", jNat t.extent), ("src", jNats ((List.range t.extent).map t.src)),
        ("arrStart", jNat t.arrStart), ("arrStop", jNat t.arrStop), ("padLo", jNat t.padLo), ("padHi", jNat t.padHi)])
  | "c14.targetPadding" => some do pure (jNat (targetPadding (← getNat a "m")))
  | "c14.targetPaddingB" => some do
      let ms ← getNatList a "m"; let bs ← getNatList a "batch"
      if ms.length ≠ bs.length then throw "BadArg:rank"
      pure (jNats (List.zipWith (fun m b => targetPaddingB m (b != 0)) ms bs))
  | "c14.memTable" => some do
      pure (jList (memTable.map (fun c => Json.mkObj [("name", jStr c.name),
        ("base", jNats [c.bRF, c.bRC, c.bCF, c.bCC]), ("fork", jNats [c.fRF, c.fRC, c.fCF, c.fCC])])))
  | "c14.estimate" => some do
      let s1 ← getNatList a "shape1"; let s2 ← getNatList a "shape2"
      match estimateRam s1 s2 (← getStr a "method") (← getNat a "ncores") (optStr a "analyzer") (optStr a "backend")
          (← getNat a "fb") (← getNat a "cb") with
      | some n => pure (jNat n)
      | none => throw "ValueError"
  | "c14.schedule" => some do
      let s1 ← getNatList a "shape1"; let s2 ← getNatList a "shape2"; let pad ← getNatList a "padding"
      let method ← getStr a "method"
      let fb ← getNat a "fb"; let cb ← getNat a "cb"
      let an := optStr a "analyzer"; let bk := optStr a "backend"
      if (lookupMem method).isNone then throw "ValueError"
      let axes : Option (List Nat) := (getNatList a "splitAxes").toOption
      let splitAxes := axes.getD (List.range s1.length)
      let (fa, fi) := match axes with
        | some (x :: _) => (x, 0)
        | _ => (argmaxFirst s1, argmaxFirst s1)
      let P : Problem := {
        ndim := s1.length,
        widths := fun f => (splitShape s1 f).map (fun t => t.map (fun (lo, hi) => hi - lo)),
        est := fun w n => (estimateRam (List.zipWith (· + ·) w pad) s2 method n an bk fb cb).getD 0,
        maxCores := ← getNat a "maxCores", maxRam := ← getNat a "maxRam", maxSplits := ← getNat a "maxSplits",
        onlyOuter := ← getBool a "onlyOuter", splitAxes := splitAxes, firstAxis := fi }
      match schedule P fa fi with
      | none => pure (jStr "none")
      | some c => pure (Json.mkObj [("splits", jNats c.splits), ("outer", jNat c.outer), ("inner", jNat c.inner),
                                    ("nSplits", jNat c.nSplits)])
  | _ => none
end Drv.C14
