import DriverLib.Util
import PytmeModel.Model.C07
open Lean Drv Pm Pm.C07
namespace Drv.C07

/-- exact transport of a double in both directions: its IEEE-754 bit pattern as a natural number
(decimal JSON numbers are not guaranteed to be parsed correctly rounded) -/
def exactF (v : Json) : Except String Float := do
  pure (Float.ofBits (UInt64.ofNat (← v.getNat?)))

def getExactF (a : Json) (k : String) : Except String Float := do exactF (← a.getObjVal? k)

def floats (v : Json) : Except String (List Float) := do (← v.getArr?).toList.mapM exactF

def getFloats (a : Json) (k : String) : Except String (List Float) := do floats (← a.getObjVal? k)

/-- exact transport back: the IEEE-754 bit pattern as a natural number (`Drv.jFloat` prints 6 decimals only) -/
def jExact (x : Float) : Json := jNat x.toBits.toNat

def jFloats (l : List Float) : Json := jList (l.map jExact)

def m3Of (l : List Float) : Except String (M3 Float) :=
  match l with
  | [a, b, c, d, e, f, g, h, i] => pure ⟨a, b, c, d, e, f, g, h, i⟩
  | _ => throw "BadArg:m3"

def axisOf (c : Char) : Except String Nat :=
  match c.toLower with
  | 'x' => pure 0 | 'y' => pure 1 | 'z' => pure 2
  | _ => throw "BadArg:axis"

def handle (op : String) (a : Json) : Option R :=
  match op with
  | "c07.shipped" => some do
      pure (jList (shipped.map (fun (n, k, ang) => jList [jStr n, jNat k, jInt ang])))
  | "c07.quatRows" => some do
      let rows ← (← getArr a "rows").toList.mapM floats
      let out ← rows.mapM (fun r => match r with
        | [w, x, y, z] => pure (jFloats (quatToMatF ⟨w, x, y, z⟩).toList)
        | _ => throw "BadArg:quat")
      pure (jList out)
  | "c07.closest" => some do
      -- table: [[name, size, angle], ...] in the order of the metadata file
      let tab ← (← getArr a "table").toList.mapM (fun row => do
        match (← row.getArr?).toList with
        | [n, k, ang] => pure ((← n.getStr?), (← k.getNat?), (← exactF ang))
        | _ => throw "BadArg:table")
      let req ← getExactF a "req"
      match closestSet tab req with
      | some (n, k, _) => pure (jList [jStr n, jNat k])
      | none => throw "ValueError"
  | "c07.closestShipped" => some do
      -- exact arithmetic in 1/100 degree on the built-in table
      let req ← getInt a "req"
      match closestSet shipped req with
      | some (n, k, ang) => pure (jList [jStr n, jNat k, jInt ang])
      | none => throw "ValueError"
  | "c07.euler" => some do
      let seq ← getStr a "seq"
      let angles ← getFloats a "angles"
      let cs := seq.toList
      if cs.length ≠ angles.length ∨ cs.isEmpty then throw "BadArg:seq"
      let upper := cs.all Char.isUpper
      let lower := cs.all Char.isLower
      if ¬ (upper ∨ lower) then throw "BadArg:mixed"
      let axes ← cs.mapM axisOf
      pure (jFloats (eulerToMatF upper (axes.zip angles)).toList)
  | "c07.eulerFrom" => some do
      pure (jFloats (eulerFromMatF (← m3Of (← getFloats a "m"))))
  | "c07.eulerFrom2" => some do
      -- 2×2 input: embedded as the upper-left block of the identity, then as for 3×3
      match (← getFloats a "m") with
      | [p, q, r, t] => pure (jFloats (eulerFromMatF (embed2 ⟨p, q, r, t⟩)))
      | _ => throw "BadArg:m2"
  | "c07.numRandom" => some do
      pure (jNat (numRandom (← getExactF a "angle") (← getNat a "dim")))
  | "c07.fixRotations" => some do
      let dim ← getNat a "dim"
      let ms ← (← getArr a "mats").toList.mapM (fun m => do (← m.getArr?).toList.mapM floats)
      let oracle : Option (List Bool) := ((getArr a "negdet").toOption).bind
        (fun l => (l.toList.mapM (fun (b : Json) => b.getBool?)).toOption)
      let neg := match oracle with
        | some l => l
        | none => ms.map (fun m => detL dim m < 0.0)
      match fixRotations dim ms neg with
      | some out => pure (Json.mkObj [("mats", jList (out.map (fun m => jList (m.map jFloats)))),
                                      ("negdet", jList (neg.map jBool))])
      | none => throw "IndexError"
  | "c07.coneCounts" => some do
      let ca ← getExactF a "coneAngle"; let cs ← getExactF a "coneSampling"
      pure (Json.mkObj [("rings", jFloats (coneRingCounts ca cs)), ("n", jNat (coneNumPoints ca cs)),
        ("phiSteps", jNat (conePhiSteps (← getExactF a "axisAngle") (← getExactF a "axisSampling") (← getNat a "nSym")))])
  | "c07.cone" => some do
      let ca ← getExactF a "coneAngle"; let cs ← getExactF a "coneSampling"
      let aa ← getExactF a "axisAngle"; let asamp ← getExactF a "axisSampling"; let ns ← getNat a "nSym"
      if ns = 0 then throw "ZeroDivisionError"
      let ms := coneMatrices ca cs aa asamp ns
      pure (Json.mkObj [("n", jNat (coneNumPoints ca cs)), ("phiSteps", jNat (conePhiSteps aa asamp ns)),
        ("mats", jList (ms.map (fun m => jFloats m.toList)))])
  | "c07.eulerRoundTrip" => some do
      -- to(from(R)) in the algebraic reading, `cos b = sqrt(R00² + R01²)`
      let R ← m3Of (← getFloats a "m")
      pure (jFloats (eulerZYXRoundTrip R (Float.sqrt (R.a00 * R.a00 + R.a01 * R.a01))).toList)
  | "c07.eulerConv" => some do
      match eulerToMatConvF (← getStr a "convention") (← getFloats a "angles") with
      | some m => pure (jFloats m.toList)
      | none => throw "ValueError"
  | "c07.coneVec" => some do
      let ca ← getExactF a "coneAngle"; let cs ← getExactF a "coneSampling"
      let aa ← getExactF a "axisAngle"; let asamp ← getExactF a "axisSampling"; let ns ← getNat a "nSym"
      if ns = 0 then throw "ZeroDivisionError"
      match (← getFloats a "vector") with
      | [w0, w1, w2] =>
        let ms := coneMatricesVec ca cs aa asamp ns (w0, w1, w2)
        pure (Json.mkObj [("n", jNat (coneNumPoints ca cs)), ("phiSteps", jNat (conePhiSteps aa asamp ns)),
          ("mats", jList (ms.map (fun m => jFloats m.toList)))])
      | _ => throw "BadArg:vector"
  | "c07.align" => some do
      match (← getFloats a "u"), (← getFloats a "v") with
      | [u0, u1, u2], [v0, v1, v2] => pure (jFloats (alignRotF (u0, u1, u2) (v0, v1, v2)).toList)
      | _, _ => throw "IndexError"
  | _ => none
end Drv.C07
