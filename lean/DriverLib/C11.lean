import DriverLib.Util
import PytmeModel.Model.C11
open Lean Drv Pm Pm.C11
namespace Drv.C11

def jS (s : Str) : Json := Json.str (String.ofList s)
def jSs (l : List Str) : Json := Json.arr (l.map jS).toArray
def jSss (l : List (List Str)) : Json := Json.arr (l.map jSs).toArray

def strOf (v : Json) : Except String Str := do pure (← v.getStr?).toList
def getS (a : Json) (k : String) : Except String Str := do pure (← getStr a k).toList
def strList (v : Json) : Except String (List Str) := do (← v.getArr?).toList.mapM strOf
def getSs (a : Json) (k : String) : Except String (List Str) := do strList (← a.getObjVal? k)
def getSss (a : Json) (k : String) : Except String (List (List Str)) := do
  (← getArr a k).toList.mapM strList

def optS (a : Json) (k : String) : Except String (Option Str) :=
  match a.getObjVal? k with
  | .ok (.str s) => pure (some s.toList)
  | .ok .null => pure none
  | .error _ => pure none
  | _ => throw "BadArg:optstr"

def liftE {α : Type} (x : Except Err α) : Except String α :=
  match x with | .ok v => pure v | .error e => throw e.name

def getBools (a : Json) (k : String) : Except String (List Bool) := do
  (← getArr a k).toList.mapM (·.getBool?)

def jTable (t : Table) : Json :=
  Json.mkObj [("trans", jSss t.trans), ("transCols", jNat t.transCols), ("rot", jSss t.rot),
    ("rotCols", jNat t.rotCols), ("score", jSs t.score), ("detail", jSs t.detail)]

def rowOf (v : Json) : Except String Row := do
  pure ⟨← getSs v "trans", ← getSs v "rot", ← getS v "score", ← getS v "detail"⟩

def nameArg (a : Json) : Except String NameArg :=
  match a.getObjVal? "name" with
  | .ok (.str s) => pure (.single s.toList)
  | .ok (.arr l) => do pure (.many (← l.toList.mapM strOf))
  | .ok .null => pure .none
  | .error _ => pure .none
  | _ => throw "BadArg:name"

def delimOf (a : Json) : Except String (Option Char) := do
  match ← optS a "delimiter" with
  | none => pure none
  | some [c] => pure (some c)
  | some _ => throw "BadArg:delimiter"

def jWin (w : Int × Int × Int × Int) : Json := jInts [w.1, w.2.1, w.2.2.1, w.2.2.2]

def handle (op : String) (a : Json) : Option R :=
  match op with
  | "c11.textHeader" => some do pure (jSs (textHeader (← getNat a "d") (← getNat a "r")))
  | "c11.writeText" => some do
      let rows ← (← getArr a "rows").toList.mapM rowOf
      pure (jS (writeText (← getNat a "d") (← getNat a "r") rows))
  | "c11.readText" => some do pure (jTable (← liftE (readText (← getS a "text"))))
  | "c11.readTextOld" => some do pure (jTable (← liftE (readTextOld (← getS a "text"))))
  | "c11.layout" => some do
      pure (Json.mkObj [("optics", jSs opticsHeader),
        ("particles", jSs (particleHeader (.single []) (some []))),
        ("particlesImage", jSs (particleHeader (.many []) none)),
        ("particlesNoName", jSs (particleHeader .none none)),
        ("tbl", jSs (tblTokens (tok "IDX") [tok "A0", tok "A1", tok "A2"] [tok "TZ", tok "TY", tok "TX"]
                     (tok "SC") (tok "SR")))])
  | "c11.sortOrder" => some do pure (jNats (sortOrder (← getSs a "names")))
  | "c11.writeTbl" => some do
      let rows ← (← getArr a "rows").toList.mapM (fun v => do
        pure (⟨← getS v "index", ← getSs v "ang", ← getSs v "trans", ← getS v "score"⟩ : TblRow))
      pure (jS (writeTblOpts (← optS a "name_prefix") (← getS a "sampling") (← optS a "size") rows))
  | "c11.readTbl" => some do
      let out ← liftE (readTbl (← getS a "text"))
      pure (jList (out.map (fun o => Json.mkObj [("trans", jSs o.trans), ("ang", jSs o.ang), ("score", jS o.score)])))
  | "c11.writeStar" => some do
      let rows ← (← getArr a "rows").toList.mapM (fun v => do
        pure (⟨← getSs v "trans", ← getSs v "ang"⟩ : StarRow))
      pure (jS (← liftE (writeStar (← getS a "size") (← getS a "sampling") (← nameArg a) (← optS a "ctf") rows)))
  | "c11.parseStar" => some do
      let cats ← liftE (parseStar (← delimOf a) (← getS a "text"))
      pure (jList (cats.map (fun c => jList [jS c.1, jList (c.2.map (fun e => jList [jS e.1, jSs e.2]))])))
  | "c11.readStar" => some do
      let d ← liftE (particles (← delimOf a) (← getS a "text"))
      let t ← liftE d.transCols
      let ang : Json := match d.angCols with
        | .ok c => jSss c
        | .error e => Json.str ("err:" ++ e.name)
      pure (Json.mkObj [("trans", jSss t), ("ang", ang)])
  | "c11.takeIdx" => some do
      let n ← getNat a "n"
      pure (jNats (← liftE (takeIdx (List.range n) (← getIntList a "idx"))))
  | "c11.takeMask" => some do
      let n ← getNat a "n"
      pure (jNats (← liftE (takeMask (List.range n) (← getBools a "mask"))))
  | "c11.extraction" => some do
      let T ← getNatList a "target"; let e ← getNatList a "box"
      let peaks ← getIntListList a "peaks"
      if T.length ≠ e.length ∨ peaks.any (fun p => p.length ≠ T.length) then throw "BadArg:rank"
      let out := extraction T e peaks (← getBool a "drop")
      pure (jList (out.map (fun (i, w) => Json.mkObj [("i", jNat i), ("w", jList (w.map jWin))])))
  | "c11.peaks" => some do
      let rows ← (← getArr a "t").toList.mapM (fun row => do
        (← row.getArr?).toList.mapM (fun x => do
          match ← intList (← x.getArr?) with
          | [m, e] => pure (m, e)
          | _ => throw "BadArg:float"))
      pure (jIntss (truncPeaks rows))
  | "c11.keepRows" => some do
      let T ← getNatList a "target"; let e ← getNatList a "box"
      let peaks ← getIntListList a "peaks"
      if T.length ≠ e.length ∨ peaks.any (fun p => p.length ≠ T.length) then throw "BadArg:rank"
      let drop ← getBool a "drop"
      let r := List.range peaks.length
      let o ← liftE (extractionSubset (⟨r, r, r, r⟩ : Orient Nat Nat Nat Nat) T e peaks drop)
      pure (Json.mkObj [("mask", jList ((keepMask T e peaks drop).map jBool)),
        ("rows", jNatss [o.translations, o.rotations, o.scores, o.details])])
  | "c11.copy" => some do
      let r := List.range (← getNat a "n")
      let o ← liftE (Orient.copy (⟨r, r, r, r⟩ : Orient Nat Nat Nat Nat))
      pure (jNatss [o.translations, o.rotations, o.scores, o.details])
  | "c11.iter" => some do
      let r := List.range (← getNat a "n")
      pure (jList ((Orient.iterRows (⟨r, r, r, r⟩ : Orient Nat Nat Nat Nat)).map
        (fun x => jNats [x.1, x.2.1, x.2.2.1, x.2.2.2])))
  | "c11.postInit" => some do
      let _ ← liftE (postInit (← getNatList a "t") (← getNatList a "r") (← getNatList a "s") (← getNatList a "d"))
      pure (Json.str "ok")
  | "c11.dispatch" => some do
      let fname ← getS a "fname"
      let fmt ← optS a "fmt"
      let side ← getStr a "side"
      let r := if side == "write" then writeFmt fname fmt else if side == "readOld" then readFmtOld fname fmt else readFmt fname fmt
      pure (Json.str (← liftE r).name)
  | _ => none
end Drv.C11
