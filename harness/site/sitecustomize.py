"""Loaded by every python process started with /verif/harness/site on PYTHONPATH
(including loky / multiprocessing workers).

* serves `tme.extensions` from the shared object built from /repo's current
  bindings.cpp (path in PYTME_VERIF_EXT);
* when PYTME_VERIF=1 and PYTME_VERIF_FAULTS is set, installs the fault-injection
  patches used by the C16 check (see pv/faults.py).  Nothing is patched in /repo.
"""
import importlib.abc
import importlib.util
import os
import sys
import warnings

warnings.filterwarnings("ignore", message=".*smallest subnormal.*")

_EXT = os.environ.get("PYTME_VERIF_EXT")


class _ExtFinder(importlib.abc.MetaPathFinder):
    def find_spec(self, fullname, path=None, target=None):
        if fullname == "tme.extensions" and _EXT and os.path.exists(_EXT):
            return importlib.util.spec_from_file_location(fullname, _EXT)
        return None


if _EXT:
    sys.meta_path.insert(0, _ExtFinder())

if os.environ.get("PYTME_VERIF") == "1" and os.environ.get("PYTME_VERIF_FAULTS"):
    try:
        import pv.faults as _f

        _f.install()
    except Exception as _e:  # pragma: no cover
        sys.stderr.write(f"[pytme-verif] fault hook install failed: {_e!r}\n")
