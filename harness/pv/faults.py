"""Fault injection and observation for the C16 check (no hook lives in /repo).

`install()` is called by harness/site/sitecustomize.py in EVERY python process started with
PYTME_VERIF=1 and PYTME_VERIF_FAULTS=<directory> (that includes loky / joblib workers and
forked manager servers), and explicitly by harness/pv/props/c16.py in the check process.

The directory holds
  plan.json      {"faults": [pos...], "delays": [pos + seconds...], "rotkeys": {hex: g},
                  "nrot": R, "exc": "PvFault"|"ValueError"|..., "base": bool}
                 pos = {"phase": str, "tile": int|None, "idx": int|None}   (None = any)
  events.log     one JSON line per instrumented program point that was reached
  segments.log   "<name> <tile> <managed 0|1>" for every shared-memory segment created (any process)
  tile_<pid>     tile index the `scan` running in process <pid> works on

Program points (phase, tile, idx):
  subset       (t, 0)   MatchingData.subset_by_slice, call number t since `begin()`   [parent]
  toBackend    (t, 0)   MatchingData.to_backend, i.e. entry of scan's body (inside the manager)
  setupPre     (t, 0)   before the matching_setup function
  setupPost    (t, 0)   after it (its segments exist)
  analyzerInit (t, k)   construction of the k-th analyzer instance inside scan
  scoreEntry   (t, g0)  entry of the scoring function; g0 = global index of its first rotation,
                        R (= number of rotations) for an empty chunk
  rotate       (t, g)   backend.rigid_transform inside the scoring loop, rotation g
  callback     (t, g)   analyzer __call__ for rotation g
  postprocess  (t, j)   analyzer._postprocess, j-th call inside this scan
  merge        (t, 0)   analyzer merge inside scan
  outerMerge   (0, 0)   analyzer merge in scan_subsets                              [parent]
A fault raises at the point; nothing of pyTME is changed otherwise.
"""
import functools
import json
import os
import threading
import time

ENV = "PYTME_VERIF_FAULTS"
_installed = False
_state = threading.local()
_pending = threading.local()      # callback fault point handed from PeakCaller.__call__ down to call_peaks
_proc = {"tile": None, "in_scan": 0, "subset_n": 0, "post_n": 0, "init_n": 0}


class PvFault(RuntimeError):
    """Injected failure (an ordinary Exception subclass, picklable across processes)."""


class PvSilentFault(RuntimeError):
    """Injected failure whose message is empty (like `MemoryError()`, a bare `assert`, `raise NotImplementedError`);
    the position still travels in `args` so the harness can tell where it came from."""

    def __str__(self):
        return ""


class PvBaseFault(BaseException):
    """Injected non-Exception failure (outside the modelled behaviour)."""


_EXC = {"PvFault": PvFault, "ValueError": ValueError, "MemoryError": MemoryError, "KeyError": KeyError,
        "RuntimeError": RuntimeError, "OSError": OSError, "PvBaseFault": PvBaseFault, "PvSilentFault": PvSilentFault,
        # the kinds of error a worker's own code produces by accident (and that broad `except` clauses like to absorb)
        "AttributeError": AttributeError, "TypeError": TypeError, "IndexError": IndexError, "ZeroDivisionError": ZeroDivisionError,
        "NotImplementedError": NotImplementedError, "StopIteration": StopIteration, "AssertionError": AssertionError}


def _dir():
    return os.environ.get(ENV)


def _append(name, line):
    d = _dir()
    if not d:
        return
    try:
        fd = os.open(os.path.join(d, name), os.O_WRONLY | os.O_APPEND | os.O_CREAT, 0o644)
        try:
            os.write(fd, (line + "\n").encode())
        finally:
            os.close(fd)
    except OSError:
        pass


_plan_cache = {"key": None, "plan": None}


def _plan():
    d = _dir()
    if not d:
        return None
    p = os.path.join(d, "plan.json")
    try:
        st = os.stat(p)
    except OSError:
        return None
    key = (st.st_mtime_ns, st.st_size, st.st_ino)
    if _plan_cache["key"] != key:
        try:
            with open(p) as f:
                _plan_cache["plan"] = json.load(f)
            _plan_cache["key"] = key
        except (OSError, ValueError):
            return None
    return _plan_cache["plan"]


def _match(spec, phase, tile, idx):
    if spec.get("phase") != phase:
        return False
    if spec.get("tile") is not None and spec["tile"] != tile:
        return False
    if spec.get("idx") is not None and spec["idx"] != idx:
        return False
    return True


def point(phase, tile, idx):
    """An instrumented program point: log it, sleep if the plan says so, raise if the plan says so."""
    plan = _plan()
    if plan is None or not plan.get("active", True):
        return
    tile = 0 if tile is None else int(tile)
    idx = int(idx)
    for dl in plan.get("delays", ()):
        if _match(dl, phase, tile, idx):
            time.sleep(float(dl.get("seconds", 0.1)))
    fire = any(_match(f, phase, tile, idx) for f in plan.get("faults", ()))
    _append("events.log", json.dumps({"phase": phase, "tile": tile, "idx": idx, "pid": os.getpid(),
                                      "fired": bool(fire), "t": time.time()}))
    if fire:
        exc = _EXC.get(plan.get("exc", "PvFault"), PvFault)
        raise exc(f"pvfault:{phase}:{tile}:{idx}")


def _cur_tile():
    """Tile of the scan this code runs for: same process (sequential / threads) or, in an inner
    loky worker, the scan running in the parent process."""
    if _proc["in_scan"] > 0 and _proc["tile"] is not None:
        return _proc["tile"]
    d = _dir()
    for pid in (os.getpid(), os.getppid()):
        try:
            with open(os.path.join(d, f"tile_{pid}")) as f:
                return int(f.read().strip())
        except (OSError, ValueError):
            continue
    return 0


def _rot_index(rotation_matrix):
    import numpy as np
    plan = _plan() or {}
    key = np.ascontiguousarray(np.asarray(rotation_matrix), dtype=np.float32).tobytes().hex()
    return plan.get("rotkeys", {}).get(key, -1)


# ------------------------------------------------------------------ harness side helpers
def begin(plan):
    """(check process) start a new observed call: write the plan, clear the logs, reset counters."""
    d = _dir()
    for n in ("events.log", "segments.log"):
        try:
            os.remove(os.path.join(d, n))
        except OSError:
            pass
    for n in os.listdir(d):
        if n.startswith("tile_"):
            try:
                os.remove(os.path.join(d, n))
            except OSError:
                pass
    tmp = os.path.join(d, f"plan.json.tmp{os.getpid()}")
    with open(tmp, "w") as f:
        json.dump(plan, f)
    os.replace(tmp, os.path.join(d, "plan.json"))
    _plan_cache["key"] = None
    _proc.update(tile=None, in_scan=0, subset_n=0, post_n=0, init_n=0)


def events():
    d = _dir()
    try:
        with open(os.path.join(d, "events.log")) as f:
            return [json.loads(x) for x in f if x.strip()]
    except OSError:
        return []


def segments():
    d = _dir()
    try:
        with open(os.path.join(d, "segments.log")) as f:
            return [x.strip() for x in f if x.strip()]
    except OSError:
        return []


# ------------------------------------------------------------------ patches
def _patch_shared_memory():
    from multiprocessing import shared_memory as sm
    from multiprocessing import managers as mg
    orig = sm.SharedMemory.__init__
    if getattr(orig, "_pv", False):
        return

    @functools.wraps(orig)
    def __init__(self, name=None, create=False, size=0, *a, **k):
        orig(self, name, create, size, *a, **k)
        if create:
            tile = _proc["tile"] if (_proc["in_scan"] > 0 and _proc["tile"] is not None) else -1
            managed = 1 if getattr(_state, "managed", 0) > 0 else 0
            _append("segments.log", f"{self.name.lstrip('/')} {tile} {managed}")
    __init__._pv = True
    sm.SharedMemory.__init__ = __init__

    o_sm = mg.SharedMemoryManager.SharedMemory

    @functools.wraps(o_sm)
    def SharedMemory(self, size):
        _state.managed = getattr(_state, "managed", 0) + 1
        try:
            return o_sm(self, size)
        finally:
            _state.managed -= 1
    mg.SharedMemoryManager.SharedMemory = SharedMemory


def _wrap_setup(fn):
    if getattr(fn, "_pv", False):
        return fn

    @functools.wraps(fn)
    def setup(*a, **k):
        # lcc_setup / cam_setup delegate to cc_setup / corr_setup: one program point per scan
        if getattr(_state, "in_setup", 0) > 0:
            return fn(*a, **k)
        t = _cur_tile()
        point("setupPre", t, 0)
        _state.in_setup = 1
        try:
            r = fn(*a, **k)
        finally:
            _state.in_setup = 0
        point("setupPost", t, 0)
        return r
    setup._pv = True
    return setup


def _wrap_scoring(fn):
    if getattr(fn, "_pv", False):
        return fn

    @functools.wraps(fn)
    def scoring(*a, **k):
        rot = k.get("rotations")
        plan = _plan() or {}
        g0 = plan.get("nrot", 0)
        if rot is not None and len(rot):
            g0 = _rot_index(rot[0])
        point("scoreEntry", _cur_tile(), g0)
        return fn(*a, **k)
    scoring._pv = True
    return scoring


def install():
    global _installed
    if _installed or not _dir():
        return
    _installed = True
    _patch_shared_memory()

    import tme.matching_scores as ms
    import tme.matching_exhaustive as me
    import tme.matching_data as md
    import tme.analyzer as an
    from tme.backends.npfftw_backend import NumpyFFTWBackend

    # setup / scoring functions: module attributes and both registries (pickled by reference)
    repl = {}
    for name, (s, f) in list(ms.MATCHING_EXHAUSTIVE_REGISTER.items()):
        for fn, wrap in ((s, _wrap_setup), (f, _wrap_scoring)):
            if fn not in repl:
                repl[fn] = wrap(fn)
        ms.MATCHING_EXHAUSTIVE_REGISTER[name] = (repl[s], repl[f])
    for mod in (ms, me):
        for k, v in list(vars(mod).items()):
            try:
                if v in repl:
                    setattr(mod, k, repl[v])
            except TypeError:
                pass

    # scan: remember which tile this process works on (outside the decorator: never raises here)
    orig_scan = me.scan
    if not getattr(orig_scan, "_pv", False):
        @functools.wraps(orig_scan)
        def scan(*a, **k):
            mdat = k.get("matching_data", a[0] if a else None)
            tile = getattr(mdat, "_pv_tile", 0)
            prev = (_proc["tile"], _proc["post_n"], _proc["init_n"])
            _proc["tile"], _proc["post_n"], _proc["init_n"] = tile, 0, 0
            _proc["in_scan"] += 1
            d = _dir()
            fn = os.path.join(d, f"tile_{os.getpid()}")
            try:
                with open(fn, "w") as f:
                    f.write(str(tile))
            except OSError:
                pass
            try:
                return orig_scan(*a, **k)
            finally:
                _proc["in_scan"] -= 1
                _proc["tile"], _proc["post_n"], _proc["init_n"] = prev
        scan._pv = True
        me.scan = scan

    # MatchingData
    o_subset = md.MatchingData.subset_by_slice
    if not getattr(o_subset, "_pv", False):
        @functools.wraps(o_subset)
        def subset_by_slice(self, *a, **k):
            t = _proc["subset_n"]
            _proc["subset_n"] += 1
            point("subset", t, 0)
            ret = o_subset(self, *a, **k)
            ret._pv_tile = t
            return ret
        subset_by_slice._pv = True
        md.MatchingData.subset_by_slice = subset_by_slice

    o_tb = md.MatchingData.to_backend
    if not getattr(o_tb, "_pv", False):
        @functools.wraps(o_tb)
        def to_backend(self, *a, **k):
            if _proc["in_scan"] > 0:
                point("toBackend", _cur_tile(), 0)
            return o_tb(self, *a, **k)
        to_backend._pv = True
        md.MatchingData.to_backend = to_backend

    # scoring loop body
    o_rt = NumpyFFTWBackend.rigid_transform
    if not getattr(o_rt, "_pv", False):
        @functools.wraps(o_rt)
        def rigid_transform(self, *a, **k):
            plan = _plan()
            if plan is not None and plan.get("active", True) and "rotation_matrix" in k:
                g = _rot_index(k["rotation_matrix"])
                if g >= 0:
                    point("rotate", _cur_tile(), g)
            return o_rt(self, *a, **k)
        rigid_transform._pv = True
        NumpyFFTWBackend.rigid_transform = rigid_transform

    # analyzers
    # peak callers: the fault of the callback phase is raised from inside `call_peaks` (the part of the callback a user
    # subclass writes), i.e. below whatever `PeakCaller.__call__` wraps around it; once per rotation, at the first batch
    def wrap_call(o):
        @functools.wraps(o)
        def __call__(self, scores, rotation_matrix, *a, **k):
            g = _rot_index(rotation_matrix)
            if g >= 0 and hasattr(type(self), "call_peaks"):
                _pending.p = ("callback", _cur_tile(), g)
                try:
                    r = o(self, scores, rotation_matrix, *a, **k)
                except BaseException:
                    _pending.p = None
                    raise
                p, _pending.p = getattr(_pending, "p", None), None
                if p is not None:          # call_peaks was not reached (no batch): the point is still passed
                    point(*p)
                return r
            if g >= 0:
                point("callback", _cur_tile(), g)
            return o(self, scores, rotation_matrix, *a, **k)
        __call__._pv = True
        return __call__

    def wrap_peaks(o):
        @functools.wraps(o)
        def call_peaks(self, *a, **k):
            p = getattr(_pending, "p", None)
            if p is not None:
                _pending.p = None
                point(*p)
            return o(self, *a, **k)
        call_peaks._pv = True
        return call_peaks

    def wrap_post(o):
        @functools.wraps(o)
        def _postprocess(self, *a, **k):
            j = _proc["post_n"]
            _proc["post_n"] += 1
            point("postprocess", _cur_tile(), j)
            return o(self, *a, **k)
        _postprocess._pv = True
        return _postprocess

    def wrap_init(o):
        @functools.wraps(o)
        def __init__(self, *a, **k):
            # only the instances scan creates (it passes `shape` and `fast_shape`); merge builds its own
            if _proc["in_scan"] > 0 and "shape" in k and "fast_shape" in k:
                j = _proc["init_n"]
                _proc["init_n"] += 1
                point("analyzerInit", _cur_tile(), j)
            return o(self, *a, **k)
        __init__._pv = True
        return __init__

    def wrap_merge(o):
        f = o.__func__

        @functools.wraps(f)
        def merge(cls, *a, **k):
            if _proc["in_scan"] > 0:
                point("merge", _cur_tile(), 0)
            else:
                point("outerMerge", 0, 0)
            return f(cls, *a, **k)
        merge._pv = True
        return classmethod(merge)

    for cname in dir(an):
        cls = getattr(an, cname)
        if not isinstance(cls, type) or cls.__module__ != an.__name__:
            continue
        d = vars(cls)
        if "__call__" in d and not getattr(d["__call__"], "_pv", False):
            setattr(cls, "__call__", wrap_call(d["__call__"]))
        if "call_peaks" in d and not getattr(d["call_peaks"], "_pv", False) \
                and not getattr(d["call_peaks"], "__isabstractmethod__", False):
            setattr(cls, "call_peaks", wrap_peaks(d["call_peaks"]))
        if "_postprocess" in d and not getattr(d["_postprocess"], "_pv", False):
            setattr(cls, "_postprocess", wrap_post(d["_postprocess"]))
        if "__init__" in d and cname in ("PeakCaller", "MaxScoreOverRotations", "MemmapHandler") \
                and not getattr(d["__init__"], "_pv", False):
            setattr(cls, "__init__", wrap_init(d["__init__"]))
        if "merge" in d and isinstance(d["merge"], classmethod) and not getattr(d["merge"].__func__, "_pv", False):
            setattr(cls, "merge", wrap_merge(d["merge"]))
