"""Line-protocol client for the compiled Lean driver (lean/Driver.lean)."""
import json
import subprocess

from . import env


def dec_float(x):
    """decode a float payload of the driver: number, [mantissa, exponent] (exact), or 'nan'/'inf'/'-inf'"""
    import math
    if isinstance(x, list):
        return math.ldexp(x[0], x[1])
    return float(x)


class DriverError(Exception):
    pass


class Driver:
    def __init__(self):
        self.p = subprocess.Popen([env.driver_path()], stdin=subprocess.PIPE, stdout=subprocess.PIPE,
                                  text=True, bufsize=1)
        self.calls = 0

    def call(self, op, **args):
        """Returns the model's value, or the string 'err:<Enum>' when the model rejects the input."""
        return self.batch([(op, args)])[0]

    def batch(self, reqs):
        """reqs: list of (op, args).  Pipelined in chunks so large batches stay fast."""
        out = []
        CH = 256
        for s in range(0, len(reqs), CH):
            chunk = reqs[s:s + CH]
            data = "".join(json.dumps({"op": op, "args": args}) + "\n" for op, args in chunk)
            self.p.stdin.write(data)
            self.p.stdin.flush()
            for _ in chunk:
                line = self.p.stdout.readline()
                if not line:
                    raise DriverError("driver died")
                r = json.loads(line)
                self.calls += 1
                if "ok" in r:
                    out.append(r["ok"])
                else:
                    e = r["err"]
                    if e.startswith("UnknownOp") or e.startswith("property not found") or "expected" in e:
                        raise DriverError(f"{e}")
                    out.append("err:" + e.split(":")[0])
        return out

    def close(self):
        try:
            self.p.stdin.close()
            self.p.wait(timeout=5)
        except Exception:
            self.p.kill()
