"""Line-protocol client for the compiled Lean driver (lean/Driver.lean)."""
import json
import subprocess

from . import env


def dec_float(x):
    """decode a float payload of the driver: number, [mantissa, exponent] (exact), or 'nan'/'inf'/'-inf'"""
    import math
    if isinstance(x, list):
        return math.ldexp(x[0], x[1])
    return float(x)


class DriverError(Exception):
    pass


class Driver:
    def __init__(self):
        self.p = subprocess.Popen([env.driver_path()], stdin=subprocess.PIPE, stdout=subprocess.PIPE,
                                  text=True, bufsize=1)
        self.calls = 0

    def call(self, op, **args):
        """Returns the model's value, or the string 'err:<Enum>' when the model rejects the input."""
        return self.batch([(op, args)])[0]

    def batch(self, reqs):
        """reqs: list of (op, args).  Pipelined in chunks so large batches stay fast."""
        out = []
        lines = [json.dumps({"op": op, "args": args}) + "\n" for op, args in reqs]
        i = 0
        while i < len(lines):
            # a chunk never exceeds ~32 KB unless it is a single request: the pipe (64 KB) then never fills while
            # the driver is blocked writing replies, so harness and driver cannot wait on each other
            j, size = i, 0
            while j < len(lines) and (j == i or (size + len(lines[j]) <= 32768 and j - i < 256)):
                size += len(lines[j])
                j += 1
            self.p.stdin.write("".join(lines[i:j]))
            self.p.stdin.flush()
            for _ in range(i, j):
                line = self.p.stdout.readline()
                if not line:
                    raise DriverError("driver died")
                r = json.loads(line)
                self.calls += 1
                if "ok" in r:
                    out.append(r["ok"])
                else:
                    e = r["err"]
                    if e.startswith("UnknownOp") or e.startswith("property not found") or "expected" in e:
                        raise DriverError(f"{e}")
                    out.append("err:" + e.split(":")[0])
            i = j
        return out

    def close(self):
        try:
            self.p.stdin.close()
            self.p.wait(timeout=5)
        except Exception:
            self.p.kill()
