"""Shared helpers for the score properties (C01, C02, C03, C18): running the real search in-process,
grid rotations, and independent textbook (numpy, float64) definitions of the scores."""
import contextlib
import io
import itertools

import numpy as np

SCORES = ["CC", "LCC", "CORR", "CAM", "FLCSphericalMask", "FLC", "MCC"]


def grid_rotations(ndim):
    """All proper signed-permutation rotations as (perm, flip, R) with the convention of the model:
    pull-back index x'_i = s_i * x_{perm[i]} about the centre, i.e. R^-1[i, perm[i]] = s_i."""
    out = []
    for perm in itertools.permutations(range(ndim)):
        for flip in itertools.product([False, True], repeat=ndim):
            rinv = np.zeros((ndim, ndim))
            for i in range(ndim):
                rinv[i, perm[i]] = -1.0 if flip[i] else 1.0
            if round(np.linalg.det(rinv)) != 1:
                continue
            out.append((list(perm), list(flip), rinv.T.copy()))
    return out


def rot_ok_for_shape(perm, shape):
    return all(shape[perm[i]] == shape[i] for i in range(len(shape)))


def rotate_grid(arr, perm, flip):
    """(rot g)[x] = g[pull(x)], pull(x)_i = x_{perm[i]} or (m_i - 1) - x_{perm[i]}"""
    nd = arr.ndim
    idx = np.indices(arr.shape)
    src = []
    for i in range(nd):
        v = idx[perm[i]]
        src.append((arr.shape[i] - 1 - v) if flip[i] else v)
    return arr[tuple(src)]


def set_precision(double):
    from tme.backends import backend as be
    if double:
        be.change_backend("numpyfftw", float_dtype=np.float64, complex_dtype=np.complex128, overflow_safe_dtype=np.float64)
    else:
        be.change_backend("numpyfftw")


def run_scan(score, target, template, mask=None, target_mask=None, rotations=None, pad=True, order=3,
             callback_class=None, callback_args=None, n_jobs=1, dtype=np.float32):
    """Real `scan` of /repo in this process; returns (result tuple, (conv, fast, ft, shift))."""
    from tme.matching_data import MatchingData
    from tme.matching_exhaustive import scan, MATCHING_EXHAUSTIVE_REGISTER
    from tme.analyzer import MaxScoreOverRotations
    if callback_class is None:
        callback_class = MaxScoreOverRotations
    if callback_args is None:
        callback_args = {"score_threshold": -1e30}
    with contextlib.redirect_stdout(io.StringIO()):
        md = MatchingData(target=np.array(target, dtype=dtype), template=np.array(template, dtype=dtype),
                          template_mask=None if mask is None else np.array(mask, dtype=dtype),
                          target_mask=None if target_mask is None else np.array(target_mask, dtype=dtype),
                          rotations=None if rotations is None else np.array(rotations, dtype=np.float32))
        setup, scoring = MATCHING_EXHAUSTIVE_REGISTER[score]
        fp = md.fourier_padding(pad_fourier=pad)
        res = scan(md, setup, scoring, n_jobs=n_jobs, callback_class=callback_class, callback_class_args=dict(callback_args),
                   pad_fourier=pad, interpolation_order=order)
    fp = tuple(tuple(int(x) for x in p) for p in fp)
    return res, fp


def windows(target, m):
    """zero-extended windows: W[t] = f_ext[t - m//2 : t - m//2 + m] for every target voxel t"""
    m = tuple(m)
    padded = np.pad(np.asarray(target, dtype=np.float64), [(mm, mm) for mm in m])
    from numpy.lib.stride_tricks import sliding_window_view
    sw = sliding_window_view(padded, m)
    sl = tuple(slice(mm - mm // 2, mm - mm // 2 + n) for mm, n in zip(m, target.shape))
    return sw[sl]


def inside_mask(n, m):
    """translations whose window lies inside the target: m//2 <= t <= n-1-(m-1)//2"""
    grids = np.indices(n)
    ok = np.ones(n, bool)
    for ax, (nn, mm) in enumerate(zip(n, m)):
        ok &= (grids[ax] >= mm // 2) & (grids[ax] <= nn - 1 - (mm - 1) // 2)
    return ok


def pearson_textbook(target, gR, wR):
    """Masked Pearson correlation of every window with the (rotated) template under a *binary* mask:
    the textbook normalised cross-correlation.  Returns (score, stable) with stable=False where the
    window (or template) variance under the mask vanishes."""
    W = windows(target, gR.shape)
    ax = tuple(range(target.ndim, 2 * target.ndim))
    w = wR.astype(np.float64)
    n = w.sum()
    g = gR.astype(np.float64)
    gbar = (g * w).sum() / n
    gvar = (((g - gbar) ** 2) * w).sum()
    fbar = (W * w).sum(axis=ax) / n
    fc = W - fbar.reshape(fbar.shape + (1,) * target.ndim)
    fvar = ((fc ** 2) * w).sum(axis=ax)
    num = (fc * (g - gbar) * w).sum(axis=ax)
    den = np.sqrt(fvar * gvar)
    stable = (fvar > 1e-9) & (gvar > 1e-9)
    with np.errstate(all="ignore"):
        sc = np.where(stable, num / np.where(den > 0, den, 1), 0.0)
    return sc, stable


def window_var(target, w):
    """exact (float64 on small integers) masked window variance numerator n*Σf²w - (Σfw)²; 0 <=> constant under w"""
    W = windows(target, w.shape)
    ax = tuple(range(target.ndim, 2 * target.ndim))
    w = w.astype(np.float64)
    s1 = (W * w).sum(axis=ax)
    s2 = (W * W * w).sum(axis=ax)
    return w.sum() * s2 - s1 ** 2


class Recorder:
    """callback_class that keeps a copy of every per-rotation score array handed to it (in-process runs only)"""
    shared = False
    log = []

    def __init__(self, *args, **kwargs):
        pass

    def __call__(self, scores, rotation_matrix, **kwargs):
        Recorder.log.append((np.array(rotation_matrix, dtype=np.float64).copy(), np.array(scores, dtype=np.float64).copy()))

    def _postprocess(self, **kwargs):
        return self

    def __iter__(self):
        yield from (None,)

    @classmethod
    def merge(cls, *args, **kwargs):
        return None


def run_subsets(score, target, template, mask=None, target_mask=None, rotations=None, pad=True, order=3,
                splits=None, schedule=(1, 1), pad_edges=False, callback_class=None, callback_args=None, dtype=np.float32):
    """Real `scan_subsets` of /repo (worker processes when schedule != (1, 1))."""
    import warnings
    from tme.matching_data import MatchingData
    from tme.matching_exhaustive import scan_subsets, MATCHING_EXHAUSTIVE_REGISTER
    from tme.analyzer import MaxScoreOverRotations
    if callback_class is None:
        callback_class = MaxScoreOverRotations
    if callback_args is None:
        callback_args = {"score_threshold": -1e30}
    with contextlib.redirect_stdout(io.StringIO()), warnings.catch_warnings():
        warnings.simplefilter("ignore")
        md = MatchingData(target=np.array(target, dtype=dtype), template=np.array(template, dtype=dtype),
                          template_mask=None if mask is None else np.array(mask, dtype=dtype),
                          target_mask=None if target_mask is None else np.array(target_mask, dtype=dtype),
                          rotations=None if rotations is None else np.array(rotations, dtype=np.float32))
        setup, scoring = MATCHING_EXHAUSTIVE_REGISTER[score]
        res = scan_subsets(md, scoring, setup, callback_class=callback_class, callback_class_args=dict(callback_args),
                           job_schedule=tuple(schedule), target_splits=dict(splits or {}), pad_target_edges=pad_edges,
                           pad_fourier=pad, interpolation_order=order)
    return res
