"""Translator for C02: extracts the per-rotation loop bodies of corr_scoring / flc_scoring / mcc_scoring from
/repo/tme/matching_scores.py (AST) into the buffer language of lean/PytmeModel/Model/C02.lean and writes
lean/PytmeModel/Extracted/C02.lean.  Anything it does not recognise raises ExtractError (the proof obligation
`scoring_loops_history_free` is then not established for the current source)."""
import ast
import os

from . import env

ELEMENTWISE_OUT = {"multiply", "subtract", "divide", "maximum", "minimum", "add", "sqrt", "square", "clip", "abs"}


class ExtractError(Exception):
    pass


def _names(node, bufs):
    return sorted({n.id for n in ast.walk(node) if isinstance(n, ast.Name) and n.id in bufs}, key=lambda x: bufs.index(x) if isinstance(bufs, list) else x)


def _callname(call):
    f = call.func
    if isinstance(f, ast.Attribute) and isinstance(f.value, ast.Name) and f.value.id == "be":
        return "be." + f.attr
    if isinstance(f, ast.Name):
        return f.id
    return None


def _kw(call, name):
    for k in call.keywords:
        if k.arg == name:
            return k.value
    return None


def translate_function(fn):
    """returns (inputs, scratch, ops) with ops over buffer *names*"""
    inputs, scratch = [], []
    loop = None
    for st in fn.body:
        if isinstance(st, ast.For):
            loop = st
            break
        if isinstance(st, ast.Assign) and len(st.targets) == 1 and isinstance(st.targets[0], ast.Name) and isinstance(st.value, ast.Call):
            cn = _callname(st.value)
            if cn == "be.from_sharedarr":
                inputs.append(st.targets[0].id)
            elif cn == "be.zeros":
                scratch.append(st.targets[0].id)
        if isinstance(st, ast.If):   # `if template_mask is not None: template_mask = be.from_sharedarr(template_mask)`
            for s2 in ast.walk(st):
                if isinstance(s2, ast.Assign) and isinstance(s2.value, ast.Call) and _callname(s2.value) == "be.from_sharedarr":
                    inputs.append(s2.targets[0].id)
    if loop is None:
        raise ExtractError(f"{fn.name}: no rotation loop")
    it = ast.unparse(loop.iter)
    if "rotations.shape[0]" not in it:
        raise ExtractError(f"{fn.name}: unexpected loop header {it}")
    inputs = list(dict.fromkeys(inputs))
    bufs = inputs + scratch
    ops = []

    def nm(node):
        return _names(node, bufs)

    def target_name(node):
        if isinstance(node, ast.Name) and node.id in bufs:
            return node.id
        return None

    for st in loop.body:
        src = ast.unparse(st)
        # --- plain scalar / rotation bookkeeping
        if isinstance(st, ast.Assign) and len(st.targets) == 1 and isinstance(st.targets[0], ast.Name) \
                and st.targets[0].id not in bufs:
            tgt = st.targets[0].id
            if isinstance(st.value, ast.Subscript) and not nm(st.value):
                continue                                   # rotation = rotations[index]
            reads = nm(st.value)
            calls = [c for c in ast.walk(st.value) if isinstance(c, ast.Call)]
            if all((_callname(c) or "").startswith("be.") and (_callname(c)[3:] in ("sum", "max", "abs")) for c in calls) and reads:
                ops.append(("read", None, reads))          # n_obs = be.sum(temp); tol = … be.max(be.abs(temp2)) …
                continue
            raise ExtractError(f"{fn.name}: unrecognised scalar statement `{src}`")
        # --- masked assignment  X[cond] = value
        if isinstance(st, ast.Assign) and len(st.targets) == 1 and isinstance(st.targets[0], ast.Subscript):
            t = target_name(st.targets[0].value)
            if t is None:
                raise ExtractError(f"{fn.name}: subscript store into non-buffer `{src}`")
            ops.append(("partialW", t, [x for x in nm(st.targets[0].slice) + nm(st.value)]))
            continue
        call = st.value if isinstance(st, (ast.Assign, ast.Expr)) and isinstance(st.value, ast.Call) else None
        if call is None:
            raise ExtractError(f"{fn.name}: unrecognised statement `{src}`")
        cn = _callname(call)
        targets = []
        if isinstance(st, ast.Assign):
            t0 = st.targets[0]
            targets = [e.id for e in (t0.elts if isinstance(t0, ast.Tuple) else [t0]) if isinstance(e, ast.Name)]
        if cn == "be.fill":
            t = target_name(call.args[0])
            if t is None or (targets and targets != [t]) or ast.unparse(call.args[1]) != "0":
                raise ExtractError(f"{fn.name}: unexpected fill `{src}`")
            ops.append(("fill", t, []))
        elif cn == "be.rigid_transform":
            out, outm = _kw(call, "out"), _kw(call, "out_mask")
            a, am = _kw(call, "arr"), _kw(call, "arr_mask")
            if out is None or target_name(out) is None or a is None:
                raise ExtractError(f"{fn.name}: rigid_transform without out= `{src}`")
            ops.append(("partialW", target_name(out), nm(a)))       # only out[:template.shape] is written
            if am is not None:
                if outm is None or target_name(outm) is None:
                    raise ExtractError(f"{fn.name}: rigid_transform mask without out_mask= `{src}`")
                ops.append(("partialW", target_name(outm), nm(am)))
            if targets and set(targets) - {target_name(out), target_name(outm) if outm is not None else None, "_"}:
                raise ExtractError(f"{fn.name}: rigid_transform result bound to other names `{src}`")
        elif cn in ("rfftn", "irfftn"):
            t = target_name(call.args[1])
            if t is None or (targets and targets != [t]):
                raise ExtractError(f"{fn.name}: FFT into unexpected buffer `{src}`")
            ops.append(("fullW", t, nm(call.args[0])))
        elif cn == "template_filter_func":
            t = target_name(call.args[0])
            if t is None or (targets and targets != [t]):
                raise ExtractError(f"{fn.name}: template filter `{src}`")
            ops.append(("fullW", t, [t] + [x for x in nm(call.args[2]) if x != t]))   # identity, or FFT-filter in place
        elif cn == "norm_template":
            sub = call.args[0]
            base = sub.value if isinstance(sub, ast.Subscript) else sub
            t = target_name(base)
            if t is None:
                raise ExtractError(f"{fn.name}: norm_template `{src}`")
            ops.append(("partialW", t, nm(call.args[1])))            # in place on the template box of `arr`
        elif cn == "normalize_template":
            t = target_name(call.args[0])
            if t is None or (targets and targets != [t]):
                raise ExtractError(f"{fn.name}: normalize_template `{src}`")
            ops.append(("fullW", t, [t] + [x for x in nm(call.args[1]) if x != t]))
        elif cn in ("norm_numerator", "norm_denominator"):
            out = _kw(call, "out")
            t = target_name(out) if out is not None else None
            if t is None or (targets and targets != [t]):
                raise ExtractError(f"{fn.name}: {cn} `{src}`")
            ops.append(("fullW", t, nm(ast.Tuple(elts=call.args, ctx=ast.Load()))))
        elif cn == "be.norm_scores":
            arr, exp_sq, sq_exp, out = call.args[0], call.args[1], call.args[2], call.args[5]
            t = target_name(out)
            if t is None or (targets and targets != [t]):
                raise ExtractError(f"{fn.name}: norm_scores `{src}`")
            ops.append(("fullW", target_name(sq_exp), nm(sq_exp)))
            ops.append(("fullW", target_name(exp_sq), nm(exp_sq)))
            ops.append(("fullW", target_name(sq_exp), nm(sq_exp) + nm(exp_sq)))
            ops.append(("fullW", t, nm(arr) + nm(sq_exp)))
        elif cn and cn.startswith("be.") and cn[3:] in ELEMENTWISE_OUT:
            out = _kw(call, "out")
            if out is None and cn == "be.sqrt" and len(call.args) == 2:
                out = call.args[1]
                reads = nm(call.args[0])
            else:
                reads = nm(ast.Tuple(elts=call.args, ctx=ast.Load()))
            t = target_name(out) if out is not None else None
            if t is None or (targets and targets != [t]):
                raise ExtractError(f"{fn.name}: ufunc without out=<buffer> `{src}`")
            ops.append(("fullW", t, reads))
        elif cn == "callback_func":
            t = target_name(call.args[0])
            if t is None:
                raise ExtractError(f"{fn.name}: callback `{src}`")
            ops.append(("out", t, []))
        else:
            raise ExtractError(f"{fn.name}: unrecognised call `{src}`")
    return inputs, scratch, ops


def extract():
    src = open(os.path.join(env.REPO, "tme", "matching_scores.py")).read()
    tree = ast.parse(src)
    fns = {n.name: n for n in tree.body if isinstance(n, ast.FunctionDef)}
    out = {}
    for name in ("corr_scoring", "flc_scoring", "mcc_scoring"):
        if name not in fns:
            raise ExtractError(f"{name} not found")
        out[name] = translate_function(fns[name])
    return out


def to_lean(ex):
    short = {"corr_scoring": "corr", "flc_scoring": "flc", "mcc_scoring": "mcc"}
    lines = ["import PytmeModel.Model.C02",
             "/-! GENERATED by harness/pv/c02_extract.py from /repo/tme/matching_scores.py on every run — do not edit. -/",
             "namespace Pm.C02", ""]
    for name, (inputs, scratch, ops) in ex.items():
        bufs = inputs + scratch
        idx = {b: i for i, b in enumerate(bufs)}
        lines.append(f"/-- `{name}`: buffers " + ", ".join(f"{i}={b}" for b, i in idx.items()) + " -/")
        lines.append(f"def {short[name]}Inputs : List Nat := [{', '.join(str(idx[b]) for b in inputs)}]")
        body = []
        for kind, b, reads in ops:
            rs = "[" + ", ".join(str(idx[r]) for r in reads) + "]"
            if kind == "fill":
                body.append(f".fill {idx[b]}")
            elif kind == "partialW":
                body.append(f".partialW {idx[b]} {rs}")
            elif kind == "fullW":
                body.append(f".fullW {idx[b]} {rs}")
            elif kind == "read":
                body.append(f".read {rs}")
            elif kind == "out":
                body.append(f".out {idx[b]}")
        lines.append(f"def {short[name]}Loop : Prog := [\n  " + ",\n  ".join(body) + "]")
        lines.append("")
    lines.append("end Pm.C02")
    return "\n".join(lines) + "\n"


def write_lean():
    ex = extract()
    text = to_lean(ex)
    path = os.path.join(env.LEAN_DIR, "PytmeModel", "Extracted", "C02.lean")
    os.makedirs(os.path.dirname(path), exist_ok=True)
    if not (os.path.exists(path) and open(path).read() == text):
        with open(path, "w") as f:
            f.write(text)
    return ex
