"""Entry point:  ./check <ID> [--tier quick|thorough] [--replay file]

Decision procedure (DESIGN.md §3):
  1 build + axiom audit           -> proof obligations
  2 extracted tables == model     -> proof obligations (ctx.obligation)
  3 corpus + correspondence       -> ctx.agree(impl, model)
  4 spec evaluated on the impl    -> ctx.spec(...)
A failed spec clause is a violation with a replay (unless listed in known_findings.json);
a broken obligation / correspondence without a failing input is still a violation,
reported with `no-failing-input-found`.
"""
import argparse
import importlib
import json
import os
import re
import sys
import time
import traceback

from . import env


def _jsonable(x):
    import numpy as np
    if isinstance(x, dict):
        return {str(k): _jsonable(v) for k, v in x.items()}
    if isinstance(x, (list, tuple)):
        return [_jsonable(v) for v in x]
    if isinstance(x, np.ndarray):
        return _jsonable(x.tolist())
    if isinstance(x, (np.integer,)):
        return int(x)
    if isinstance(x, (np.floating,)):
        return float(x)
    if isinstance(x, (np.bool_,)):
        return bool(x)
    if isinstance(x, bytes):
        return x.hex()
    if isinstance(x, float) and (x != x or x in (float("inf"), float("-inf"))):
        return repr(x)
    if isinstance(x, (str, int, float, bool)) or x is None:
        return x
    return repr(x)


class Ctx:
    def __init__(self, pid, tier, seed):
        self.pid, self.tier, self.seed = pid, tier, seed
        self.driver = None
        self.evaluations = 0
        self.traces = 0
        self.nontrivial = set()
        self.samples = []
        self.hist = {}
        self.disagreements = []   # correspondence failures
        self.spec_failures = []   # property clause failed on the implementation
        self.broken_obligations = []
        self.notes = []
        self.rule = ""
        self.extra = {}
        self.t0 = time.time()
        self.deadline = None

    # ---- randomness / budgets
    def rng(self, stream):
        import numpy as np
        import zlib
        return np.random.default_rng([self.seed, zlib.crc32(self.pid.encode()), zlib.crc32(str(stream).encode())])

    def budget(self, quick, thorough):
        return thorough if self.tier == "thorough" else quick

    @property
    def thorough(self):
        return self.tier == "thorough"

    # ---- bookkeeping
    def count(self, key, n=1):
        self.hist[key] = self.hist.get(key, 0) + n

    def sample(self, x, limit=6):
        if len(self.samples) < limit:
            self.samples.append(_jsonable(x))

    def distinct(self, sig):
        self.nontrivial.add(json.dumps(_jsonable(sig), sort_keys=True) if not isinstance(sig, str) else sig)

    def note(self, s):
        self.notes.append(s)

    # ---- the three kinds of findings
    def agree(self, obligation, inp, impl, model, eq=None):
        """Correspondence: implementation output == implementation-model output."""
        self.traces += 1
        a, b = _jsonable(impl), _jsonable(model)
        same = eq(a, b) if eq else (a == b)
        if not same:
            self.count("disagree:" + obligation)
            if len(self.disagreements) < 200:
                self.disagreements.append({"obligation": obligation, "input": _jsonable(inp), "impl": a, "model": b})
        return same

    def spec(self, clause, inp, ok, detail=None, key=None, size=None):
        """Property clause (Lean spec / its statement) evaluated on the implementation's output."""
        self.evaluations += 1
        if not ok:
            self.count("specfail:" + clause)
            if len(self.spec_failures) < 500:
                self.spec_failures.append({"clause": clause, "input": _jsonable(inp), "detail": _jsonable(detail),
                                           "key": key or clause, "size": size if size is not None else len(json.dumps(_jsonable(inp)))})
        return ok

    def obligation(self, name, ok, detail=None):
        """A proof obligation tied to the source (extracted table, generated Lean file...)."""
        self.count("obligation:" + name)
        if not ok:
            self.broken_obligations.append({"obligation": name, "detail": _jsonable(detail)})
        return ok


TRUSTED = [
    "Lean 4.33 kernel (leanchecker re-check in the thorough tier)",
    "axioms: propext, Classical.choice, Quot.sound only (audited by #print axioms on every run)",
    "Lean compiler/runtime for the driver executable",
    "the Python correspondence harness (generators, canonicalisation, tolerances)",
    "hand-written implementation model mirrors /repo: checked by correspondence on generated inputs, not proved",
    "numpy / scipy / pyFFTW / mrcfile / h5py / joblib / OS: modelled by contracts, exercised only through the harness",
]


def regen_registries():
    """Driver.lean handler list and PytmeModel.lean root are generated from the files present,
    so independent property files never conflict."""
    ld = env.LEAN_DIR
    mods = []
    for sub in ("Model", "Extracted", "Proofs", "Props"):
        d = os.path.join(ld, "PytmeModel", sub)
        if os.path.isdir(d):
            for f in sorted(os.listdir(d)):
                if f.endswith(".lean"):
                    mods.append(f"PytmeModel.{sub}.{f[:-5]}")
    root = "".join(f"import {m}\n" for m in mods)
    _write_if_changed(os.path.join(ld, "PytmeModel.lean"), root)
    hs = sorted(f[:-5] for f in os.listdir(os.path.join(ld, "DriverLib")) if f.endswith(".lean") and f != "Util.lean")
    drv = open(os.path.join(ld, "Driver.lean")).read()
    imports = "".join(f"import DriverLib.{h}\n" for h in hs)
    lst = ",\n".join(f"  Drv.{h}.handle" for h in hs)
    new = re.sub(r"(?s)-- BEGIN-GENERATED-IMPORTS\n.*?-- END-GENERATED-IMPORTS\n",
                 "-- BEGIN-GENERATED-IMPORTS\n" + imports + "-- END-GENERATED-IMPORTS\n", drv)
    new = re.sub(r"(?s)-- BEGIN-GENERATED-HANDLERS\n.*?-- END-GENERATED-HANDLERS\n",
                 "-- BEGIN-GENERATED-HANDLERS\n" + lst + "\n-- END-GENERATED-HANDLERS\n", new)
    _write_if_changed(os.path.join(ld, "Driver.lean"), new)


def _write_if_changed(path, content):
    if os.path.exists(path) and open(path).read() == content:
        return
    with open(path, "w") as f:
        f.write(content)


def write_replay(pid, rec):
    d = os.path.join(env.VERIF, "replays")
    os.makedirs(d, exist_ok=True)
    n = 0
    while os.path.exists(os.path.join(d, f"{pid}_{n}.json")):
        n += 1
    path = os.path.join(d, f"{pid}_{n}.json")
    json.dump(rec, open(path, "w"), indent=1)
    return os.path.relpath(path, env.VERIF)


def main(argv=None):
    ap = argparse.ArgumentParser()
    ap.add_argument("pid")
    ap.add_argument("--tier", default=os.environ.get("VERIF_TIER", "quick"), choices=["quick", "thorough"])
    ap.add_argument("--replay")
    ap.add_argument("--no-build", action="store_true")
    a = ap.parse_args(argv)
    pid = a.pid.upper()
    seed = int(os.environ.get("VERIF_SEED", "0"))
    t0 = time.time()
    os.environ["PYTME_VERIF"] = "1"
    import signal

    def _timeout(*_):
        print(f"TIMEOUT property={pid} (infrastructure limit reached; not a verdict)")
        os._exit(2)
    signal.signal(signal.SIGALRM, _timeout)
    signal.alarm(int(os.environ.get("VERIF_TIMEOUT", "5400" if a.tier == "thorough" else "1500")))
    try:
        env.reexec_if_needed()
    except env.BuildError as e:
        # the extension no longer builds: the repo does not compile -> not a property verdict
        print(f"BUILD-ERROR {e.what}\n{e.log[-3000:]}")
        return 2
    # every temporary file of the run (pyTME's own memory-map files included, also in worker processes) goes into the
    # scratch directory, which is removed at exit
    import tempfile
    os.environ["TMPDIR"] = env.scratch()
    tempfile.tempdir = env.scratch()
    ctx = Ctx(pid, a.tier, seed)
    mod = importlib.import_module(f"pv.props.{pid.lower()}")

    # 1. extraction (may (re)write lean/PytmeModel/Extracted/<ID>.lean) + build + audit
    build_log = ""
    proof_ok = True
    try:
        if hasattr(mod, "extract"):
            mod.extract(ctx)
    except Exception:
        ctx.obligation("extract", False, traceback.format_exc()[-2000:])
    if not a.no_build:
        regen_registries()
        ok, build_log = env.lean_build()
        if not ok:
            proof_ok = False
            ok2, log2 = env.lean_build(("driver",))
            if not ok2:
                print("BUILD-ERROR lean driver\n" + log2[-3000:])
                return 2
            bad = sorted(set(re.findall(r"error: (PytmeModel/\S+?\.lean)", build_log)))
            ctx.obligation("lake build", False, {"files": bad, "log": build_log[-2500:]})
    from . import audit as A
    au = A.audit(pid) if proof_ok else {"obligations": len(A.theorems_of(pid)[1]), "discharged": 0,
                                         "theorems": A.theorems_of(pid)[1], "problems": ["lake build failed"], "axioms": {},
                                         "checker_cmd": "cd lean && lake build"}
    for pr in au["problems"]:
        ctx.obligation("audit", False, pr)
    if a.tier == "thorough" and proof_ok and not os.environ.get("PYTME_VERIF_NO_LEANCHECKER"):
        import subprocess
        mods = [f"PytmeModel.Props.{pid}"]
        p = subprocess.run(["lake", "env", "leanchecker", *mods], cwd=env.LEAN_DIR, capture_output=True, text=True)
        ctx.obligation("leanchecker", p.returncode == 0, (p.stdout + p.stderr)[-1500:])
        ctx.extra["leanchecker"] = "ok" if p.returncode == 0 else "failed"

    # 2-4. correspondence + spec
    from .driver import Driver
    ctx.driver = Driver()
    crashed = None
    import contextlib
    import io
    chatter = io.StringIO()   # pyTME prints progress notes; keep the check's stdout for verdict lines
    cov = None
    if os.environ.get("PV_COVERAGE"):
        # diagnostic only (tools/branch_report.py): which lines / branches of /repo's code this check executes in this process
        import coverage
        cov = coverage.Coverage(branch=True, data_file=None, include=[os.path.join(env.REPO, "tme", "*"), os.path.join(env.REPO, "scripts", "*")])
        cov.start()
    try:
      with contextlib.redirect_stdout(chatter):
        if a.replay:
            rec = json.load(open(a.replay))
            if hasattr(mod, "replay"):
                mod.replay(ctx, rec)
            else:
                mod.run(ctx)
        else:
            mod.run(ctx)
    except Exception:
        crashed = traceback.format_exc()
    if cov is not None:
        cov.stop()
        try:
            os.makedirs(os.path.join(env.VERIF, ".build"), exist_ok=True)
            with contextlib.redirect_stdout(io.StringIO()):
                cov.json_report(outfile=os.path.join(env.VERIF, ".build", f"coverage_{pid}.json"))
        except Exception as e:  # noqa
            ctx.note("coverage report failed: " + str(e))
    # search when something is broken but no failing input yet
    known = __import__("pv.findings", fromlist=["x"]).known_for(pid)
    unknown = [f for f in ctx.spec_failures if f["key"] not in known]
    if (ctx.disagreements or ctx.broken_obligations or crashed) and not unknown and hasattr(mod, "search") and not a.replay:
        try:
            with contextlib.redirect_stdout(chatter):
                mod.search(ctx)
        except Exception:
            ctx.note("search crashed: " + traceback.format_exc()[-800:])
        unknown = [f for f in ctx.spec_failures if f["key"] not in known]
    ctx.driver.close()

    # verdict
    lines = []
    rc = 0
    seen_known = {}
    for f in ctx.spec_failures:
        if f["key"] in known:
            seen_known.setdefault(f["key"], f)
    for k, f in seen_known.items():
        lines.append(f"KNOWN-FINDING: property={pid} {known[k]['what']} [key={k}]")
    nviol = 0
    if unknown:
        by_key = {}
        for f in unknown:
            if f["key"] not in by_key or f["size"] < by_key[f["key"]]["size"]:
                by_key[f["key"]] = f
        for k, f in sorted(by_key.items()):
            path = write_replay(pid, {"property": pid, "kind": "spec-violation", **f,
                                     "correspondence": ctx.disagreements[:3], "obligations": ctx.broken_obligations[:3]})
            lines.append(f"VIOLATION property={pid} replay={path}")
            nviol += 1
        rc = 1
    elif ctx.disagreements or ctx.broken_obligations or crashed:
        rec = {"property": pid, "kind": "unproved",
               "broken_obligations": ctx.broken_obligations[:10],
               "correspondence_disagreements": sorted(ctx.disagreements, key=lambda d: len(json.dumps(d)))[:5],
               "crash": crashed,
               "explanation": "the theorem / correspondence obligation named here no longer checks; the search over the "
                              "model and the implementation found no input on which the property itself fails"}
        path = write_replay(pid, rec)
        lines.append(f"VIOLATION property={pid} replay={path} no-failing-input-found")
        nviol += 1
        rc = 1

    wall = time.time() - t0
    ev = {
        "property_id": pid, "tier": a.tier, "seed": seed, "level": "proof",
        "coverage": {
            "obligations": max(1, au["obligations"]) if au["obligations"] else 0,
            "discharged": au["discharged"] if not [b for b in ctx.broken_obligations if b["obligation"] in ("lake build", "audit")] else min(au["discharged"], max(0, au["obligations"] - 1)),
            "checker_cmd": au["checker_cmd"],
            "trusted_base": TRUSTED + getattr(mod, "TRUSTED", []),
            "theorems": au["theorems"],
            "axioms_used": sorted({x for v in au["axioms"].values() for x in v}),
            "evaluations": ctx.evaluations,
            "traces_validated_against_impl": ctx.traces,
            "distinct_nontrivial": len(ctx.nontrivial),
            "rule": ctx.rule or getattr(mod, "RULE", ""),
            "samples": ctx.samples[:8],
            "input_distribution": dict(sorted(ctx.hist.items())),
            "source_obligations_broken": len(ctx.broken_obligations),
            "correspondence_disagreements": len(ctx.disagreements),
            "notes": ctx.notes[:20],
            **ctx.extra,
        },
        "assumptions": getattr(mod, "ASSUMPTIONS", []),
        "wall_s": round(wall, 2),
        "violations": nviol,
    }
    if not a.replay:
        os.makedirs(os.path.join(env.VERIF, "evidence"), exist_ok=True)
        json.dump(ev, open(os.path.join(env.VERIF, "evidence", f"{pid}.json"), "w"), indent=1)
    for l in lines:
        print(l)
    if crashed:
        print(crashed[-3000:])
    print(f"[{pid}] tier={a.tier} seed={seed} theorems={au['discharged']}/{au['obligations']} "
          f"traces={ctx.traces} spec-evals={ctx.evaluations} distinct={len(ctx.nontrivial)} "
          f"disagreements={len(ctx.disagreements)} spec-failures={len(ctx.spec_failures)} wall={wall:.1f}s rc={rc}")
    return rc


if __name__ == "__main__":
    sys.exit(main())
