"""C05 — reported peaks are in bounds, separated, limited, and agree with the score map.

Leg B.  The real peak callers of the repo under PYTME_REPO (tme/analyzer.py, the C++
`find_candidate_indices`, `max_index_by_label`, `topk_indices`, `max_filter_coordinates`, `split_shape`, `_batchify`,
`filter_points_indices(batch_dims)`, `_filter_bucket`, `PeakClustering.merge`, callers built with `batch_dims`) are run on
generated score arrays / histories / merges / post-processing parameters and compared with the
Lean model (Model/C05.lean) through the driver; every clause of the property is evaluated on the
real outputs (ctx.spec), independently of the model; an end-to-end `scan(..., callback_class=…)`
is compared with the score map (MaxScoreOverRotations) of the same run.
"""
import contextlib
import io
import itertools
import json
import os
import warnings

import numpy as np

ID = "C05"
RULE = ("histories of 1-6 integer-valued score arrays (2-D/3-D, extents 1..12 incl. non-multiples of the "
        "distance, negative values, number_of_peaks at / next to the voxel count; a tie-free stream run against the "
        "deterministic model and a tie-rich stream run with the recorded answers of topk_indices/argsort) for each of the "
        "5 strategies x (number, distance, margin, score window); half of them presented differently without changing "
        "the case: float32/float64/int32/int64, C / Fortran / strided / reversed / offset views, read-only arrays, "
        "numpy.memmap, ONE score buffer and ONE rotation buffer reused and overwritten for every call, rotation given "
        "positionally / by keyword, constructor called with numpy scalars or with the keyword set scan() passes, "
        "extents that differ from one submission to the next; spec-only streams: quarter-valued floats, floats at "
        "absolute scales 1e-9..1e3 with offsets up to 5e4 (float64 differences below float32 resolution; thresholds tied "
        "with a score, between two scores, exactly 0), PeakCallerRecursiveMasking with an explicit mask / rotation "
        "look-up, more than 10 000 candidates, out-of-domain configurations; merges of real partial results (offsets as "
        "int32/int64, empty parts, nested, repeated, raw parts as lists / float64 / int64 scores, scan()'s keyword set); "
        "_postprocess on exhaustive per-axis positions (shapes as tuples / lists / int32 / int64 arrays, scan()'s "
        "keywords, callers that hold no peak); end-to-end scan/scan_subsets vs the score map of the same run and of every "
        "single rotation, serial and with rotations split over 2-3 jobs (more jobs than rotations), target splits 2/3 on "
        "one or two axes, schedules (2,1)/(1,2)/(3,1), score windows. "
        "Helpers the callers reach: PeakCaller._batchify on shapes with extents 0..5 and batch_dims None / () / ascending / "
        "descending / repeated / out-of-range (batch axes of extent 1); filter_points_indices with batch_dims (empty "
        "inputs, one row, negative coordinates, one batch only); _filter_bucket called directly on numpy arrays (duplicates, "
        "negative coordinates); the C++ max_index_by_label (int32/int64 labels, float32/float64/int32/int64 scores, ties, "
        "negatives, empty, the noise label -1); PeakClustering.merge on parts with >= 8 coincident rows and isolated rows "
        "(DBSCAN's labels recorded); tie-free histories and merges (with offsets) of callers built with 1-3 ascending "
        "batch_dims for Sort / MaximumFilter / Fast / RecursiveMasking (margin, score window, batch axes of extent 1). "
        "distinct = distinct (kind, strategy, cfg, shape, data-hash) tuples; histories whose final list is empty and "
        "arrays with a single voxel are not counted")
ASSUMPTIONS = [
    "min_distance = 0 switches the distance filter off by design (filter_points_indices returns every index; "
    "PeakClustering relies on it): the separation clause is evaluated for min_distance >= 1 only",
    "the numpy backend; histories with ties and PeakCallerScipy are run with batch_dims=None, histories / merges of "
    "callers built with batch_dims are run on tie-free scores with ascending in-range batch_dims (a descending tuple makes "
    "_batchify skip part of the array: Lean witness batchify_descending_batch_dims_current_defect; the helper itself is "
    "compared on every kind of tuple); with batch_dims the separation, count and margin clauses are per batch (margin on "
    "the non-batch axes), as the code intends; RecursiveMasking with its default box mask in the model runs (an explicit "
    "all-ones mask, identity rotation, rotation look-up in its documented form ids -> Euler angles, is run spec-only)",
    "_filter_bucket is reachable from filter_points_indices on the cupy / jax backends only; it is called directly on numpy "
    "arrays here; PeakClustering.merge is compared as it is today (it ranks a cluster by and reports candidate[2], the third "
    "coordinate, and raises IndexError on 2-D peaks): PeakClustering is not one of the property's five strategies",
    "PeakCallerScipy: skimage.feature.peak_local_max is an external oracle (its answer is fed to the model); the "
    "global-maximum clause is evaluated when a maximum lies farther than min_distance from every border and the "
    "array is not constant (peak_local_max uses the strict threshold image > image.min())",
    "score values in correspondence runs are small integers stored as float32/float64/int32/int64 (exact in both "
    "worlds); float streams compare reported scores with the submitted array exactly (same dtype, no arithmetic); score "
    "thresholds are representable in the dtype of the scores; the end-to-end run compares float scores at 1e-4 relative "
    "tolerance",
    "boundary margin and score window are applied per submitted array, in that array's frame (as the code does)",
]
TRUSTED = ["C05: numpy argpartition/argsort tie order and skimage peak_local_max enter the model as recorded oracles "
           "(contract isTopK checked on every recorded answer); scipy.ndimage.maximum_filter(mode='nearest') window "
           "semantics is pinned by correspondence on every run"]

STRATS = ("sort", "maxfilter", "fast", "recursive", "scipy")


def _batch(ctx, reqs, max_bytes=12000, max_n=32):
    """driver.batch writes a whole chunk before reading any reply; keep chunks well below the pipe buffer"""
    out, cur, size = [], [], 0
    for r in reqs:
        n = len(json.dumps(r[1])) + 40
        if cur and (size + n > max_bytes or len(cur) >= max_n):
            out += ctx.driver.batch(cur)
            cur, size = [], 0
        cur.append(r)
        size += n
    if cur:
        out += ctx.driver.batch(cur)
    return out


def _classes():
    from tme import analyzer as A
    return {"sort": A.PeakCallerSort, "maxfilter": A.PeakCallerMaximumFilter, "fast": A.PeakCallerFast,
            "recursive": A.PeakCallerRecursiveMasking, "scipy": A.PeakCallerScipy}


def _rotmat(d, rid):
    r = np.eye(d)
    r[0, 0] = rid
    return r


def _canon(t, flt=False):
    """tuple(peak_caller) / merge output -> [[pos], rot id, score] in reported order."""
    if t is None or len(t) == 0:
        return []
    pos, rots, scores, details = t
    pos = np.asarray(pos)
    out = []
    for i in range(pos.shape[0]):
        out.append([[int(x) for x in pos[i]], int(round(float(np.asarray(rots)[i][0, 0]))),
                    float(scores[i]) if flt else int(round(float(scores[i])))])
    return out


def _cfg_kwargs(cfg):
    return dict(number_of_peaks=cfg["n"], min_distance=cfg["md"], min_boundary_distance=cfg["mb"],
                minimum_score=cfg["lo"], maximum_score=cfg["hi"])


class _Rec:
    """records topk_indices / argsort answers of the real backend (tie order is the library's)."""

    def __init__(self, on=True):
        self.on = on
        self.topk, self.argsort = [], []

    def __enter__(self):
        if not self.on:
            return self
        from tme.backends import backend as be
        self.be = be

        def topk(arr, k):
            out = be._backend.topk_indices(arr, k)
            self.topk.append((np.array(arr).reshape(-1).copy(), int(k), [int(x) for x in np.asarray(out[0]).reshape(-1)] if np.asarray(arr).ndim == 1 else None))
            return out

        def argsort(a, *args, **kw):
            out = be._backend.argsort(a, *args, **kw)
            self.argsort.append((np.array(a).copy(), [int(x) for x in np.asarray(out).reshape(-1)]))
            return out
        be.__dict__["topk_indices"] = topk
        be.__dict__["argsort"] = argsort
        return self

    def __exit__(self, *a):
        if self.on:
            self.be.__dict__.pop("topk_indices", None)
            self.be.__dict__.pop("argsort", None)
        return False


def _plm(arr, cfg):
    """the external oracle of PeakCallerScipy, called the way the code calls it"""
    from skimage.feature import peak_local_max
    try:
        with warnings.catch_warnings():
            warnings.simplefilter("ignore")
            pk = peak_local_max(np.squeeze(arr), num_peaks=(cfg["n"] if cfg["lo"] is None else np.inf),
                                min_distance=cfg["md"], threshold_abs=cfg["lo"])
        return [[int(x) for x in row] for row in pk]
    except Exception:
        return []


# --------------------------------------------------------------------------- presentation of inputs

DTYPES = {"f4": np.float32, "f8": np.float64, "i4": np.int32, "i8": np.int64}
LAYOUTS = ("C", "F", "strided", "rev", "offset", "ro", "memmap")
_mm_count = [0]


def _present(values, shape, lay="C", dt="f4"):
    """the array handed to the API: same values, another memory layout / dtype (what a caller may legitimately pass:
    Fortran order, a strided / reversed / offset view of a larger buffer, a read-only array, a numpy.memmap)"""
    a = np.array(values, dtype=DTYPES[dt]).reshape(shape)
    nd = a.ndim
    if lay == "F":
        return np.asfortranarray(a)
    if lay == "strided":
        big = np.full(tuple(2 * x for x in a.shape), 9, dtype=a.dtype)
        v = big[(slice(None, None, 2),) * nd]
        v[...] = a
        return v
    if lay == "rev":
        return np.ascontiguousarray(a[(slice(None, None, -1),) * nd])[(slice(None, None, -1),) * nd]
    if lay == "offset":
        big = np.full(tuple(x + 3 for x in a.shape), 9, dtype=a.dtype)
        v = big[tuple(slice(1 + (i % 2), 1 + (i % 2) + x) for i, x in enumerate(a.shape))]
        v[...] = a
        return v
    if lay == "ro":
        a.flags.writeable = False
        return a
    if lay == "memmap":
        from pv import env
        _mm_count[0] += 1
        fn = os.path.join(env.scratch(), "c05_scores_%d_%d.mm" % (os.getpid(), _mm_count[0] % 4))
        m = np.memmap(fn, dtype=a.dtype, mode="w+", shape=a.shape)
        m[...] = a
        m.flush()
        del m
        return np.memmap(fn, dtype=a.dtype, mode="r", shape=a.shape)
    return a


def _sub_shape(case, sub):
    return tuple(sub.get("shape") or case["shape"])


def _sub_array(case, sub):
    """the submitted values as a plain C array of the submitted dtype (reference for the spec clauses)"""
    return np.array(sub["data"], dtype=DTYPES[sub.get("dt", "f4")]).reshape(_sub_shape(case, sub))


def _np_num(x, flt):
    if x is None:
        return None
    if flt or isinstance(x, float):
        return np.float32(x) if float(np.float32(x)) == float(x) else np.float64(x)
    return np.int64(x)


def _make_caller(case, shape):
    """the constructor call: plain keywords, numpy scalars, or the keyword set `scan` passes to a callback class"""
    cls = _classes()[case["strategy"]]
    cfg = case["cfg"]
    pres = case.get("pres") or {}
    kw = _cfg_kwargs(cfg)
    ctor = pres.get("ctor", "plain")
    if ctor == "npint":
        kw = dict(number_of_peaks=np.int64(cfg["n"]), min_distance=np.int64(cfg["md"]),
                  min_boundary_distance=np.int32(cfg["mb"]), minimum_score=_np_num(cfg["lo"], case.get("float")),
                  maximum_score=_np_num(cfg["hi"], case.get("float")))
    elif ctor == "scan":
        nd = len(shape)
        kw.update(shape=tuple(shape), offset=np.array([7 + i for i in range(nd)]), thread_safe=bool(pres.get("ts")),
                  fourier_shift=np.array([-(1 + i) for i in range(nd)]), convolution_mode="same",
                  targetshape=tuple(shape), templateshape=tuple(2 for _ in shape), convolution_shape=tuple(shape),
                  fast_shape=tuple(shape), indices=None, shared_memory_handler=None, only_unique_rotations=True)
    return cls(**kw)


# --------------------------------------------------------------------------- real runs

def _real_history(case, record):
    """runs the real caller; returns (states after each call | 'raised:..', oracles per call, recs)"""
    cfg = case["cfg"]
    pres = case.get("pres") or {}
    states, orcs, contracts = [], [], []
    try:
        pc = _make_caller(case, _sub_shape(case, case["subs"][0]) if case["subs"] else tuple(case["shape"]))
    except Exception as e:  # constructor rejects the configuration
        return ["raised:" + type(e).__name__], [], []
    reuse = bool(pres.get("reuse"))
    buf = rbuf = None
    if reuse:
        # what the matching loop does: ONE score buffer and ONE rotation buffer, overwritten for every rotation
        dt0 = DTYPES[case["subs"][0].get("dt", "f4")] if case["subs"] else np.float32
        buf = np.empty(max(int(np.prod(_sub_shape(case, sub))) for sub in case["subs"]) + 5, dtype=dt0)
    for sub in case["subs"]:
        shape = _sub_shape(case, sub)
        nd = len(shape)
        if reuse:
            arr = buf[2:2 + int(np.prod(shape))].reshape(shape)
            arr[...] = np.array(sub["data"], dtype=buf.dtype).reshape(shape)
            if rbuf is None:
                rbuf = np.eye(nd)
            rbuf[...] = _rotmat(nd, sub["rot"])
            rot = rbuf
        else:
            arr = _present(sub["data"], shape, sub.get("lay", "C"), sub.get("dt", "f4"))
            rot = _rotmat(nd, sub["rot"])
        orc = {}
        if case["strategy"] == "scipy":
            orc["plm"] = _plm(np.array(arr), cfg)
        kwargs = {}
        if pres.get("mask"):
            kwargs["mask"] = np.ones(tuple(pres["mask"][:nd]), dtype=np.float32)
            if pres.get("rotation_space"):
                # per-voxel rotation look-up in its documented form: ids -> Euler angles (3-D); 2-D: ids -> matrices
                kwargs["rotation_space"] = np.zeros(shape, dtype=np.int64)
                kwargs["rotation_mapping"] = {0: np.zeros(3) if nd == 3 else np.eye(nd)}
        with _Rec(record) as rec:
            try:
                with warnings.catch_warnings():
                    warnings.simplefilter("ignore")
                    if pres.get("kw"):
                        pc(arr, rotation_matrix=rot, **kwargs)
                    else:
                        pc(arr, rot, **kwargs)
            except Exception as e:
                states.append("raised:" + type(e).__name__)
                orcs.append(orc)
                break
        if reuse:
            buf[...] = 5          # the caller's buffers are overwritten before the result is read
            rbuf[...] = 3
        if record:
            tk = [t for t in rec.topk if t[2] is not None]
            if case["strategy"] == "sort" and tk:
                orc["callTopk"] = tk[0][2]
                tk_upd = tk[1:]
            else:
                tk_upd = tk
            if tk_upd:
                orc["updTopk"] = tk_upd[0][2]
            if case["strategy"] == "fast" and rec.argsort:
                orc["argsort"] = rec.argsort[0][1]
                contracts.append(("argsort", [-int(round(float(x))) for x in rec.argsort[0][0]], len(rec.argsort[0][1]), rec.argsort[0][1]))
            for s, k, o in tk:
                contracts.append(("topk", [int(round(float(x))) for x in s], k, o))
        states.append(_canon(tuple(pc), case.get("float", False)))
        orcs.append(orc)
    return states, orcs, contracts


def _model_history(ctx, case, orcs):
    subs = []
    for i, sub in enumerate(case["subs"]):
        s = {"shape": list(_sub_shape(case, sub)), "data": sub["data"], "rot": sub["rot"]}
        if i < len(orcs) and orcs[i]:
            s["orc"] = orcs[i]
        subs.append(s)
    return ctx.driver.call("c05.run", cfg=case["cfg"], strategy=case["strategy"], subs=subs)


# --------------------------------------------------------------------------- spec clauses

def _d2(p, q):
    return sum((a - b) ** 2 for a, b in zip(p, q))


def _spec_list(ctx, label, inp, peaks, cfg, n_limit=True, sep=True):
    """clauses that need no reference to the submitted arrays: count and separation"""
    st = inp.get("strategy", label)
    if n_limit:
        ctx.spec("at most number_of_peaks reported", inp, len(peaks) <= cfg["n"], {"reported": len(peaks)},
                 key=f"{st}:count")
    if sep and cfg["md"] >= 1:
        # the Lean predicate specSeparated (= conclusion of peaks_pairwise_far, theorem specSeparated_iff)
        ok = ctx.driver.call("c05.spec", md=cfg["md"], pos=[p[0] for p in peaks], shape=[])["separated"]
        bad = None
        if not ok:
            for i in range(len(peaks)):
                for j in range(i + 1, len(peaks)):
                    if bad is None and _d2(peaks[i][0], peaks[j][0]) <= cfg["md"] ** 2:
                        bad = (peaks[i][0], peaks[j][0])
        ctx.spec("no two reported peaks within min_distance", inp, ok, {"pair": bad, "peaks": peaks[:12]},
                 key=f"{st}:separated")
    elif sep:
        ctx.count("sep:skipped-md0")


def _spec_history(ctx, case, nsubs, peaks):
    """all clauses of the property on the list reported after the first `nsubs` calls.  Every submission is judged in
    its own frame (its own extents, dtype and rotation): a reported peak must be a voxel of SOME submitted array that
    carries its score and rotation, inside that array's margin."""
    cfg, st = case["cfg"], case["strategy"]
    inp = {"kind": "history", **case, "subs": case["subs"][:nsubs]}
    flt = case.get("float", False)
    val = (lambda x: float(x)) if flt else (lambda x: int(x))
    arrs = [(sub["rot"], _sub_array(case, sub)) for sub in case["subs"][:nsubs]]
    nd = len(case["shape"])

    def inside(p, a):
        return len(p[0]) == a.ndim and all(0 <= x < s for x, s in zip(p[0], a.shape))
    inb = all(len(p[0]) == nd and any(inside(p, a) for _, a in arrs) for p in peaks)
    ctx.spec("every reported peak lies inside the scored volume", inp, inb, peaks[:12], key=f"{st}:inbounds")
    if not inb:
        return
    src = [[(r, a) for r, a in arrs if inside(p, a) and r == p[1] and val(a[tuple(p[0])]) == p[2]] for p in peaks]
    ctx.spec("reported score and rotation are the submitted ones at that translation", inp, all(src), peaks[:12],
             key=f"{st}:score-rotation")
    lo, hi, mb = cfg["lo"], cfg["hi"], cfg["mb"]
    okw = all((lo is None or p[2] >= lo) and (hi is None or p[2] <= hi) for p in peaks)
    ctx.spec("reported scores lie in the configured score window", inp, okw, peaks[:12], key=f"{st}:window")
    if all(src):
        okm = all(any(all(mb <= x < s - mb for x, s in zip(p[0], a.shape)) for _, a in sr) for p, sr in zip(peaks, src))
        ctx.spec("reported peaks keep the boundary margin", inp, okm, peaks[:12], key=f"{st}:margin")
    _spec_list(ctx, st, inp, peaks, cfg)
    if lo is None and hi is None and mb == 0 and arrs:
        M = max(val(a.max()) for _, a in arrs)
        applicable = True
        if st == "scipy":
            md = cfg["md"]
            applicable = False
            for _, a in arrs:
                if a.max() == M and a.min() < M:
                    for idx in np.argwhere(a == M):
                        if all(s > 1 for s in a.shape) and all(md < x < s - 1 - md for x, s in zip(idx, a.shape)):
                            applicable = True
            if not applicable:
                ctx.count("globalmax:scipy-not-applicable")
        if applicable:
            ctx.spec("the highest-scoring translation is reported", inp, any(p[2] == M for p in peaks),
                     {"max": M, "peaks": peaks[:12]}, key=f"{st}:global-max")
            ctx.count("globalmax:evaluated")


# --------------------------------------------------------------------------- generators

def _gen_cfg(rng, strategy, small=False):
    n = int(rng.choice([1, 2, 3, 5, 8, 20, 1000]))
    md = int(rng.choice([0, 1, 1, 2, 2, 3, 3, 4, 5]))
    if strategy == "fast" and md == 0 and rng.random() < 0.7:
        md = 2
    mb = int(rng.choice([0, 0, 0, 0, 1, 2, 3]))
    lo = hi = None
    r = rng.random()
    if r < 0.15:
        lo = int(rng.integers(-8, 12))
    elif r < 0.25:
        hi = int(rng.integers(-4, 15))
    elif r < 0.33:
        lo = int(rng.integers(-8, 6))
        hi = lo + int(rng.integers(0, 12))
    if lo is not None and rng.random() < 0.15:
        n = 2 ** 63 - 1          # what scripts/postprocess.py passes together with --minimum_score (np.iinfo(int64).max)
    return {"n": n, "md": md, "mb": mb, "lo": lo, "hi": hi}


def _gen_shape(rng, strategy, small=False):
    nd = 2 if rng.random() < 0.6 else 3
    hi = (7 if nd == 2 else 5) if small else (13 if nd == 2 else 8)
    shape = [int(rng.integers(1, hi)) for _ in range(nd)]
    if rng.random() < 0.85:
        shape = [max(s, 2) for s in shape]
    if strategy == "scipy" and all(s == 1 for s in shape):
        shape[0] = 3
    return shape


def _gen_data(rng, shape, nsub, ties):
    size = int(np.prod(shape))
    out = []
    if not ties:
        # all values of the whole history distinct; sign mix: shift so that part / all / none are negative
        perm = rng.permutation(size * nsub)
        shift = int(rng.choice([0, size * nsub // 2, size * nsub + 3]))
        for i in range(nsub):
            out.append([int(x) - shift for x in perm[i * size:(i + 1) * size]])
        return out
    for i in range(nsub):
        mode = rng.integers(0, 5)
        if mode == 0:
            a = rng.integers(-3, 4, size=size)
        elif mode == 1:
            a = rng.integers(-9, -1, size=size)          # all negative
        elif mode == 2:
            a = np.full(size, int(rng.integers(-3, 4)))   # plateau with a few bumps
            for _ in range(int(rng.integers(0, 4))):
                a[int(rng.integers(0, size))] += int(rng.integers(-2, 6))
        elif mode == 3:
            a = rng.integers(0, 3, size=size)
        else:
            a = rng.integers(-20, 21, size=size)
        out.append([int(x) for x in a])
    return out


def _gen_case(rng, strategy, ties, small=False, model=True, mixed=False):
    cfg = _gen_cfg(rng, strategy, small)
    shape = _gen_shape(rng, strategy, small)
    nsub = int(rng.choice([1, 1, 2, 3, 4, 6])) if not small else int(rng.choice([1, 2, 3]))
    if strategy == "recursive" and cfg["lo"] is not None and int(np.prod(shape)) > 150:
        shape = [min(s, 5) for s in shape]
    if strategy == "recursive" and cfg["n"] == 1000 and model:
        # the masking loop runs number_of_peaks times on non-negative data (masked voxels read 0 >= min - 1); the Lean
        # model of that loop is quadratic - keep "more peaks asked for than voxels" but bounded (1000 stays in the
        # spec-only streams)
        cfg["n"] = int(rng.choice([40, 90]))
    if rng.random() < 0.12:
        # number_of_peaks exactly at / next to the number of voxels (top-k with k = size, k = size - 1)
        cfg["n"] = max(1, int(np.prod(shape)) + int(rng.integers(-1, 2)))
    rots = [int(rng.integers(1, 4)) if rng.random() < 0.2 else i + 1 for i in range(nsub)]
    if mixed and nsub > 1:
        # every submission has its own extents (same rank): margins, tiles, windows are per submitted array
        shapes = [shape] + [[max(1, min(12, s + int(rng.integers(-3, 4)))) for s in shape] for _ in range(nsub - 1)]
        if strategy == "scipy":
            shapes = [sh if any(x > 1 for x in sh) else [3] + sh[1:] for sh in shapes]
        order = rng.permutation(nsub)
        shapes = [shapes[int(i)] for i in order]
        big = _gen_data(rng, [max(int(np.prod(sh)) for sh in shapes)], nsub, ties)
        subs = [{"rot": r, "data": d[:int(np.prod(sh))], "shape": [int(x) for x in sh]} for r, d, sh in zip(rots, big, shapes)]
        return {"strategy": strategy, "cfg": cfg, "shape": [int(x) for x in shapes[0]], "ties": bool(ties), "subs": subs}
    data = _gen_data(rng, shape, nsub, ties)
    return {"strategy": strategy, "cfg": cfg, "shape": shape, "ties": bool(ties),
            "subs": [{"rot": r, "data": d} for r, d in zip(rots, data)]}


def _gen_float_case(rng, strategy):
    """quarter-valued float scores (exact in float32) and half-valued thresholds: spec clauses only"""
    case = _gen_case(rng, strategy, ties=True, model=False)
    for sub in case["subs"]:
        sub["data"] = [x / 4.0 for x in sub["data"]]
    cfg = case["cfg"]
    if cfg["lo"] is not None:
        cfg["lo"] = cfg["lo"] / 4.0 + 0.125
    if cfg["hi"] is not None:
        cfg["hi"] = cfg["hi"] / 4.0 + 0.125
    case["float"] = True
    return case


def _add_presentation(rng, case):
    """dimensions of the quantifier that do not change the mathematical case (so the model still applies): memory layout
    and dtype of every submitted array, positional / keyword rotation, one reused score + rotation buffer, the way the
    constructor is called"""
    pres = {}
    r = rng.random()
    if r < 0.25:
        pres["reuse"] = True
        dt = str(rng.choice(["f4", "f4", "f8"]))
        for sub in case["subs"]:
            sub["dt"] = dt
    else:
        for sub in case["subs"]:
            sub["lay"] = str(rng.choice(LAYOUTS, p=[0.2, 0.2, 0.15, 0.15, 0.1, 0.12, 0.08]))
            sub["dt"] = str(rng.choice(["f4", "f8", "i4", "i8"], p=[0.45, 0.35, 0.1, 0.1])) if not case.get("float") \
                else str(rng.choice(["f4", "f8"]))
    if rng.random() < 0.5:
        pres["kw"] = True
    pres["ctor"] = str(rng.choice(["plain", "npint", "scan"]))
    if pres["ctor"] == "scan" and rng.random() < 0.5:
        pres["ts"] = True
    case["pres"] = pres
    return case


SCALES = ((1e-9, 0.0), (1e-9, 0.0), (1e-3, 0.0), (0.25, 0.0), (1.0, 1000.0), (1e3, -5e4), (1e-9, 1.0), (1e-9, 1.0),
          (1e-6, 1000.0), (3e-5, -2.0), (1e2, 7e3), (1e-7, 0.0))
F8_ONLY = ((1e-9, 1.0), (1e-6, 1000.0))           # differences below float32 resolution at that offset


def _gen_scaled_case(rng, strategy):
    """float scores at an absolute scale between 1e-9 and 1e3 and offsets far from zero (float32 and float64;
    (1e-9, 1.0) is resolved by float64 only, in float32 it is one big tie); thresholds that coincide with a score
    (a tie at the bound), lie between two scores, or are exactly 0.  Spec clauses only."""
    case = _gen_case(rng, strategy, ties=bool(rng.random() < 0.5), model=False, mixed=bool(rng.random() < 0.2))
    scale, off = SCALES[int(rng.integers(0, len(SCALES)))]
    dt = "f8" if (rng.random() < 0.5 or (scale, off) in F8_ONLY) else "f4"
    r = rng.random()
    if r < 0.45:                                     # a score window far more often than in the integer streams
        kind = str(rng.choice(["lo", "lo", "hi", "both"]))
        case["cfg"]["lo"] = 0 if kind in ("lo", "both") else None       # placeholders, replaced by thr() below
        case["cfg"]["hi"] = 0 if kind in ("hi", "both") else None
        if rng.random() < 0.6:
            case["cfg"]["n"] = 1000
    elif r < 0.7:
        case["cfg"].update(lo=None, hi=None, mb=0)    # the global-maximum clause applies
    typ = DTYPES[dt]
    allv = []
    for sub in case["subs"]:
        v = (np.array(sub["data"], dtype=np.float64) * scale + off).astype(typ)
        sub["data"] = [float(x) for x in v]
        sub["dt"] = dt
        allv += sub["data"]
    cfg = case["cfg"]
    vals = sorted(set(allv))

    def thr():
        r = rng.random()
        if r < 0.45:
            return vals[int(rng.integers(0, len(vals)))]                     # a score: tie at the bound
        if r < 0.8 and len(vals) > 1:
            i = int(rng.integers(0, len(vals) - 1))
            return float(typ((vals[i] + vals[i + 1]) / 2))                   # between two scores
        if r < 0.9:
            return 0.0
        return float(typ(vals[0] - abs(vals[0]) - scale))
    if cfg["lo"] is not None:
        cfg["lo"] = thr()
    if cfg["hi"] is not None:
        cfg["hi"] = thr()
    if cfg["lo"] is not None and cfg["hi"] is not None and cfg["hi"] < cfg["lo"] and rng.random() < 0.7:
        cfg["lo"], cfg["hi"] = cfg["hi"], cfg["lo"]
    if cfg["lo"] is None and cfg["n"] > 1000:
        cfg["n"] = 1000          # int64-max peaks only together with a minimum score (as scripts/postprocess.py does)
    case["float"] = True
    case["scale"] = [scale, off]
    if rng.random() < 0.6:
        _add_presentation(rng, case)
        for sub in case["subs"]:
            sub["dt"] = dt
    return case


def _gen_mask_case(rng):
    """PeakCallerRecursiveMasking called with an explicit mask (the rotated-mask branch instead of the box)"""
    case = _gen_case(rng, "recursive", ties=bool(rng.random() < 0.5), model=False)
    nd = len(case["shape"])
    md = max(case["cfg"]["md"], 1)
    case["cfg"]["n"] = min(case["cfg"]["n"], 20)          # one rigid_transform of the mask per reported peak
    for sub in case["subs"]:
        sub["rot"] = 1                                    # identity: a proper rotation matrix for rigid_transform
    case["pres"] = {"mask": [int(rng.choice([md, md + 1, 2 * md + 1, 1])) for _ in range(nd)], "kw": True,
                    "rotation_space": bool(rng.random() < 0.4)}
    return case


# --------------------------------------------------------------------------- checks

def _check_history(ctx, case, model=True):
    """one history: real run, model run, correspondence at every prefix, spec clauses at every prefix"""
    st, cfg = case["strategy"], case["cfg"]
    states, orcs, contracts = _real_history(case, record=case.get("ties", False) and not case.get("float", False))
    ctx.count(f"hist:{st}")
    ctx.count(f"hist:md={cfg['md']}")
    ctx.count(f"hist:ndim={len(case['shape'])}")
    ctx.count("hist:" + ("ties" if case.get("ties") else "tie-free"))
    ctx.count("hist:nsub=%d" % len(case["subs"]))
    if any(s % max(cfg["md"], 1) for s in case["shape"]):
        ctx.count("hist:extent-not-multiple-of-distance")
    if cfg["lo"] is not None or cfg["hi"] is not None:
        ctx.count("hist:score-window")
    if cfg["mb"]:
        ctx.count("hist:margin")
    pres = case.get("pres") or {}
    for sub in case["subs"]:
        ctx.count("hist:layout=" + ("reused-buffer" if pres.get("reuse") else sub.get("lay", "C")))
        ctx.count("hist:dtype=" + sub.get("dt", "f4"))
    ctx.count("hist:ctor=" + pres.get("ctor", "plain"))
    if any(sub.get("shape") for sub in case["subs"]):
        ctx.count("hist:extents-differ-between-submissions")
    if case.get("scale"):
        ctx.count("hist:scale=%g,offset=%g" % tuple(case["scale"]))
    if pres.get("mask"):
        ctx.count("hist:recursive-with-mask" + ("+rotation_space" if pres.get("rotation_space") else ""))
    raised = [s for s in states if isinstance(s, str)]
    inp = {"kind": "history", **case}
    if raised:
        typ = raised[0].split(":", 1)[1]
        key = f"{st}:raises:{typ}"
        if st == "fast" and cfg["md"] == 0 and typ == "ZeroDivisionError":
            key = "fast:min_distance=0:ZeroDivisionError"
        ctx.spec("the strategy reports peaks (does not raise) for an accepted configuration", inp, False,
                 {"outcome": raised[0]}, key=key)
        ctx.count("hist:raised")
    for kind, s, k, o in contracts:
        okc = ctx.driver.call("c05.isTopK", scores=s, k=k, order=o) if kind == "topk" else \
            ctx.driver.call("c05.isArgsort", scores=s, order=o)
        ctx.agree("topk_indices/argsort contract (k distinct indices, descending, nothing better left out)",
                  {"scores": s, "k": k, "order": o}, okc, True)
    if model:
        m = _model_history(ctx, case, orcs)
        if isinstance(m, str):
            impl = "err" if raised else "ok"
            ctx.agree("PeakCaller history: raises", inp, impl, "err")
        else:
            for i, s in enumerate(states):
                if isinstance(s, str):
                    ctx.agree("PeakCaller history: state after call %d" % (i + 1), inp, s, m[i] if i < len(m) else None)
                    break
                ctx.agree("PeakCaller history: tuple(peak_caller) after each call",
                          {**inp, "after_call": i + 1}, s, m[i])
    for i, s in enumerate(states):
        if not isinstance(s, str):
            _spec_history(ctx, case, i + 1, s)
    final = [s for s in states if not isinstance(s, str)]
    if final and final[-1] and int(np.prod(case["shape"])) > 1:
        ctx.distinct(("history", st, json.dumps(cfg, sort_keys=True), tuple(case["shape"]),
                      hash(json.dumps(case["subs"])) & 0xffffffff))
    return states


def _unit_greedy(ctx):
    """C++ find_candidate_indices (through filter_points_indices) vs the model's greedy pass"""
    from tme.analyzer import filter_points_indices
    rng = ctx.rng("greedy")
    n = ctx.budget(250, 4000)
    reqs, keep = [], []
    for _ in range(n):
        d = int(rng.choice([1, 2, 2, 3, 3, 4]))
        k = int(rng.integers(1, 14))
        span = int(rng.choice([3, 5, 9, 14]))
        md = int(rng.choice([0, 1, 2, 3, 4, 5, 10, 13]))
        coords = rng.integers(0, span, size=(k, d)).astype(np.int64)
        r = rng.random()
        if r < 0.25 and k > 1 and md >= 1:
            # a pair at exactly the minimum distance (axis-aligned, or a Pythagorean triple): "closer than OR EQUAL"
            i, j = (int(x) for x in rng.choice(k, size=2, replace=False))
            step = np.zeros(d, dtype=np.int64)
            trip = {5: (3, 4), 10: (6, 8), 13: (5, 12)}.get(md)
            if trip is not None and d >= 2 and rng.random() < 0.7:
                ax = rng.choice(d, size=2, replace=False)
                step[ax[0]], step[ax[1]] = trip
            else:
                step[int(rng.integers(0, d))] = md
            coords[j] = coords[i] + step * int(rng.choice([-1, 1]))
            ctx.count("greedy:pair-at-exactly-the-distance")
        if rng.random() < 0.3:
            coords += np.array([int(x) for x in rng.choice([-7, -1, 0, 1000, 10 ** 6], size=d)], dtype=np.int64)   # frame of a merge offset
        got = [int(x) for x in filter_points_indices(coordinates=coords, min_distance=md, batch_dims=None)]
        keep.append((coords.tolist(), md, got))
        reqs.append(("c05.greedy", {"md": md, "coords": coords.tolist()}))
    for (coords, md, got), m in zip(keep, _batch(ctx, reqs)):
        inp = {"kind": "greedy", "coords": coords, "md": md}
        ctx.agree("find_candidate_indices", inp, got, m)
        if md >= 1:
            pts = [coords[i] for i in got]
            ok = all(_d2(pts[i], pts[j]) > md * md for i in range(len(pts)) for j in range(i + 1, len(pts)))
            ctx.spec("no two reported peaks within min_distance", inp, ok, got, key="find_candidate_indices:separated")
        ctx.spec("the first (highest-scoring) candidate survives the distance filter", inp, bool(got) and got[0] == 0,
                 got, key="find_candidate_indices:first-kept")
        ctx.count("greedy:md=%d" % md)
        if len(coords) > 1:
            ctx.distinct(("greedy", md, hash(json.dumps(coords)) & 0xffffffff))


def _unit_topk(ctx):
    from tme.backends import backend as be
    rng = ctx.rng("topk")
    for _ in range(ctx.budget(120, 1500)):
        size = int(rng.integers(1, 40))
        k = int(rng.integers(1, size + 1))
        if rng.random() < 0.5:
            a = rng.permutation(size * 2)[:size] - size
            tie = False
        else:
            a = rng.integers(-3, 4, size=size)
            tie = True
        out = [int(x) for x in be.topk_indices(a.astype(np.float32), k)[0]]
        s = [int(x) for x in a]
        inp = {"kind": "topk", "scores": s, "k": k}
        ctx.agree("topk_indices contract", inp, ctx.driver.call("c05.isTopK", scores=s, k=k, order=out), True)
        if not tie:
            ctx.agree("topk_indices (tie-free) = first k by descending score", inp, out, ctx.driver.call("c05.topk", scores=s, k=k))
        ctx.spec("top-k holds the k highest scores in descending order", inp,
                 sorted(s, reverse=True)[:k] == [s[i] for i in out] and len(set(out)) == k, out, key="topk_indices:contract")
        ctx.count("topk:" + ("ties" if tie else "tie-free"))


def _unit_tiles(ctx):
    """split_shape as PeakCallerFast calls it vs the model's tiles (obligation: table of starts)"""
    from tme.matching_utils import split_shape
    N = ctx.budget(40, 90)
    reqs, keep = [], []
    for n in range(1, N + 1):
        for md in range(1, min(n + 3, 12)):
            reqs.append(("c05.tiles", {"n": n, "md": md}))
            keep.append((n, md))
    bad = None
    for (n, md), m in zip(keep, _batch(ctx, reqs)):
        sl = split_shape((n,), {0: n // md})
        impl = {"len": int(sl[0][0].stop - sl[0][0].start), "starts": [int(s[0].start) for s in sl]}
        same = ctx.agree("split_shape (PeakCallerFast tiles)", {"kind": "tiles", "n": n, "md": md}, impl,
                         {"len": m["len"], "starts": m["starts"]})
        tiles_ok = all(0 <= s[0].start and s[0].stop <= n and s[0].stop - s[0].start == impl["len"] and impl["len"] >= 1 for s in sl) \
            and set(range(n)) == {i for s in sl for i in range(s[0].start, s[0].stop)}
        ctx.spec("tiles handed to the block-wise strategy are in bounds, non-empty and cover the axis",
                 {"kind": "tiles", "n": n, "md": md}, tiles_ok, impl, key="split_shape:tiles")
        if not same and bad is None:
            bad = (n, md, impl, m)
    ctx.obligation("split_shape tile starts == model tileStarts (theorems tileStarts_* are about this table)", bad is None, bad)


def _unit_callpeaks(ctx):
    """call_peaks of every strategy on single arrays vs the model (tie-free data, no oracle but Scipy's)"""
    rng = ctx.rng("callpeaks")
    classes = _classes()
    n = ctx.budget(40, 400)
    for st in STRATS:
        reqs, keep = [], []
        for _ in range(n):
            cfg = _gen_cfg(rng, st)
            cfg["mb"] = 0
            if st == "fast" and cfg["md"] == 0:
                cfg["md"] = 1
            shape = _gen_shape(rng, st)
            data = _gen_data(rng, shape, 1, ties=False)[0]
            arr = np.array(data, dtype=np.float32).reshape(shape)
            pc = classes[st](**_cfg_kwargs(cfg))
            try:
                with warnings.catch_warnings():
                    warnings.simplefilter("ignore")
                    res = pc.call_peaks(scores=arr.copy(), rotation_matrix=np.eye(len(shape)),
                                        minimum_score=cfg["lo"], maximum_score=cfg["hi"])
                pos = res[0] if res is not None else None
                got = [] if pos is None or np.asarray(pos).size == 0 else np.asarray(pos).astype(int).tolist()
            except Exception as e:
                got = "raised:" + type(e).__name__
            orc = {"plm": _plm(arr, cfg)} if st == "scipy" else {}
            keep.append((cfg, shape, data, got))
            reqs.append(("c05.callPeaks", {"cfg": cfg, "strategy": st, "shape": shape, "data": data, "rot": 0, "orc": orc}))
        for (cfg, shape, data, got), m in zip(keep, _batch(ctx, reqs)):
            inp = {"kind": "callpeaks", "strategy": st, "cfg": cfg, "shape": shape, "data": data}
            ctx.agree(f"call_peaks[{st}]", inp, got, m)
            if isinstance(got, list):
                ok = all(all(0 <= x < s for x, s in zip(p, shape)) for p in got)
                ctx.spec("every reported peak lies inside the scored volume", inp, ok, got[:10], key=f"{st}:call_peaks:inbounds")
            ctx.count(f"callpeaks:{st}")


def _float_histories(ctx, n):
    """non-integer scores: the property's clauses on the real code only (the model is over integers)"""
    rng = ctx.rng("hist-float")
    for i in range(n):
        _check_history(ctx, _gen_float_case(rng, STRATS[i % len(STRATS)]), model=False)
        ctx.count("hist:float-spec-only")


def _scaled_histories(ctx, n):
    rng = ctx.rng("hist-scaled")
    for i in range(n):
        _check_history(ctx, _gen_scaled_case(rng, STRATS[i % len(STRATS)]), model=False)
        ctx.count("hist:scaled-spec-only")


def _mask_histories(ctx, n):
    rng = ctx.rng("hist-mask")
    for i in range(n):
        _check_history(ctx, _gen_mask_case(rng), model=False)


def _histories(ctx, ties, n):
    rng = ctx.rng("hist-ties" if ties else "hist")
    for i in range(n):
        st = STRATS[i % len(STRATS)]
        case = _gen_case(rng, st, ties, mixed=(i % 4 >= 2))
        if i % 2:
            _add_presentation(rng, case)
        states = _check_history(ctx, case)
        if i < 2 * len(STRATS) and states and not isinstance(states[-1], str) and states[-1]:
            ctx.sample({"kind": "history", "strategy": st, "cfg": case["cfg"], "shape": case["shape"],
                        "calls": len(case["subs"]), "reported": states[-1][:4]}, limit=8)


# --- merges ---------------------------------------------------------------

def _real_caller_tuple(case):
    cls = _classes()[case["strategy"]]
    pc = cls(**_cfg_kwargs(case["cfg"]))
    for sub in case["subs"]:
        arr = np.array(sub["data"], dtype=np.float32).reshape(case["shape"])
        with warnings.catch_warnings():
            warnings.simplefilter("ignore")
            pc(arr.copy(), _rotmat(len(case["shape"]), sub["rot"]))
    return tuple(pc)


def _check_merge(ctx, mc):
    """mc: {cfg, strategy, shape, parts:[history-case | None], offset, repeat, ties}"""
    classes = _classes()
    cls = classes[mc["strategy"]]
    cfg = mc["cfg"]
    tuples = []
    nd = len(mc["shape"])
    for part in mc["parts"]:
        if part is None:
            tuples.append(tuple(cls(**_cfg_kwargs(cfg))))
        elif isinstance(part, dict) and "alias" in part:
            tuples.append(tuples[part["alias"]])          # the very same partial result handed in twice
        elif isinstance(part, dict):
            # a candidate tuple given directly (e.g. the output of an earlier merge, or arbitrary peaks)
            pk = part["peaks"]
            tuples.append((np.array([p[0] for p in pk], dtype=np.int64).reshape(len(pk), nd),
                           np.stack([_rotmat(nd, p[1]) for p in pk]) if pk else np.zeros((0, nd, nd)),
                           np.array([p[2] for p in pk], dtype=DTYPES[part.get("dt", "f4")]), np.full(len(pk), -1.0)))
            if part.get("as_list"):
                tuples[-1] = list(tuples[-1])
        else:
            try:
                tuples.append(_real_caller_tuple({"strategy": mc["strategy"], "cfg": cfg, "shape": mc["shape"], "subs": part}))
            except Exception as e:
                typ = type(e).__name__
                key = f"{mc['strategy']}:raises:{typ}"
                if mc["strategy"] == "fast" and cfg["md"] == 0 and typ == "ZeroDivisionError":
                    key = "fast:min_distance=0:ZeroDivisionError"
                ctx.spec("the strategy reports peaks (does not raise) for an accepted configuration",
                         {"kind": "history", "strategy": mc["strategy"], "cfg": cfg, "shape": mc["shape"], "subs": part,
                          "ties": True}, False, {"outcome": "raised:" + typ}, key=key)
                return None
    before = [_canon(t) for t in tuples]
    kwargs = _cfg_kwargs(cfg)
    if mc["offset"] is not None:
        kwargs["offset"] = np.array(mc["offset"], dtype={"i4": np.int32, "i8": np.int64}[mc.get("offset_dt", "i8")])
    if mc.get("scan_kwargs"):
        # what `scan` passes besides the caller's own arguments when it merges the jobs' results
        kwargs.update(thread_safe=True, fourier_shift=np.array([-1] * nd), convolution_mode="same", targetshape=tuple(mc["shape"]),
                      templateshape=tuple(2 for _ in range(nd)), convolution_shape=tuple(mc["shape"]), fast_shape=tuple(mc["shape"]),
                      indices=None, shared_memory_handler=None, only_unique_rotations=True)
        if mc["offset"] is None and mc.get("zero_offset"):
            kwargs["offset"] = np.zeros(nd, dtype=int)
    outs, recs = [], []
    try:
        for _ in range(mc.get("repeat", 1)):
            with _Rec(mc.get("ties", False)) as rec:
                outs.append(_canon(cls.merge(tuples, **kwargs)))
            recs.append(rec)
    except Exception as e:
        outs.append("raised:" + type(e).__name__)
    inp = {"kind": "merge", **mc}
    after = [_canon(t) for t in tuples]
    ctx.spec("merge leaves the partial results it was given unchanged", inp, before == after,
             {"before": before, "after": after}, key="merge:inputs-unchanged")
    if isinstance(outs[-1], str):
        ctx.spec("merge returns (does not raise)", inp, False, outs[-1], key="merge:raises:" + outs[-1].split(":")[1])
        return
    parts = []
    for j, b in enumerate(before):
        p = {"peaks": None if len(tuples[j]) == 0 else b}
        if mc.get("ties") and recs:
            pass
        parts.append(p)
    if mc.get("ties"):
        # recorded top-k answers of the first merge, one per non-empty part, in order
        tk = [t[2] for t in recs[0].topk if t[2] is not None]
        it = iter(tk)
        for p in parts:
            if p["peaks"] is not None:
                p["order"] = next(it, None)
    model = ctx.driver.call("c05.merge", cfg=cfg, offset=mc["offset"], parts=parts)
    for o in outs:
        ctx.agree("PeakCaller.merge", inp, o, model)
    # spec: every merged peak is a peak of some part shifted by the offset; count; separation; best kept
    off = mc["offset"] or [0] * len(mc["shape"])
    pool = [([x + o for x, o in zip(p[0], off)], p[1], p[2]) for b in before for p in b]
    for o in outs:
        ok = all(any(q[0] == p[0] and q[1] == p[1] and q[2] == p[2] for q in pool) for p in o)
        ctx.spec("merged peaks are the partial results' peaks moved by the offset (score, rotation kept)", inp, ok,
                 {"merged": o[:10], "pool": pool[:10]}, key="merge:score-rotation")
        _spec_list(ctx, "merge", {**inp, "strategy": "merge"}, o, cfg)
        if pool:
            M = max(p[2] for p in pool)
            ctx.spec("the highest-scoring partial peak survives the merge", inp, any(p[2] == M for p in o), o[:10],
                     key="merge:global-max")
    ctx.count("merge:parts=%d" % len(mc["parts"]))
    ctx.count("merge:" + ("offset" if mc["offset"] is not None else "no-offset"))
    if pool:
        ctx.distinct(("merge", json.dumps(cfg, sort_keys=True), hash(json.dumps(before)) & 0xffffffff, tuple(off)))
    return outs[-1]


def _merges(ctx, n):
    rng = ctx.rng("merge")
    prev = None
    for i in range(n):
        st = STRATS[int(rng.integers(0, len(STRATS)))]
        ties = bool(rng.random() < 0.4)
        cfg = _gen_cfg(rng, st)
        if st == "fast" and cfg["md"] == 0:
            cfg["md"] = 2
        shape = _gen_shape(rng, st)
        nparts = int(rng.choice([1, 2, 2, 3, 4]))
        nsubs = [0 if rng.random() < 0.12 else int(rng.choice([1, 1, 2, 3])) for _ in range(nparts)]
        data = _gen_data(rng, shape, sum(nsubs), ties)   # tie-free across the whole merge
        parts = []
        for ns in nsubs:
            parts.append(None if ns == 0 else [{"rot": int(rng.integers(1, 9)), "data": data.pop()} for _ in range(ns)])
        offset = None if rng.random() < 0.4 else [int(rng.integers(0, 30)) for _ in shape]
        r = rng.random()
        if ties and r < 0.25 and prev is not None and len(prev[0]) == len(shape):
            parts.insert(int(rng.integers(0, len(parts) + 1)), {"peaks": prev[1]})     # nested merge
            ctx.count("merge:nested")
        elif ties and r < 0.5:
            k = int(rng.integers(0, 9))
            vals = rng.integers(-5, 6, size=k)
            raw = [[[int(x) for x in rng.integers(-3, 8, size=len(shape))], int(rng.integers(1, 9)), int(v)] for v in vals]
            parts.insert(int(rng.integers(0, len(parts) + 1)), {"peaks": raw, "dt": str(rng.choice(["f4", "f8", "i8"])),
                                                                 "as_list": bool(rng.random() < 0.5)})   # arbitrary candidate list
            ctx.count("merge:raw-part")
        if parts and rng.random() < 0.15:
            parts.append({"alias": int(rng.integers(0, len(parts)))})
            ctx.count("merge:same-part-twice")
        mc = {"strategy": st, "cfg": cfg, "shape": shape, "parts": parts, "offset": offset,
              "repeat": 2 if rng.random() < 0.5 else 1, "ties": ties, "offset_dt": str(rng.choice(["i8", "i4"])),
              "scan_kwargs": bool(rng.random() < 0.4), "zero_offset": bool(rng.random() < 0.5)}
        out = _check_merge(ctx, mc)
        if out and not isinstance(out, str):
            prev = (shape, out)
        if i < 3 and out:
            ctx.sample({"kind": "merge", "strategy": st, "cfg": cfg, "offset": offset, "parts": len(parts), "merged": out[:4]}, limit=8)


# --- _postprocess -----------------------------------------------------------

def _pp_params(rng, nd):
    from pyfftw import next_fast_len
    tgt = [int(rng.integers(1, 12)) for _ in range(nd)]
    tpl = [int(rng.integers(1, 8)) for _ in range(nd)]
    if rng.random() < 0.85:
        tpl = [min(a, b) for a, b in zip(tgt, tpl)]
    pad = bool(rng.random() < 0.5)
    conv = [max(a, b) + (b if pad else 1) - 1 for a, b in zip(tgt, tpl)]
    fast = [int(next_fast_len(c)) for c in conv]
    if rng.random() < 0.3:
        fast = [f + int(rng.integers(0, 3)) for f in fast]
    shift = [0] * nd if pad else [-((b - 1) // 2) for b in tpl]
    if rng.random() < 0.2:
        shift = [int(rng.integers(-6, 7)) for _ in range(nd)]
    mode = str(rng.choice(["same", "same", "valid", "full"]))
    return {"fast": fast, "conv": conv, "target": tgt, "template": tpl, "shift": shift, "mode": mode}


def _check_postprocess(ctx, pp):
    """all raw positions of the fast grid through the real _postprocess; model; frame clause vs the real score map path"""
    from tme.analyzer import PeakCallerSort, MaxScoreOverRotations
    fast, conv, tgt, tpl, shift, mode = (pp[k] for k in ("fast", "conv", "target", "template", "shift", "mode"))
    nd = len(fast)
    size = int(np.prod(fast))
    raw = np.arange(size, dtype=np.float32).reshape(fast)          # score = flat raw index: identifies the voxel
    inp = {"kind": "postprocess", **pp}
    pc = PeakCallerSort(number_of_peaks=size, min_distance=0)
    pc(raw.copy(), _rotmat(nd, 1))
    before = _canon(tuple(pc))
    kind = pp.get("argkind", "tuple")
    conv_ = {"tuple": tuple, "list": list, "np64": lambda x: np.array(x, dtype=np.int64),
             "np32": lambda x: np.array(x, dtype=np.int32)}[kind]
    args = dict(fast_shape=conv_(fast), targetshape=conv_(tgt), templateshape=conv_(tpl), convolution_shape=conv_(conv),
                fourier_shift=None if pp.get("noshift") else conv_(shift), convolution_mode=None if mode == "full" and pp.get("nomode") else mode)
    if pp.get("scan_kwargs"):
        # the other keywords `scan` hands to every callback's _postprocess
        args.update(offset=np.zeros(nd, dtype=int), thread_safe=False, indices=None, shared_memory_handler=None,
                    only_unique_rotations=True, number_of_peaks=size, min_distance=0)
    ctx.count("postprocess:args=" + kind + ("+scan-kwargs" if pp.get("scan_kwargs") else ""))
    # a caller that stored nothing (no call at all / every candidate outside the score window) goes through untouched
    for empty in (PeakCallerSort(number_of_peaks=3, min_distance=1), PeakCallerSort(number_of_peaks=3, min_distance=1, minimum_score=size + 5.0)):
        try:
            empty(raw.copy(), _rotmat(nd, 1)) if empty.minimum_score is not None else None
            e_out = _canon(tuple(empty._postprocess(**args)))
        except Exception as e:
            e_out = "raised:" + type(e).__name__
        ctx.spec("_postprocess of a caller that holds no peak reports no peak (and does not raise)", inp, e_out == [],
                 e_out, key="_postprocess:empty-caller")
    try:
        got = _canon(tuple(pc._postprocess(**args)))
    except Exception as e:
        ctx.spec("_postprocess returns", inp, False, type(e).__name__, key="_postprocess:raises")
        return
    model = ctx.driver.call("c05.postprocess", fast=fast, conv=conv, target=tgt, template=tpl,
                            shift=None if pp.get("noshift") else shift, mode=mode, wrap=not pp.get("noshift", False), peaks=before)
    ctx.agree("PeakCaller._postprocess", inp, got, model)
    # the real score-map path on the same raw array
    valid_ok = all(t - m + m % 2 >= 1 for t, m in zip(tgt, tpl)) or mode != "valid"
    if not valid_ok or pp.get("noshift"):
        ctx.count("postprocess:frame-not-applicable")
        return
    an = MaxScoreOverRotations(shape=tuple(fast), score_threshold=-1, thread_safe=False)
    an(raw.copy(), _rotmat(nd, 1))
    an._postprocess(targetshape=tuple(tgt), templateshape=tuple(tpl), convolution_shape=tuple(conv),
                    fourier_shift=tuple(shift), convolution_mode=mode, fast_shape=tuple(fast))
    smap = np.array(tuple(an)[0])
    want = {idx: int(round(float(smap[idx]))) for idx in np.ndindex(*smap.shape)}
    have = {}
    dup = False
    for p in got:
        dup |= tuple(p[0]) in have
        have[tuple(p[0])] = p[2]
    missing = sorted(k for k in want if k not in have)
    extra = sorted(k for k in have if k not in want)
    wrong = sorted(k for k in have if k in want and have[k] != want[k])
    cond = "ok"
    if missing or extra or wrong or dup:
        first = [k for k in missing if 0 in k]
        last = [k for k in extra if any(x == s for x, s in zip(k, smap.shape))]
        cond = "first-index" if first else "index=shape" if last else "missing" if missing else "extra" if extra else "wrong-voxel"
    ctx.spec("post-processed peaks are in the score map's frame: every translation of the map, including the first and "
             "last index of every axis, is reported with the map's value and nothing else", inp,
             cond == "ok", {"missing": missing[:6], "extra": extra[:6], "wrong": wrong[:6], "map_shape": smap.shape},
             key="_postprocess:" + cond)
    # the model's own statement of the map frame (mapSrc) vs the real score map
    ms = ctx.driver.call("c05.mapSrc", fast=fast, conv=conv, target=tgt, template=tpl, shift=shift, mode=mode)
    if isinstance(ms, list) and all(len(m) == s for m, s in zip(ms, smap.shape)):
        src = np.zeros(smap.shape, dtype=np.int64)
        for idx in np.ndindex(*smap.shape):
            src[idx] = int(np.ravel_multi_index([ms[a][idx[a]] for a in range(nd)], fast))
        ctx.agree("score map reads raw[mapSrc t] (frame used by postprocess_target_frame)", inp,
                  smap.astype(np.int64).reshape(-1).tolist(), src.reshape(-1).tolist())
    ctx.count("postprocess:mode=" + mode)
    ctx.count("postprocess:" + ("shift" if any(shift) else "noshift"))
    ctx.distinct(("postprocess", tuple(fast), tuple(conv), tuple(tgt), tuple(tpl), tuple(shift), mode))


def _postprocess(ctx, n):
    rng = ctx.rng("postprocess")
    for i in range(n):
        nd = 1 if rng.random() < 0.3 else 2 if rng.random() < 0.8 else 3
        pp = _pp_params(rng, nd)
        if nd == 3:
            pp = {k: (v[:3] if isinstance(v, list) else v) for k, v in pp.items()}
            if int(np.prod(pp["fast"])) > 4000:
                continue
        if rng.random() < 0.08:
            pp["noshift"] = True
        pp["argkind"] = str(rng.choice(["tuple", "tuple", "list", "np64", "np32"]))
        if rng.random() < 0.4:
            pp["scan_kwargs"] = True
        _check_postprocess(ctx, pp)
        if i < 2:
            ctx.sample({"kind": "postprocess", **pp}, limit=8)


# --- end to end -------------------------------------------------------------

def _scan(target, template, cb, args, pad, splits, pad_edges, rots, score="CC", jobs=1, schedule=(1, 1)):
    from tme.matching_data import MatchingData
    from tme.matching_exhaustive import scan, scan_subsets, MATCHING_EXHAUSTIVE_REGISTER
    with contextlib.redirect_stdout(io.StringIO()), warnings.catch_warnings():
        warnings.simplefilter("ignore")
        md = MatchingData(target=target.copy(), template=template.copy(), rotations=rots.copy())
        setup, fn = MATCHING_EXHAUSTIVE_REGISTER[score]
        if not splits:
            return scan(md, matching_setup=setup, matching_score=fn, n_jobs=int(jobs), callback_class=cb,
                        callback_class_args=args, pad_fourier=pad)
        return scan_subsets(md, matching_setup=setup, matching_score=fn, job_schedule=tuple(int(x) for x in schedule), callback_class=cb,
                            callback_class_args=args, pad_fourier=pad, target_splits=splits, pad_target_edges=pad_edges)


def _check_e2e(ctx, ec):
    """ec: {n, m, pad, splits, pad_edges, nrot, strategy, cfg, seed, plant}"""
    from tme.analyzer import MaxScoreOverRotations
    classes = _classes()
    rng = np.random.default_rng(ec["seed"])
    n, m = ec["n"], ec["m"]
    nd = len(n)
    target = rng.integers(0, 4, size=n).astype(np.float32)
    template = rng.integers(1, 5, size=m).astype(np.float32)
    plant = ec.get("plant")
    if plant == "first":
        at = [0] * nd
    elif plant == "last":
        at = [a - b for a, b in zip(n, m)]
    else:
        at = None
    if at is not None:
        sl = tuple(slice(a, a + b) for a, b in zip(at, m))
        target[sl] += 6 * template
    rots = np.eye(nd).reshape(1, nd, nd)
    if ec["nrot"] > 1:
        r90 = np.eye(nd)
        r90[:2, :2] = [[0, -1], [1, 0]]
        rots = np.stack([np.eye(nd), r90, r90 @ r90][:ec["nrot"]])
    splits = {int(k): v for k, v in (ec.get("splits") or {}).items()}
    inp = {"kind": "e2e", **ec}
    jobs, schedule = int(ec.get("jobs", 1)), tuple(ec.get("schedule") or (1, 1))
    try:
        ref = _scan(target, template, MaxScoreOverRotations, {"score_threshold": -1e30}, ec["pad"], splits, ec["pad_edges"], rots)
        smap = np.array(ref[0])
        # the score map of every single rotation of the same run (serial reference)
        smaps = [np.array(_scan(target, template, MaxScoreOverRotations, {"score_threshold": -1e30}, ec["pad"], splits,
                                ec["pad_edges"], rots[i:i + 1])[0]) for i in range(len(rots))] if len(rots) > 1 else [smap]
    except Exception as e:
        ctx.note("e2e reference run failed: %r" % (e,))
        ctx.count("e2e:reference-failed")
        return
    st, cfg = ec["strategy"], ec["cfg"]
    try:
        out = _scan(target, template, classes[st], _cfg_kwargs(cfg), ec["pad"], splits, ec["pad_edges"], rots,
                    jobs=jobs, schedule=schedule)
    except Exception as e:
        ctx.spec("template-matching run with a peak caller returns", inp, False, repr(e)[:300], key=f"e2e:{st}:raises")
        return
    if out is None or len(out) == 0:
        pos, sc, prot = np.zeros((0, nd), int), np.zeros(0), np.zeros((0, nd, nd))
    else:
        pos, sc, prot = np.asarray(out[0]), np.asarray(out[2], dtype=np.float64), np.asarray(out[1], dtype=np.float64)
    peaks = [[[int(x) for x in p], 0, float(s)] for p, s in zip(pos, sc)]
    tol = 1e-4 * max(1.0, float(np.abs(smap).max()))
    inb = all(all(0 <= x < s for x, s in zip(p[0], smap.shape)) for p in peaks)
    cond = "ok"
    if not inb:
        cond = "index=shape" if any(any(x == s for x, s in zip(p[0], smap.shape)) for p in peaks) else "out-of-target"
    ctx.spec("peaks of a template-matching run are target coordinates inside the target", inp, inb,
             {"peaks": peaks[:8], "target": smap.shape}, key="e2e:" + cond if cond != "ok" else "e2e:inbounds")
    if inb:
        if ec["nrot"] == 1 and not splits:
            ok = all(abs(p[2] - float(smap[tuple(p[0])])) <= tol for p in peaks)
        else:
            ok = all(p[2] <= float(smap[tuple(p[0])]) + tol for p in peaks)
        ctx.spec("peak scores agree with the score map of the same run", inp, ok,
                 [(p, float(smap[tuple(p[0])])) for p in peaks[:6]], key="e2e:score-map")
        # score AND rotation: the reported rotation is one of the run's rotations and the reported score is that
        # rotation's score at the reported translation
        which = [[i for i in range(len(rots)) if np.allclose(prot[j], rots[i], atol=1e-6)] for j in range(len(peaks))]
        okr = all(which)
        ctx.spec("the rotation reported with a peak is one of the rotations of the run", inp, okr,
                 {"n_peaks": len(peaks)}, key="e2e:rotation-unknown")
        if okr and all(m.shape == smap.shape for m in smaps):
            # target tiles of equal length overlap when the split does not divide the extent: a translation in the
            # overlap is scored (and may be reported) by both tiles, the map keeps the larger value -> "<=" for split runs
            if splits:
                bad = [(peaks[j], w, [float(smaps[i][tuple(peaks[j][0])]) for i in w]) for j, w in enumerate(which)
                       if not any(peaks[j][2] <= float(smaps[i][tuple(peaks[j][0])]) + tol for i in w)]
            else:
                bad = [(peaks[j], w, [float(smaps[i][tuple(peaks[j][0])]) for i in w]) for j, w in enumerate(which)
                       if not any(abs(peaks[j][2] - float(smaps[i][tuple(peaks[j][0])])) <= tol for i in w)]
            ctx.spec("the reported score is the score of the reported rotation at the reported translation", inp,
                     not bad, bad[:4], key="e2e:score-of-rotation")
        lo, hi = cfg["lo"], cfg["hi"]
        ctx.spec("reported scores lie in the configured score window", inp,
                 all((lo is None or p[2] >= lo - tol) and (hi is None or p[2] <= hi + tol) for p in peaks), peaks[:8],
                 key="e2e:window")
        if ec.get("complete"):
            # number_of_peaks = everything, min_distance = 0: the peak list must be the whole score map
            have = {}
            for p in peaks:
                have[tuple(p[0])] = max(p[2], have.get(tuple(p[0]), -np.inf))
            missing = [k for k in np.ndindex(*smap.shape) if k not in have]
            wrong = [k for k in have if abs(have[k] - float(smap[k])) > tol]
            c = "ok"
            if missing or wrong:
                c = "first-index" if any(0 in k for k in missing) else "last-index" if any(any(x == s - 1 for x, s in zip(k, smap.shape)) for k in missing) else "missing" if missing else "wrong-voxel"
            ctx.spec("with every translation requested the peak list is the whole score map (first and last index of "
                     "every axis included)", inp, c == "ok", {"missing": missing[:6], "wrong": wrong[:6]}, key="e2e:complete:" + c)
        elif at is not None and cfg["lo"] is None and cfg["hi"] is None and cfg["mb"] == 0 and st != "scipy":
            # the planted copy is the global maximum of the map (identity rotation is in the set)
            best = np.unravel_index(int(np.argmax(smap)), smap.shape)
            top = max((p[2] for p in peaks), default=-np.inf)
            near_ok = abs(top - float(smap.max())) <= tol
            # NOT a clause of the property: peak calling runs on the raw FFT-grid array, so a larger value in the
            # region that _postprocess crops away (reflect-padded tile margin, circular wrap) can out-rank or mask the
            # best in-crop match.  Recorded in the evidence only.
            ctx.count("e2e:planted-best-reported" if near_ok else "e2e:planted-best-masked-by-cropped-region")
            if not near_ok:
                ctx.note("end-to-end: best in-crop match not reported because a value in the cropped-away region "
                         "masked it (%s, target %s, template %s, splits %s)" % (st, n, m, ec.get("splits")))
    _spec_list(ctx, "e2e", {**inp, "strategy": "e2e:" + st}, peaks, cfg)
    ctx.count("e2e:" + st)
    ctx.count("e2e:" + ("pad_fourier" if ec["pad"] else "no-pad_fourier"))
    ctx.count("e2e:" + ("splits" if splits else "unsplit"))
    ctx.count("e2e:jobs=%d,schedule=%s,rotations=%d" % (jobs, "x".join(map(str, schedule)), ec["nrot"]))
    if cfg["lo"] is not None or cfg["hi"] is not None:
        ctx.count("e2e:score-window")
    ctx.distinct(("e2e", st, tuple(n), tuple(m), ec["pad"], json.dumps(ec.get("splits")), ec["nrot"], ec.get("plant"), ec["seed"], jobs, schedule))
    return peaks


def _e2e(ctx, n):
    rng = ctx.rng("e2e")
    for i in range(n):
        nd = 2 if rng.random() < 0.7 else 3
        tgt = [int(rng.integers(6, 17 if nd == 2 else 11)) for _ in range(nd)]
        tpl = [int(rng.integers(2, 6)) for _ in range(nd)]
        tpl = [min(a - 1, b) for a, b in zip(tgt, tpl)]
        st = STRATS[i % len(STRATS)]
        complete = (i % 3 == 0)
        if complete:
            st = "sort"
            cfg = {"n": 10 ** 6, "md": 0, "mb": 0, "lo": None, "hi": None}
        else:
            cfg = {"n": int(rng.choice([1, 3, 10, 1000])), "md": int(rng.choice([1, 2, 3])), "mb": 0, "lo": None, "hi": None}
        splits = None
        pad_edges = False
        if rng.random() < 0.35:
            ax = int(rng.integers(0, nd))
            splits = {str(ax): 2}
            pad_edges = bool(rng.random() < 0.7)
        ec = {"n": tgt, "m": tpl, "pad": bool(rng.random() < 0.5), "splits": splits, "pad_edges": pad_edges,
              "nrot": int(rng.choice([1, 1, 2, 3])), "strategy": st, "cfg": cfg, "seed": int(rng.integers(0, 2 ** 31)),
              "plant": [None, "first", "last"][i % 3] if not complete else None, "complete": complete}
        pk = _check_e2e(ctx, ec)
        if i < 2 and pk:
            ctx.sample({"kind": "e2e", **{k: v for k, v in ec.items() if k != "seed"}, "peaks": pk[:3]}, limit=8)


def _e2e_jobs(ctx, n):
    """the same end-to-end clauses with partial results that are produced by several jobs and merged: rotations split
    over n_jobs (also n_jobs that do not divide / exceed the number of rotations), target splits that do not divide the
    extent or cut two axes, job schedules (k,1) / (1,k), a configured score window"""
    rng = ctx.rng("e2e-jobs")
    for i in range(n):
        nd = 2 if rng.random() < 0.75 else 3
        tgt = [int(rng.integers(7, 17 if nd == 2 else 11)) for _ in range(nd)]
        tpl = [min(a - 1, int(rng.integers(2, 5))) for a in tgt]
        st = STRATS[int(rng.integers(0, len(STRATS)))]
        complete = (i % 4 in (0, 3))
        if complete:
            st = "sort"
            cfg = {"n": 10 ** 6, "md": 0, "mb": 0, "lo": None, "hi": None}
        else:
            cfg = {"n": int(rng.choice([1, 3, 10, 1000])), "md": int(rng.choice([1, 2, 3])), "mb": 0, "lo": None, "hi": None}
            r = rng.random()
            # CC scores of 0..3 x 1..4 data are non-negative integers up to a few hundred
            if r < 0.3:
                cfg["lo"] = float(rng.choice([0.0, 20.0, 45.0]))
            elif r < 0.5:
                cfg["hi"] = float(rng.choice([30.0, 60.0]))
        nrot = int(rng.choice([1, 2, 3, 3]))
        ec = {"n": tgt, "m": tpl, "pad": bool(rng.random() < 0.5), "splits": None, "pad_edges": False, "nrot": nrot,
              "strategy": st, "cfg": cfg, "seed": int(rng.integers(0, 2 ** 31)), "plant": None, "complete": complete}
        if i % 2 == 0:
            ec["jobs"] = int(rng.choice([2, 2, 3]))                    # rotations over jobs; may exceed / not divide nrot
        else:
            axes = [int(rng.integers(0, nd))]
            if rng.random() < 0.3:
                axes = sorted(set(axes + [int(rng.integers(0, nd))]))
            ec["splits"] = {str(ax): int(rng.choice([2, 3])) for ax in axes}
            ec["pad_edges"] = bool(rng.random() < 0.7)
            ec["schedule"] = [int(x) for x in ((2, 1), (1, 2), (1, 1), (3, 1))[int(rng.integers(0, 4))]]
        _check_e2e(ctx, ec)


# --------------------------------------------------------------------------- batch axes, bucket filter, clustering

def _gen_bd(rng, d, allow_bad=True):
    """batch_dims: None, (), ascending subsets, and (less often) descending / repeated / out-of-range tuples"""
    r = rng.random()
    if r < 0.15:
        return None
    if r < 0.22:
        return []
    k = int(rng.integers(1, d + 1))
    bd = sorted(int(x) for x in rng.choice(d, size=k, replace=False))
    r = rng.random()
    if allow_bad and r < 0.12:
        bd = bd[::-1] if len(bd) > 1 else bd + bd
    elif allow_bad and r < 0.2:
        bd = bd + [bd[0]]
    elif allow_bad and r < 0.25:
        bd = bd + [d + int(rng.integers(0, 2))]
    return bd


def _bd_class(bd, d):
    if bd is None:
        return "none"
    if not bd:
        return "empty"
    if any(x >= d for x in bd):
        return "out-of-range"
    if len(set(bd)) < len(bd):
        return "repeated"
    if bd != sorted(bd):
        return "descending"
    return "ascending"


def _unit_batchify(ctx):
    """PeakCaller._batchify (subsets, offsets, shape of scores[subset]) vs the model's batchify; the partition clause on
    the real output: with ascending in-range batch_dims every voxel lies in exactly one subset and local index + offset is
    its global index"""
    from tme.analyzer import PeakCaller
    rng = ctx.rng("batchify")
    reqs, keep = [], []
    for it in range(ctx.budget(150, 1500)):
        d = int(rng.choice([1, 2, 2, 3, 3, 4]))
        shape = [int(x) for x in rng.choice([0, 1, 1, 2, 3, 4, 5], size=d)]
        bd = _gen_bd(rng, d)
        arr = np.arange(int(np.prod(shape)), dtype=np.int64).reshape(shape)
        try:
            got, cover = [], np.zeros(shape, dtype=np.int64)
            restored = True
            for subset, offset in PeakCaller._batchify(tuple(shape), None if bd is None else tuple(bd)):
                sel = []
                for ax, s in enumerate(subset):
                    if s == slice(None):
                        sel.append(None)
                    else:
                        assert s.step is None and s.stop == s.start + 1
                        sel.append(int(s.start))
                sub = arr[subset]
                got.append({"sel": sel, "off": [int(x) for x in offset], "shape": [int(x) for x in sub.shape]})
                cover[subset] += 1
                if sub.size:
                    loc = np.stack(np.unravel_index(np.arange(sub.size), sub.shape), axis=1) + np.array(offset)
                    restored = restored and bool((arr[tuple(loc.T)] == sub.reshape(-1)).all())
        except IndexError:
            got, cover, restored = "err:IndexError", None, None
        keep.append((shape, bd, got, cover, restored))
        reqs.append(("c05.batchify", {"shape": shape, "bd": bd}))
    for (shape, bd, got, cover, restored), m in zip(keep, _batch(ctx, reqs)):
        inp = {"kind": "batchify", "shape": shape, "bd": bd}
        ctx.agree("PeakCaller._batchify (subsets, offsets, subset shapes)", inp, got, m)
        cls = _bd_class(bd, len(shape))
        ctx.count("batchify:batch_dims=" + cls)
        if any(bd is not None and x < len(shape) and shape[x] == 1 for x in (bd or [])):
            ctx.count("batchify:batch-axis-of-extent-1")
        if cls in ("none", "empty", "ascending") and not isinstance(got, str):
            ctx.spec("the batches partition the score array and offsets restore global coordinates", inp,
                     bool((cover == 1).all()) and restored, {"subsets": len(got)}, key="_batchify:partition")
            if int(np.prod(shape)) > 1:
                ctx.distinct(("batchify", tuple(shape), tuple(bd) if bd is not None else None))


def _unit_greedy_batch(ctx):
    """filter_points_indices(..., batch_dims) (rescaling + C++ greedy pass) vs the model's filterPointsB; on the real
    output: kept rows of one batch are farther apart than min_distance, and a dropped row has a kept row of its own batch
    within min_distance"""
    from tme.analyzer import filter_points_indices
    rng = ctx.rng("greedy-batch")
    reqs, keep = [], []
    for _ in range(ctx.budget(250, 4000)):
        d = int(rng.choice([2, 2, 3, 3, 4]))
        k = int(rng.choice([0, 1, 2, 5, 9, 14]))
        span = int(rng.choice([2, 3, 5, 9]))
        md = int(rng.choice([0, 1, 1, 2, 3, 5]))
        bd = _gen_bd(rng, d)
        coords = rng.integers(0, span, size=(k, d)).astype(np.int64)
        if bd and rng.random() < 0.3:
            for x in bd:
                if x < d:
                    coords[:, x] = int(rng.integers(0, 3))      # batch axis of extent 1: one batch
        if rng.random() < 0.2:
            coords -= int(rng.integers(1, 4))                    # negative coordinates (frame of a merge offset)
        try:
            got = [int(x) for x in filter_points_indices(coordinates=coords, min_distance=md,
                                                         batch_dims=None if bd is None else tuple(bd))]
        except IndexError:
            got = "err:IndexError"
        keep.append((coords.tolist(), md, bd, got))
        reqs.append(("c05.greedyB", {"md": md, "bd": bd, "coords": coords.tolist()}))
    for (coords, md, bd, got), m in zip(keep, _batch(ctx, reqs)):
        inp = {"kind": "greedyB", "coords": coords, "md": md, "bd": bd}
        ctx.agree("filter_points_indices with batch_dims", inp, got, m)
        ctx.count("greedyB:batch_dims=" + _bd_class(bd, len(coords[0]) if coords else 9))
        if not coords:
            ctx.count("greedyB:empty")
        if isinstance(got, str) or md == 0 or not coords:
            continue
        b = [x for x in (bd or [])]
        same = lambda p, q: all(p[x] == q[x] for x in b)   # noqa: E731
        kept = [coords[i] for i in got]
        ok = all(_d2(kept[i], kept[j]) > md * md for i in range(len(kept)) for j in range(i + 1, len(kept)) if same(kept[i], kept[j]))
        ctx.spec("no two reported peaks of one batch within min_distance", inp, ok, got, key="filter_points_indices:batch:separated")
        dropped = [i for i in range(len(coords)) if i not in got]
        ok = all(any(j < i and same(coords[i], coords[j]) and _d2(coords[i], coords[j]) < (md + 1) ** 2 for j in got) for i in dropped)
        # the C++ compares the truncated root (int64): a row is suppressed iff floor(sqrt(d2)) <= md, i.e. d2 < (md+1)^2
        ctx.spec("a peak is suppressed only by a better peak of its own batch closer than min_distance + 1", inp, ok,
                 {"kept": got}, key="filter_points_indices:batch:suppressed-across-batches")
        if len(coords) > 1:
            ctx.distinct(("greedyB", md, tuple(b), hash(json.dumps(coords)) & 0xffffffff))


def _unit_bucket(ctx):
    """_filter_bucket (the path of filter_points_indices on the cupy / jax backends; called directly on numpy arrays)
    vs the model's filterBucket"""
    from tme.analyzer import _filter_bucket
    rng = ctx.rng("bucket")
    reqs, keep = [], []
    for _ in range(ctx.budget(200, 3000)):
        d = int(rng.choice([1, 2, 2, 3, 3, 4]))
        k = int(rng.choice([1, 2, 3, 6, 10, 16]))
        span = int(rng.choice([2, 4, 7, 12]))
        md = int(rng.choice([1, 1, 2, 3, 5]))
        coords = rng.integers(0, span, size=(k, d)).astype(np.int64)
        if rng.random() < 0.25:
            coords -= int(rng.integers(1, 6))
        if rng.random() < 0.2 and k > 1:
            coords[int(rng.integers(1, k))] = coords[0]          # an exact duplicate
        got = [int(x) for x in _filter_bucket(coords.copy(), md)]
        keep.append((coords.tolist(), md, got))
        reqs.append(("c05.bucket", {"md": md, "coords": coords.tolist()}))
    for (coords, md, got), m in zip(keep, _batch(ctx, reqs)):
        inp = {"kind": "bucket", "coords": coords, "md": md}
        ctx.agree("_filter_bucket", inp, got, m)
        mins = [min(c[j] for c in coords) for j in range(len(coords[0]))]
        bk = [tuple((c[j] - mins[j]) // md for j in range(len(c))) for c in coords]
        ctx.spec("rows kept by the bucket filter lie in pairwise different buckets, the first row is kept, order is kept", inp,
                 len({bk[i] for i in got}) == len(got) and got[:1] == [0] and got == sorted(got), got, key="_filter_bucket:buckets")
        ctx.count("bucket:md=%d" % md)
        if len({bk[i] for i in got}) < len(set(bk)):
            ctx.count("bucket:flattening-collision(a whole bucket lost)")
        if len(coords) > 1:
            ctx.distinct(("bucket", md, hash(json.dumps(coords)) & 0xffffffff))


def _unit_mibl(ctx):
    """C++ max_index_by_label vs the model; one representative per label, the first best row of its label"""
    from tme.extensions import max_index_by_label
    rng = ctx.rng("mibl")
    reqs, keep = [], []
    for _ in range(ctx.budget(200, 3000)):
        n = int(rng.choice([0, 1, 2, 5, 9, 20]))
        labels = rng.integers(-1, int(rng.choice([0, 1, 3, 6])) + 1, size=n).astype(rng.choice([np.int64, np.int32]))
        if rng.random() < 0.5:
            scores = rng.integers(-3, 4, size=n)
        else:
            scores = rng.permutation(2 * n + 1)[:n] - n
        sdt = rng.choice(["f4", "f8", "i8", "i4"])
        d = max_index_by_label(labels=labels, scores=scores.astype(sdt))
        got = sorted([int(a), int(b)] for a, b in d.items())
        keep.append(([int(x) for x in labels], [int(x) for x in scores], got))
        reqs.append(("c05.mibl", {"labels": keep[-1][0], "scores": keep[-1][1]}))
    for (labels, scores, got), m in zip(keep, _batch(ctx, reqs)):
        inp = {"kind": "mibl", "labels": labels, "scores": scores}
        ctx.agree("max_index_by_label", inp, got, sorted(m) if isinstance(m, list) else m)
        ok = sorted(g[0] for g in got) == sorted(set(labels)) and all(
            labels[i] == lab and scores[i] == max(s for l2, s in zip(labels, scores) if l2 == lab)
            and i == min(j for j in range(len(labels)) if labels[j] == lab and scores[j] == scores[i]) for lab, i in got)
        ctx.spec("max_index_by_label names, for every label, the first row with that label's best score", inp, ok, got,
                 key="max_index_by_label:contract")
        ctx.count("mibl:n=%d" % len(labels))
        if len(labels) > 1:
            ctx.distinct(("mibl", hash(json.dumps([labels, scores])) & 0xffffffff))


def _unit_cluster(ctx):
    """PeakClustering.merge vs the model's clusterMerge: the rows super().merge produces and DBSCAN's labels on them are
    taken from the real run (oracle), the selection of representatives and the reported tuple are the model's"""
    from sklearn.cluster import DBSCAN
    from tme import analyzer as A
    rng = ctx.rng("cluster")
    for _ in range(ctx.budget(40, 400)):
        d = int(rng.choice([3, 3, 3, 2]))
        sites = rng.integers(0, 6, size=(int(rng.integers(1, 4)), d))
        parts = []
        for _p in range(int(rng.integers(1, 4))):
            k = int(rng.choice([1, 4, 9, 12]))
            pos = sites[rng.integers(0, len(sites), size=k)].astype(np.int64)
            if rng.random() < 0.5:
                pos[int(rng.integers(0, k))] = rng.integers(6, 9, size=d)      # an isolated row: DBSCAN noise
            rot = np.stack([_rotmat(d, int(r)) for r in rng.integers(0, 5, size=k)])
            sc = (rng.permutation(40)[:k] - 10).astype(np.float64)
            parts.append((pos, rot, sc, np.full(k, -1.0)))
        n = int(rng.choice([5, 20, 1000]))
        inp = {"kind": "cluster", "d": d, "n": n,
               "parts": [[p[0].tolist(), [int(r[0, 0]) for r in p[1]], [int(s) for s in p[2]]] for p in parts]}
        mid = A.PeakCaller.merge.__func__(A.PeakClustering, candidates=[tuple(x.copy() for x in p) for p in parts], number_of_peaks=n)
        mid_c = _canon(mid)
        labels = [int(x) for x in DBSCAN(eps=np.finfo(float).eps, min_samples=8).fit(mid[0]).labels_]
        try:
            out = _canon(A.PeakClustering.merge(candidates=[tuple(x.copy() for x in p) for p in parts], number_of_peaks=n))
        except IndexError:
            out = "err:IndexError"
        m = ctx.driver.call("c05.clusterMerge", peaks=mid_c, labels=labels, byScore=False)
        ctx.agree("PeakClustering.merge (representatives given DBSCAN's labels)", {**inp, "labels": labels}, out, m)
        ctx.count("cluster:clusters=%d" % len({x for x in labels if x >= 0}))
        ctx.count("cluster:noise" if -1 in labels else "cluster:no-noise")
        if isinstance(out, list):
            pos = [tuple(p[0]) for p in out]
            ctx.spec("PeakClustering.merge reports one row per cluster and no noise row", inp,
                     len(set(pos)) == len(pos) == len({x for x in labels if x >= 0}), out[:8], key="PeakClustering:one-per-cluster")
            if out:
                ctx.distinct(("cluster", hash(json.dumps(inp["parts"])) & 0xffffffff))


def _gen_batched_case(rng, strategy):
    d = int(rng.choice([2, 3, 3]))
    shape = [int(x) for x in rng.choice([1, 2, 3, 4, 5, 6], size=d)]
    k = int(rng.integers(1, d + 1)) if rng.random() < 0.3 else 1
    bd = sorted(int(x) for x in rng.choice(d, size=k, replace=False))
    md = int(rng.choice([1, 1, 2, 3] if strategy == "fast" else [0, 1, 1, 2, 3]))
    cfg = {"n": int(rng.choice([1, 2, 3, 5, 1000])), "md": md, "mb": int(rng.choice([0, 0, 0, 1])), "lo": None, "hi": None}
    if strategy == "recursive":
        # the loop runs number_of_peaks times whatever is left (it reports masked voxels again once everything is masked;
        # with min_distance 0 nothing is masked at all): keep the count next to the voxel count of a batch
        cfg["n"] = min(cfg["n"], 5 if md == 0 else int(np.prod(shape)) + 2)
    nsub = int(rng.integers(1, 4))
    size = int(np.prod(shape))
    vals = rng.permutation(nsub * size + 3)[:nsub * size] - int(rng.choice([0, 5, nsub * size // 2]))
    if rng.random() < 0.25:
        cfg["lo"] = int(rng.choice(vals))
    if rng.random() < 0.15:
        cfg["hi"] = int(rng.choice(vals))
    subs = [{"data": [int(x) for x in vals[i * size:(i + 1) * size]], "rot": int(rng.integers(0, 5))} for i in range(nsub)]
    case = {"strategy": strategy, "cfg": cfg, "shape": shape, "bd": bd, "subs": subs}
    if rng.random() < 0.6:
        case["offset"] = [int(x) for x in rng.integers(-3, 12, size=d)]
    return case


def _check_batched(ctx, case):
    """a caller built with batch_dims: state after every call vs the model's runB; the property's clauses per batch"""
    st, cfg, shape, bd = case["strategy"], case["cfg"], case["shape"], case["bd"]
    inp = {"kind": "batched", **case}
    d = len(shape)
    states = []
    try:
        pc = _classes()[st](batch_dims=tuple(bd), **_cfg_kwargs(cfg))
        for sub in case["subs"]:
            with warnings.catch_warnings():
                warnings.simplefilter("ignore")
                pc(np.array(sub["data"], dtype=np.float64).reshape(shape), _rotmat(d, sub["rot"]))
            states.append(_canon(tuple(pc)))
    except Exception as e:
        states.append("raised:" + type(e).__name__)
    m = ctx.driver.call("c05.runB", cfg=cfg, strategy=st, bd=bd,
                        subs=[{"shape": shape, "data": s["data"], "rot": s["rot"]} for s in case["subs"]])
    ctx.count(f"batched:{st}")
    ctx.count("batched:batch-axes=%d" % len(bd))
    if any(shape[x] == 1 for x in bd):
        ctx.count("batched:batch-axis-of-extent-1")
    if any(isinstance(s, str) for s in states):
        ctx.spec("the strategy reports peaks (does not raise) for an accepted configuration", inp, False,
                 {"outcome": [s for s in states if isinstance(s, str)][0]}, key=f"{st}:batch_dims:raises")
        return
    ctx.agree("PeakCaller history with batch_dims: tuple(peak_caller) after each call", inp, states, m)
    arrs = [np.array(s["data"]).reshape(shape) for s in case["subs"]]
    for i, peaks in enumerate(states):
        batch = lambda p: tuple(p[0][x] for x in bd)   # noqa: E731
        inb = all(all(0 <= x < s for x, s in zip(p[0], shape)) for p in peaks)
        ctx.spec("every reported peak lies inside the scored volume", inp, inb, peaks[:10], key=f"{st}:batch_dims:inbounds")
        if not inb:
            continue
        src = all(any(s["rot"] == p[1] and int(a[tuple(p[0])]) == p[2] for s, a in zip(case["subs"][:i + 1], arrs)) for p in peaks)
        ctx.spec("reported score and rotation are the submitted ones at that translation", inp, src, peaks[:10],
                 key=f"{st}:batch_dims:score-rotation")
        okw = all((cfg["lo"] is None or p[2] >= cfg["lo"]) and (cfg["hi"] is None or p[2] <= cfg["hi"]) for p in peaks)
        ctx.spec("reported scores lie in the configured score window", inp, okw, peaks[:10], key=f"{st}:batch_dims:window")
        if cfg["mb"]:
            okm = all(all(ax in bd or cfg["mb"] <= x < s - cfg["mb"] for ax, (x, s) in enumerate(zip(p[0], shape))) for p in peaks)
            ctx.spec("reported peaks keep the boundary margin on the non-batch axes", inp, okm, peaks[:10], key=f"{st}:batch_dims:margin")
        if cfg["md"] >= 1:
            ok = all(_d2(p[0], q[0]) > cfg["md"] ** 2 for a_, p in enumerate(peaks) for q in peaks[a_ + 1:] if batch(p) == batch(q))
            ctx.spec("no two reported peaks of one batch within min_distance", inp, ok, peaks[:10], key=f"{st}:batch_dims:separated")
        per = {}
        for p in peaks:
            per[batch(p)] = per.get(batch(p), 0) + 1
        ctx.spec("at most number_of_peaks reported per batch", inp, all(v <= cfg["n"] for v in per.values()), per and max(per.values()),
                 key=f"{st}:batch_dims:count")
        if cfg["mb"] == 0 and cfg["lo"] is None and cfg["hi"] is None:
            M = max(int(a.max()) for a in arrs[:i + 1])
            ctx.spec("the highest-scoring translation is reported", inp, any(p[2] == M for p in peaks), {"max": M},
                     key=f"{st}:batch_dims:max-reported")
    # PeakCaller.merge with batch_dims (what scripts/postprocess.py does): one caller per submission, merged with an offset
    cls = _classes()[st]
    parts = []
    for sub in case["subs"]:
        pc1 = cls(batch_dims=tuple(bd), **_cfg_kwargs(cfg))
        with warnings.catch_warnings():
            warnings.simplefilter("ignore")
            pc1(np.array(sub["data"], dtype=np.float64).reshape(shape), _rotmat(d, sub["rot"]))
        parts.append(tuple(pc1))
    off = case.get("offset")
    try:
        kw = dict(batch_dims=tuple(bd), **_cfg_kwargs(cfg))
        if off is not None:
            kw["offset"] = np.array(off)
        merged = _canon(cls.merge(candidates=parts, **kw))
    except Exception as e:
        merged = "raised:" + type(e).__name__
    jparts = [None if len(t) == 0 else _canon(t) for t in parts]
    mm = ctx.driver.call("c05.mergeB", cfg=cfg, bd=bd, offset=off, parts=jparts)
    minp = {**inp, "merge": True}
    ctx.agree("PeakCaller.merge with batch_dims", minp, merged, mm)
    ctx.count("batched:merge:" + ("offset" if off is not None else "no-offset"))
    if isinstance(merged, list):
        o = off or [0] * d
        pool = {(tuple(x + y for x, y in zip(p[0], o)), p[1], p[2]) for t in jparts if t for p in t}
        ctx.spec("merged peaks are the partial results' peaks moved by the offset (score, rotation kept)", minp,
                 all((tuple(p[0]), p[1], p[2]) in pool for p in merged), merged[:8], key=f"{st}:batch_dims:merge:from-parts")
        if cfg["md"] >= 1:
            same = lambda p, q: all(p[0][x] == q[0][x] for x in bd)   # noqa: E731
            ok = all(_d2(p[0], q[0]) > cfg["md"] ** 2 for a_, p in enumerate(merged) for q in merged[a_ + 1:] if same(p, q))
            ctx.spec("no two reported peaks of one batch within min_distance", minp, ok, merged[:8], key=f"{st}:batch_dims:merge:separated")
    if states and states[-1] and int(np.prod(shape)) > 1:
        ctx.distinct(("batched", st, json.dumps(cfg, sort_keys=True), tuple(shape), tuple(bd),
                      hash(json.dumps(case["subs"])) & 0xffffffff))


def _batched_histories(ctx, n):
    rng = ctx.rng("batched")
    sts = ("sort", "maxfilter", "fast", "recursive")
    for i in range(n):
        _check_batched(ctx, _gen_batched_case(rng, sts[i % len(sts)]))


# --------------------------------------------------------------------------- entry points

def _dispatch(ctx, inp, model=True):
    k = inp.get("kind")
    if k == "history":
        case = {x: inp[x] for x in ("strategy", "cfg", "shape", "subs")}
        case["ties"] = inp.get("ties", True)
        for x in ("float", "pres", "scale"):
            if inp.get(x):
                case[x] = inp[x]
        _check_history(ctx, case, model=model and not inp.get("float") and not (inp.get("pres") or {}).get("mask"))
    elif k == "merge":
        _check_merge(ctx, {x: inp[x] for x in ("strategy", "cfg", "shape", "parts", "offset")} | {"repeat": inp.get("repeat", 1), "ties": inp.get("ties", False)}
                     | {x: inp[x] for x in ("offset_dt", "scan_kwargs", "zero_offset") if x in inp})
    elif k == "postprocess":
        _check_postprocess(ctx, {x: v for x, v in inp.items() if x != "kind"})
    elif k == "e2e":
        _check_e2e(ctx, {x: v for x, v in inp.items() if x != "kind"})
    elif k == "badcfg":
        _bad_configs(ctx)
    elif k == "large":
        _large_candidate_sets(ctx, ctx.budget(4, 16))
    elif k == "batched":
        _check_batched(ctx, {x: inp[x] for x in ("strategy", "cfg", "shape", "bd", "subs", "offset") if x in inp})
    elif k in ("batchify", "greedyB", "bucket", "mibl", "cluster"):
        {"batchify": _unit_batchify, "greedyB": _unit_greedy_batch, "bucket": _unit_bucket, "mibl": _unit_mibl,
         "cluster": _unit_cluster}[k](ctx)
    elif k in ("greedy", "topk", "tiles", "callpeaks"):
        _unit_greedy(ctx) if k == "greedy" else _unit_topk(ctx) if k == "topk" else _unit_tiles(ctx) if k == "tiles" else _unit_callpeaks(ctx)


def _corpus(ctx):
    from pv import env
    d = os.path.join(env.VERIF, "corpus")
    if not os.path.isdir(d):
        return
    for f in sorted(os.listdir(d)):
        if f.startswith("C05_") and f.endswith(".json"):
            rec = json.load(open(os.path.join(d, f)))
            for inp in (rec if isinstance(rec, list) else [rec]):
                _dispatch(ctx, inp)
                ctx.count("corpus")


def _large_candidate_sets(ctx, n):
    """More than 10 000 candidates in one update (what scripts/postprocess.py asks for with --minimum_score: number_of_peaks
    = int64 max).  Too large for the Lean model's driver; the separation / maximum / count clauses are evaluated directly."""
    from scipy.spatial import cKDTree
    rng = ctx.rng("large")
    for it in range(n):
        strategy = ["sort", "maxfilter", "sort", "fast"][it % 4]
        cls = _classes()[strategy]
        side = int(rng.integers(140, 170))
        shape = (side, side)
        md = int(rng.integers(2, 5))
        npk = int(side * side)            # > 10 000: every voxel may be asked for
        arr = rng.random(shape).astype(np.float32)
        cfg = {"n": npk, "md": md, "mb": 0, "lo": None, "hi": None}
        inp = {"kind": "large", "strategy": strategy, "shape": list(shape), "cfg": cfg, "seed_it": it}
        try:
            pc = cls(**_cfg_kwargs(cfg))
            with warnings.catch_warnings():
                warnings.simplefilter("ignore")
                pc(arr.copy(), _rotmat(2, 0))
            out = tuple(pc)
        except Exception as e:  # noqa
            ctx.spec("peak caller returns", inp, False, type(e).__name__ + ":" + str(e)[:80], key=f"{strategy}:raised")
            continue
        pos = np.asarray(out[0]).reshape(-1, 2).astype(np.int64)
        sc = np.asarray(out[2]).reshape(-1)
        pairs = cKDTree(pos).query_pairs(r=float(md) + 1e-9) if len(pos) > 1 else set()
        bad = next(iter(pairs), None)
        ctx.spec("no two reported peaks within min_distance", inp, not pairs,
                 {"pairs": len(pairs), "example": None if bad is None else [pos[bad[0]].tolist(), pos[bad[1]].tolist()], "reported": int(len(pos))},
                 key=f"{strategy}:separated")
        inb = bool(len(pos) == 0 or (pos.min() >= 0 and (pos < np.array(shape)).all()))
        ctx.spec("reported peaks lie inside the score map", inp, inb, key=f"{strategy}:in-bounds")
        okv = bool(len(pos) and inb and np.allclose(sc, arr[tuple(pos.T)], atol=1e-6))
        ctx.spec("reported scores are the score map's values at the reported positions", inp, okv, key=f"{strategy}:score-agrees")
        am = np.unravel_index(int(np.argmax(arr)), shape)
        ctx.spec("the highest-scoring translation is reported", inp, bool(len(pos) and (pos == np.array(am)).all(axis=1).any()),
                 {"argmax": [int(x) for x in am]}, key=f"{strategy}:max-reported")
        ctx.count("large-candidate-set:" + strategy)
        ctx.distinct(("large", strategy, side, md))


def _bad_configs(ctx):
    """configurations outside the domain (number_of_peaks <= 0, negative distances): the constructor has to reject them
    with ValueError - if it accepts one, the clause 'at most the requested number are reported' is evaluated on a run"""
    rng = ctx.rng("badcfg")
    for st, cls in _classes().items():
        for bad in ({"n": 0}, {"n": -2}, {"md": -1}, {"mb": -1}, {"n": np.int64(0)}):
            cfg = {"n": 3, "md": 1, "mb": 0, "lo": None, "hi": None, **bad}
            shape = [5, 6]
            data = [int(x) for x in rng.permutation(30)]
            jcfg = {k: (int(v) if isinstance(v, (int, np.integer)) else v) for k, v in cfg.items()}
            inp = {"kind": "badcfg", "strategy": st, "cfg": jcfg, "shape": shape, "data": data}
            ctx.count("badcfg:" + ",".join(bad))
            try:
                pc = cls(**_cfg_kwargs(cfg))
            except ValueError:
                ctx.count("badcfg:rejected")
                continue
            except Exception as e:
                ctx.spec("a configuration outside the domain is rejected with ValueError", inp, False, type(e).__name__,
                         key=f"{st}:constructor:{type(e).__name__}")
                continue
            try:
                with warnings.catch_warnings():
                    warnings.simplefilter("ignore")
                    pc(np.array(data, dtype=np.float32).reshape(shape), _rotmat(2, 1))
                got = _canon(tuple(pc))
            except Exception as e:
                got = "raised:" + type(e).__name__
            ok = isinstance(got, list) and len(got) <= max(int(cfg["n"]), 0) and "n" in bad
            ctx.spec("a caller built with number_of_peaks <= 0 / a negative distance is rejected, or reports at most "
                     "number_of_peaks peaks", inp, ok, got if isinstance(got, str) else got[:6], key=f"{st}:bad-config-accepted")


def run(ctx):
    _corpus(ctx)
    _large_candidate_sets(ctx, ctx.budget(4, 16))
    _bad_configs(ctx)
    _unit_tiles(ctx)
    _unit_greedy(ctx)
    _unit_topk(ctx)
    _unit_callpeaks(ctx)
    _unit_batchify(ctx)
    _unit_greedy_batch(ctx)
    _unit_bucket(ctx)
    _unit_mibl(ctx)
    _unit_cluster(ctx)
    _batched_histories(ctx, ctx.budget(200, 2000))
    _histories(ctx, ties=False, n=ctx.budget(300, 5000))
    _histories(ctx, ties=True, n=ctx.budget(300, 5000))
    _float_histories(ctx, ctx.budget(200, 3000))
    _scaled_histories(ctx, ctx.budget(400, 5000))
    _mask_histories(ctx, ctx.budget(50, 500))
    _merges(ctx, ctx.budget(120, 2000))
    _postprocess(ctx, ctx.budget(120, 1500))
    _e2e(ctx, ctx.budget(18, 150))
    _e2e_jobs(ctx, ctx.budget(10, 60))


def search(ctx):
    """something no longer corresponds: evaluate the property's clauses on a wider, smaller-input stream
    (first the inputs where the correspondence differed)."""
    for d in list(ctx.disagreements)[:40]:
        try:
            _dispatch(ctx, d["input"], model=False)
        except Exception:
            pass
    rng = ctx.rng("search")
    for i in range(ctx.budget(1500, 8000)):
        st = STRATS[i % len(STRATS)]
        if i % 5 == 0:
            case = _gen_float_case(rng, st)
        elif i % 5 == 1:
            case = _gen_scaled_case(rng, st)
        elif i % 5 == 2:
            case = _add_presentation(rng, _gen_case(rng, st, ties=bool(i % 2), small=True, model=False, mixed=bool(i % 3 == 0)))
        elif i % 35 == 3:
            case = _gen_mask_case(rng)
        else:
            case = _gen_case(rng, st, ties=bool(i % 2), small=True, model=False, mixed=bool(i % 3 == 0))
            if case["cfg"]["mb"] == 0 and i % 2:
                case["cfg"]["mb"] = int(rng.choice([1, 2]))
        try:
            _check_history(ctx, case, model=False)
        except Exception:
            ctx.count("search:crashed")
    for i in range(ctx.budget(150, 800)):
        nd = 1 if i % 3 == 0 else 2
        try:
            _check_postprocess(ctx, _pp_params(rng, nd))
        except Exception:
            ctx.count("search:crashed")
    _merges(ctx, ctx.budget(150, 600))
    _e2e(ctx, ctx.budget(12, 40))
    _e2e_jobs(ctx, ctx.budget(6, 20))


def replay(ctx, rec):
    inp = rec.get("input") or (rec.get("correspondence_disagreements") or [{}])[0].get("input")
    if inp:
        _dispatch(ctx, inp)
