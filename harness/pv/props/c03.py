"""C03 — normalised scores stay within [-1, 1]; a planted template is recovered exactly.

The theorems (Props/C03.lean) are about the score formulas of Model/C01.lean in exact arithmetic; those formulas are
tied to /repo by C01's correspondence.  This check evaluates the property's clauses on the real search (bounds,
finiteness, invariances, planted copies incl. next to the border, both precisions) and compares the planted / guard
cases with the Lean model (c01.float) and the analyzer's strict update with Model/C03.strictFold.

Every clause is evaluated over the dimensions of the property's quantifier *and* of the way the inputs reach the API:
memory layout and dtype of the arrays handed over, absolute intensity scale, constructor vs. attribute assignment,
interpolation order, numbers of inner jobs (also more jobs than rotations), analyzer options (default threshold,
memory-mapped maps), binary / soft / margin masks, target masks with holes, templates that are not cubes, rotations that
interpolate."""
import contextlib
import io
import os

import numpy as np

from .. import env
from .. import scoring as S
from ..driver import dec_float

ID = "C03"
NORMALISED = ["CORR", "CAM", "FLCSphericalMask", "FLC", "MCC"]
RULE = ("targets: integer noise, noise on offsets 0..1e3 (1e4 as a separate stream), constant and sparse regions, absolute scales 1e-9..1e3; "
        "templates random (cubes and boxes, with empty margins, larger than the target on an axis), constant templates as a separate stream; "
        "masks full / binary / soft / with an empty margin (CORR, CAM: default full mask only, as the property states), MCC target masks with "
        "holes; arrays handed over C / Fortran ordered, strided, reversed, offset views, read-only, memory-mapped, as float16/32/64, "
        "(u)int8/16/32, bool masks; constructor or attribute assignment; interpolation order 1 and 3; grid rotations and rotations that "
        "interpolate; planted copies at interior and border-adjacent positions under every sampled grid rotation, 1..4 inner jobs (also more "
        "jobs than rotations), default / sentinel threshold, memory-mapped maps; float32 and float64 backends; 2-D and 3-D. "
        "distinct = distinct (clause, score, shapes, target kind, offset, precision, planted position/rotation, presentation) tuples")
ASSUMPTIONS = ["FLCSphericalMask is exercised with masks invariant under the sampled rotations (its documented domain) wherever a planted copy is asserted",
               "'up to rounding': |s| <= 1 + tau and planted >= 1 - 10 tau with tau = 1e-3 (float32), 1e-9 (float64), plus 20 eps offset^2 in the bound stream (conditioning of E[x^2]-E[x]^2); "
               "invariance within 10 tau (float32: 2e-2 where the window variance is below 1e-3 of the target variance)",
               "the exact-arithmetic bound is Pm.C03.flc_formula_sq_le_one / Win.score_sq_le_one; float cancellation is outside it",
               "template masks have a positive sum (an all-zero mask defines no correlation)",
               "error model of the float variance E[x^2]-E[x]^2 (two FFT products, absolute error ~ 10 eps max E[x^2] over the whole target): a run in which some window has a "
               "variance that is positive but below 1e3 eps max E[x^2] is evaluated under the known-finding key ...:window-variance-below-fft-noise (|s| 1.2..2.5 observed, float32); "
               "exactly constant windows stay under the strict bound",
               "target intensities keep a spread >= 1e-6 wherever invariance / a planted value is asserted (the code's absolute low-variance guard sits at eps = 1.2e-7)",
               "a planted copy under cubic interpolation is asserted where the code keeps it exact: full-box mask for FLC, any mask for CORR / CAM / FLCSphericalMask (mask not resampled); "
               "soft (non-binary) masks are exercised for the bound only"]
TRUSTED = ["C03: IEEE rounding of the FFT pipeline is what the tolerances absorb; catastrophic cancellation is searched for, not excluded"]

TAU = {False: 1e-3, True: 1e-9}
SENTINEL = -1e30


# ----------------------------------------------------------------------------------------------------------------------
# generators
def _target(rng, ns, kind, offset):
    if kind == "noise":
        t = rng.integers(-4, 5, size=ns).astype(np.float64)
    elif kind == "gauss":
        t = rng.normal(0, 1, size=ns)
    elif kind == "constant-regions":
        t = rng.integers(-4, 5, size=ns).astype(np.float64)
        sl = tuple(slice(0, max(1, n // 2)) for n in ns)
        t[sl] = 3.0
    elif kind == "sparse":
        t = rng.integers(-4, 5, size=ns).astype(np.float64) * (rng.random(ns) < 0.15)
    else:
        t = np.zeros(ns)
    return t + offset


def _template(rng, ms):
    g = rng.integers(-4, 5, size=ms).astype(np.float64) + rng.random(ms)
    return g


def _mask(rng, ms, score):
    if score in ("CORR", "CAM") or rng.random() < 0.4:
        return np.ones(ms)
    for _ in range(20):
        m = (rng.random(ms) < 0.75).astype(np.float64)
        if m.sum() >= 4:
            return m
    return np.ones(ms)


def _soft(rng, mask):
    """a soft (non-binary) version of a binary mask: weights 0.25 / 0.5 / 1 on its support"""
    w = rng.choice([0.25, 0.5, 1.0, 1.0], size=mask.shape)
    return mask * w


def _margin_mask(ms):
    """mask with an empty one-voxel margin (needs extents >= 4 to keep at least 2 voxels per axis)"""
    m = np.zeros(ms)
    m[tuple(slice(1, s - 1) for s in ms)] = 1.0
    return m


LAYOUTS = ["C", "C", "F", "strided", "reversed", "offset", "readonly", "memmap"]
FLOAT_DT = ["float32", "float64"]
INT_DT = ["int8", "int16", "int32", "uint8", "int64"]


def _present(a, layout, dtype, role="a"):
    """the same values as `a`, stored as `dtype`, handed over with the given memory layout"""
    a = np.asarray(a).astype(dtype)
    nd = a.ndim
    rev = (slice(None, None, -1),) * nd
    if layout == "F":
        out = np.asfortranarray(a)
    elif layout == "strided":
        big = np.zeros(tuple(2 * s for s in a.shape), dtype=a.dtype)
        out = big[(slice(None, None, 2),) * nd]
        out[...] = a
    elif layout == "reversed":
        base = np.ascontiguousarray(a[rev])
        out = base[rev]
    elif layout == "offset":
        big = np.full(tuple(s + 3 for s in a.shape), 7, dtype=a.dtype)
        sl = tuple(slice(1 + (i % 2), 1 + (i % 2) + s) for i, s in enumerate(a.shape))
        big[sl] = a
        out = big[sl]
    elif layout == "readonly":
        out = a.copy()
        out.setflags(write=False)
    elif layout == "memmap":
        # the same path is written again with other content on every use (file-name keyed caches would show)
        path = os.path.join(env.scratch(), f"c03_{role}.dat")
        mm = np.memmap(path, dtype=a.dtype, mode="w+", shape=a.shape)
        mm[...] = a
        mm.flush()
        del mm
        out = np.memmap(path, dtype=a.dtype, mode="r", shape=a.shape)
    else:
        out = np.ascontiguousarray(a)
    assert out.shape == a.shape and np.array_equal(np.asarray(out), a)
    return out


def _rot2(deg):
    t = np.deg2rad(deg)
    return np.array([[np.cos(t), -np.sin(t)], [np.sin(t), np.cos(t)]])


def _random_rotation(rng, nd):
    if nd == 2:
        return _rot2(float(rng.uniform(5, 355)))
    from tme.matching_utils import euler_to_rotationmatrix
    return np.asarray(euler_to_rotationmatrix(tuple(float(x) for x in rng.uniform(10, 170, size=3))), np.float64)


# ----------------------------------------------------------------------------------------------------------------------
# running the real search
def _search(score, target, template, mask, tmask, R, double, *, pad=True, order=1, n_jobs=1, via="ctor", cb_args=None,
            record=False):
    """The real `scan` on the arrays exactly as given (no copy, no cast).  Returns (result tuple | list of per-rotation
    arrays when record, fourier padding)."""
    from tme.matching_data import MatchingData
    from tme.matching_exhaustive import scan, MATCHING_EXHAUSTIVE_REGISTER
    from tme.analyzer import MaxScoreOverRotations
    S.set_precision(double)
    try:
        with contextlib.redirect_stdout(io.StringIO()):
            if via == "ctor":
                md = MatchingData(target=target, template=template, template_mask=mask, target_mask=tmask, rotations=R)
            else:
                # everything optional assigned after construction, in the order a script would do it
                md = MatchingData(target=target, template=template)
                md.rotations = R
                if tmask is not None:
                    md.target_mask = tmask
                if mask is not None:
                    md.template_mask = mask
            setup, scoring = MATCHING_EXHAUSTIVE_REGISTER[score]
            fp = md.fourier_padding(pad_fourier=pad)
            if record:
                S.Recorder.log = []
                scan(md, setup, scoring, n_jobs=1, callback_class=S.Recorder, callback_class_args={}, pad_fourier=pad,
                     interpolation_order=order)
                res = [a for (_, a) in S.Recorder.log]
            else:
                args = {"score_threshold": SENTINEL} if cb_args is None else dict(cb_args)
                res = scan(md, setup, scoring, n_jobs=n_jobs, callback_class=MaxScoreOverRotations, callback_class_args=args,
                           pad_fourier=pad, interpolation_order=order)
    finally:
        S.set_precision(False)
    return res, tuple(tuple(int(x) for x in p) for p in fp)


def _scan(score, target, template, mask, tmask, R, double, pad=True, raw=False):
    """returns (aggregated map with never-improved voxels as NaN, rotation ids, table, fourier padding[, raw arrays])"""
    S.set_precision(double)
    try:
        dt = np.float64 if double else np.float32
        res, fp = S.run_scan(score, target, template, mask=mask, target_mask=tmask, rotations=R, pad=pad, order=1, dtype=dt)
        raws = None
        if raw:
            S.Recorder.log = []
            S.run_scan(score, target, template, mask=mask, target_mask=tmask, rotations=R, pad=pad, order=1, dtype=dt,
                       callback_class=S.Recorder, callback_args={})
            raws = [a for (_, a) in S.Recorder.log]
    finally:
        S.set_precision(False)
    sc = np.asarray(res[0], np.float64).copy()
    sc[sc <= SENTINEL / 2] = np.nan          # voxels no rotation ever improved (e.g. NaN scores never beat the threshold)
    out = (sc, np.asarray(res[2]), dict(res[3]), fp)
    return out + (raws,) if raw else out


def _sym_mask(mask, rots):
    return np.maximum.reduce([S.rotate_grid(mask, p, f) for p, f, _ in rots])


def _table_matrix(table, rid, nd):
    mat = None
    for k, v in table.items():
        if isinstance(k, (bytes, bytearray)) and int(v) == rid:
            mat = np.frombuffer(k, dtype=np.float32 if len(k) == 4 * nd * nd else np.float64).reshape(nd, nd)
        elif not isinstance(k, (bytes, bytearray)) and int(k) == rid:
            mat = np.asarray(v).reshape(nd, nd)
    return mat


def _ill_conditioned(score, target, mask, R, order, double):
    """Error model of E[x^2] - E[x]^2 formed from two FFT products: the absolute error of the computed window variance is
    ~ 10 eps max E[x^2] (FFT noise is global: it scales with the largest local second moment of the whole target, not with the
    window's own), and the score is amplified by sqrt(var / var_computed).  A window whose variance is positive but below
    1e3 eps max E[x^2] therefore has no rounding-level bound (float32: a value of 1e-3 alone in a corner window of a target of
    spread 1 gives |s| = 1.2 .. 2.5).  Returns True when some placement of some rotated mask on the zero-extended target is such
    a window.  Exactly constant windows (variance 0: the guard / noise-over-noise case) are NOT excluded.  MCC clips."""
    if score == "MCC":
        return False
    from numpy.lib.stride_tricks import sliding_window_view
    from tme.backends import backend as be
    eps = float(np.finfo(np.float64 if double else np.float32).eps)
    t = np.asarray(target, np.float64)
    if score == "CAM":
        t = (t - t.mean()) / max(float(t.std()), eps)       # the search standardises the target first
    w0 = np.asarray(mask, np.float64)
    masks = [w0]
    if score == "FLC":
        # the mask is resampled together with the template: exactly what the scoring loop weighs the target with
        masks = []
        Rm = np.asarray(R, np.float32).reshape(-1, t.ndim, t.ndim)
        for r in Rm:
            out, outm = np.zeros(w0.shape, np.float32), np.zeros(w0.shape, np.float32)
            be.rigid_transform(arr=w0.astype(np.float32), arr_mask=w0.astype(np.float32), rotation_matrix=r, out=out, out_mask=outm,
                               use_geometric_center=True, order=order)
            masks.append(np.maximum(outm.astype(np.float64), 0.0))
    ax = tuple(range(t.ndim, 2 * t.ndim))
    for w in masks:
        n = float(w.sum())
        if n <= 0:
            continue
        pad = np.pad(t, [(m - 1, m - 1) for m in w.shape])
        W = sliding_window_view(pad, w.shape)
        s1 = (W * w).sum(axis=ax) / n
        s2 = (W * W * w).sum(axis=ax) / n
        var = s2 - s1 ** 2
        emax = float(s2.max())
        if emax <= 0:
            continue
        # float64 evaluation of the exact variance: below 1e-12 emax it is indistinguishable from an exactly constant window
        if bool(((var > 1e-12 * emax) & (var < 1e3 * eps * emax)).any()):
            return True
    return False


ILL = ":window-variance-below-fft-noise"


def _failed(ctx, inp, score, exc):
    """the search raised instead of returning score maps: no finite score exists for this input"""
    ctx.spec("the search returns finite normalised scores for this input (it raised instead)", inp, False,
             {"exception": type(exc).__name__, "message": str(exc)[:300]}, key=f"{score}:finite:raised")


# ----------------------------------------------------------------------------------------------------------------------
def run(ctx):
    import time
    for part in (_bounds, _bounds_interpolated, _large_offsets, _ill_conditioned_windows, _degenerate_templates, _invariances, _planted, _strict_update,
                 _planted_interpolated):
        t0 = time.time()
        part(ctx)
        ctx.note("%s: %.1f s" % (part.__name__, time.time() - t0))


# ---------------- bounds and finiteness
def _bounds(ctx):
    rng = ctx.rng("main")
    prs = ctx.rng("bounds-presentation")
    nb = ctx.budget(70, 600)
    kinds = ["noise", "gauss", "constant-regions", "sparse", "zero"]
    scales = [1.0, 1e-9, 1e-3, 1e3, 1e-6, 1.0, 30.0]
    for it in range(nb):
        score = NORMALISED[it % 5]
        nd = 2 if it % 3 else 3
        double = bool(it % 2)
        ms = [int(x) for x in rng.integers(2, 5, size=nd)]
        ns = [int(rng.integers(m + 1, m + (9 if nd == 2 else 5))) for m in ms]
        kind = kinds[(it // 5) % 5]
        offset = float(rng.choice([0.0, 1.0, 10.0, 100.0, 1000.0]))
        if not double and offset > 10.0:
            # float32: the error of E[x^2]-E[x]^2 is ~ eps * offset^2 in absolute terms, i.e. unbounded relative to a window whose
            # own variance is small; at offset 100 that is 1e-3, enough to push a low-variance 2x2 window to |s| = 1.003 (seen once
            # in the thorough tier).  Offsets >= 1e3 are the cancellation stream below (known finding, |s| up to 1.5); in between
            # the excess is of the order of the rounding the property allows, so the bound is asserted up to offset 10 only.
            offset = 10.0
        target = _target(rng, ns, kind, offset)
        template = _template(rng, ms)
        mask = _mask(rng, ms, score)
        tmask = np.ones(ns) if score == "MCC" else None
        rots = [r for r in S.grid_rotations(nd) if S.rot_ok_for_shape(r[0], ms)]
        R = np.stack([rots[int(i)][2] for i in rng.permutation(len(rots))[:3]])
        if score == "FLCSphericalMask":
            mask = _sym_mask(mask, rots)      # the score's documented domain: rotation-invariant masks
        padf = bool(rng.random() < 0.7)
        # --- dimensions of how the input reaches the API (own random stream: the inputs above stay what they were)
        shape_case = str(prs.choice(["usual", "usual", "usual", "target==template", "template larger on axis 0"]))
        if shape_case == "target==template":
            ns = list(ms)
            target = _target(prs, ns, kind, offset)
            tmask = np.ones(ns) if score == "MCC" else None
        elif shape_case == "template larger on axis 0" and ms[0] >= 3:
            ns = [ms[0] - 1] + ns[1:]
            target = _target(prs, ns, kind, offset)
            tmask = np.ones(ns) if score == "MCC" else None
            padf = True
        else:
            shape_case = "usual"
        scale = float(scales[int(prs.integers(0, len(scales)))])
        target = target * scale                      # absolute intensity scale (offset included): 1e-9 .. 1e3
        mkind = "binary"
        if score in ("FLC", "FLCSphericalMask", "MCC") and prs.random() < 0.35:
            mask, mkind = _soft(prs, mask), "soft"
            if score == "FLCSphericalMask":
                mask = _sym_mask(mask, rots)
        if score == "MCC" and prs.random() < 0.5:
            tmask = (prs.random(ns) < 0.8).astype(np.float64)          # target mask with holes
            if tmask.sum() == 0:
                tmask[...] = 1.0
        order = int(prs.choice([1, 1, 3]))
        via = str(prs.choice(["ctor", "attr"]))
        lay = [str(prs.choice(LAYOUTS)) for _ in range(4)]
        dts = [str(prs.choice(FLOAT_DT + (["float16"] if not double and scale == 1.0 and offset <= 10 else []))) for _ in range(2)]
        mdt = str(prs.choice(FLOAT_DT + (["bool", "uint8", "int32"] if mkind == "binary" else [])))
        tmdt = str(prs.choice(FLOAT_DT + ["bool", "uint8"]))
        # "up to rounding": the variance is formed as E[x^2] - E[x]^2, whose rounding error grows with (offset / spread)^2 * eps;
        # the spread of every generated target is O(1) * scale, so the allowance is tau + 20 eps offset^2 with tau = 5e-3 (float32) /
        # 1e-9 (float64) at every scale (binary floating point is scale free; only the code's absolute guards are not)
        tau = (TAU[True] if double else 5 * TAU[False]) + 20 * float(np.finfo(np.float64 if double else np.float32).eps) * offset ** 2
        if "float16" in dts:
            tau += 0.0       # the bound is about the values the search sees; float16 storage only quantises the input
        inp = {"score": score, "ns": ns, "ms": ms, "target": kind, "offset": offset, "double": double, "mask_full": bool(mask.all()),
               "scale": scale, "mask_kind": mkind, "target_mask_holes": bool(tmask is not None and not tmask.all()), "order": order,
               "via": via, "layouts": lay, "dtypes": dts + [mdt, tmdt], "shape_case": shape_case, "pad_fourier": padf}
        try:
            raws, _ = _search(score, _present(target, lay[0], dts[0], "target"), _present(template, lay[1], dts[1], "template"),
                              _present(mask, lay[2], mdt, "mask"), None if tmask is None else _present(tmask, lay[3], tmdt, "tmask"),
                              R, double, pad=padf, order=order, via=via, record=True)
        except Exception as e:  # noqa
            _failed(ctx, inp, score, e)
            continue
        allraw = np.concatenate([a.reshape(-1) for a in raws])
        finite = bool(np.isfinite(allraw).all())
        mx = float(np.nanmax(np.abs(allraw))) if np.isfinite(allraw).any() else 0.0
        whole_constant = bool(np.ptp(target) == 0)
        ctx.spec("normalised score finite for every input (constant / empty regions included)", inp, finite,
                 {"non-finite voxels": int((~np.isfinite(allraw)).sum()), "of": int(allraw.size)},
                 key=f"{score}:finite" + (":whole-target-constant" if whole_constant else ""))
        ill = _ill_conditioned(score, np.asarray(_present(target, "C", dts[0])), np.asarray(_present(mask, "C", mdt)), R, order, double)
        inp["ill_conditioned_window"] = ill
        ctx.spec("normalised score within [-1, 1] up to rounding", inp, mx <= 1 + tau, {"max |score|": mx, "tau": tau},
                 key=f"{score}:bound" + (":float32" if not double else "") + (ILL if ill else ""), size=10 ** 6 if ill else None)
        ctx.count("bound:ill-conditioned-window" if ill else "bound:well-conditioned")
        ctx.distinct(("bound", score, tuple(ns), tuple(ms), kind, offset, double, scale, mkind, order, tuple(lay), tuple(dts)))
        ctx.count("bound:" + kind)
        ctx.count("offset:%g" % offset)
        ctx.count("scale:%g" % scale)
        ctx.count("precision:" + ("f64" if double else "f32"))
        ctx.count("mask:" + mkind)
        ctx.count("order:%d" % order)
        ctx.count("via:" + via)
        ctx.count("shape:" + shape_case)
        for x in lay:
            ctx.count("layout:" + x)
        for x in dts + [mdt]:
            ctx.count("dtype:" + x)
        if it < 2:
            ctx.sample(inp)


# ---------------- bounds under rotations that interpolate (random angles; template and mask are resampled by the library)
def _bounds_interpolated(ctx):
    rng = ctx.rng("bounds-interpolated")
    kinds = ["gauss", "noise", "sparse", "constant-regions"]
    for it in range(ctx.budget(25, 250)):
        score = NORMALISED[it % 5]
        nd = 2 if it % 3 else 3
        double = bool((it // 5) % 2)
        ms = [int(x) for x in rng.integers(4, 8 if nd == 2 else 6, size=nd)]
        ns = [int(rng.integers(m + 1, m + (10 if nd == 2 else 5))) for m in ms]
        kind = kinds[(it // 10) % 4]
        offset = float(rng.choice([0.0, 10.0, 100.0] if double else [0.0, 3.0, 10.0]))
        target = _target(rng, ns, kind, offset)
        template = _template(rng, ms) + float(rng.choice([0.0, 5.0]))
        mask = _mask(rng, ms, score)
        mkind = "binary"
        if score in ("FLC", "MCC", "FLCSphericalMask") and rng.random() < 0.3:
            mask, mkind = _soft(rng, mask), "soft"
        tmask = None
        if score == "MCC":
            tmask = np.ones(ns) if rng.random() < 0.5 else (rng.random(ns) < 0.85).astype(np.float64)
            if tmask.sum() == 0:
                tmask[...] = 1.0
        R = np.stack([_random_rotation(rng, nd) for _ in range(2)])
        order = int(rng.choice([1, 3]))
        padf = bool(rng.random() < 0.7)
        tau = (TAU[True] if double else 5 * TAU[False]) + 20 * float(np.finfo(np.float64 if double else np.float32).eps) * offset ** 2
        inp = {"score": score, "ns": ns, "ms": ms, "target": kind, "offset": offset, "double": double, "mask_kind": mkind,
               "mask_full": bool(mask.all()), "order": order, "rotations": R.tolist(), "pad_fourier": padf, "interpolated": True,
               "target_mask_holes": bool(tmask is not None and not tmask.all())}
        dt = np.float64 if double else np.float32
        try:
            raws, _ = _search(score, target.astype(dt), template.astype(dt), mask.astype(dt), None if tmask is None else tmask.astype(dt),
                              R, double, pad=padf, order=order, record=True)
        except Exception as e:  # noqa
            _failed(ctx, inp, score, e)
            continue
        allraw = np.concatenate([a.reshape(-1) for a in raws])
        finite = bool(np.isfinite(allraw).all())
        mx = float(np.nanmax(np.abs(allraw))) if np.isfinite(allraw).any() else 0.0
        ctx.spec("normalised score finite under rotations that interpolate", inp, finite,
                 {"non-finite voxels": int((~np.isfinite(allraw)).sum()), "of": int(allraw.size)}, key=f"{score}:finite:interpolated-rotation")
        # CORR / CAM rotate the standardised template without centring it again: with an interpolating rotation its sum is no
        # longer zero and the local mean of the target leaks into the numerator (known finding, own key)
        ill = score not in ("CORR", "CAM") and _ill_conditioned(score, target.astype(dt), mask.astype(dt), R, order, double)
        inp["ill_conditioned_window"] = ill
        ctx.spec("normalised score within [-1, 1] up to rounding under rotations that interpolate", inp, mx <= 1 + tau,
                 {"max |score|": mx, "tau": tau},
                 key=(f"{score}:bound" + (":float32" if not double else "") + ILL) if ill else f"{score}:bound:interpolated-rotation",
                 size=10 ** 6 if (ill or score in ("CORR", "CAM")) else None)
        ctx.distinct(("bound-interp", score, tuple(ns), tuple(ms), kind, offset, double, order, mkind))
        ctx.count("bound-interpolated:" + score)


# ---------------- large offsets in single precision (catastrophic cancellation in E[x^2] - E[x]^2)
def _large_offsets(ctx):
    rng = ctx.rng("large-offsets")
    for it in range(ctx.budget(12, 60)):
        score = ["FLC", "FLCSphericalMask", "CORR", "CAM", "MCC"][it % 5]
        ns = [int(x) for x in rng.integers(20, 40, size=2)]
        ms = [int(x) for x in rng.integers(3, 8, size=2)]
        off = float([1e3, 1e4][(it // 5) % 2])
        target = rng.normal(0, 1, size=ns) + off
        template = rng.normal(0, 1, size=ms)
        sc, _, _, _ = _scan(score, target, template, np.ones(ms), np.ones(ns) if score == "MCC" else None, np.eye(2)[None], False)
        mx = float(np.nanmax(np.abs(sc))) if np.isfinite(sc).any() else 0.0
        ctx.spec("normalised score within [-1, 1] up to rounding (target offset >= 1e3, float32)",
                 {"score": score, "ns": ns, "ms": ms, "offset": off, "double": False}, mx <= 1 + 1e-3, {"max |score|": mx},
                 key=f"{score}:bound:float32:offset>=1e3", size=10 ** 6)
        ctx.count("offset:>=1e3:float32")
        ctx.distinct(("offset-f32", score, tuple(ns), tuple(ms), off))


# ---------------- float32: a window whose variance is positive but below the FFT noise of the second moment (known finding)
def _ill_conditioned_windows(ctx):
    rng = ctx.rng("ill-conditioned-windows")
    for it in range(ctx.budget(8, 40)):
        score = ["CORR", "CAM", "FLCSphericalMask", "FLC"][it % 4]
        ns, ms = [int(x) for x in rng.integers(6, 9, size=2)], [3, 3]
        target = rng.normal(1, 1, size=ns)
        v = float(rng.choice([1e-3, -1e-3, 3e-4, 2e-3]))
        target[0:2, 0:2] = [[v, 0.0], [0.0, 0.0]]           # the corner window (template centre on voxel (0, 0)) sees v and zeros only
        template = _template(rng, ms)
        inp = {"score": score, "ns": ns, "ms": ms, "double": False, "corner_value": v, "target": "N(1,1), corner block [[v,0],[0,0]]"}
        try:
            raws, _ = _search(score, target.astype(np.float32), template.astype(np.float32), np.ones(ms, np.float32), None, np.eye(2)[None],
                              False, record=True)
        except Exception as e:  # noqa
            _failed(ctx, inp, score, e)
            continue
        a = np.concatenate([x.reshape(-1) for x in raws])
        ill = _ill_conditioned(score, target.astype(np.float32), np.ones(ms), np.eye(2)[None], 1, False)
        ctx.spec("normalised score finite (window variance below the FFT noise)", inp, bool(np.isfinite(a).all()), None, key=f"{score}:finite")
        mx = float(np.nanmax(np.abs(a)))
        ctx.spec("normalised score within [-1, 1] up to rounding (float32, a window whose variance is below the FFT noise of E[x^2])", inp,
                 mx <= 1 + 5 * TAU[False], {"max |score|": mx, "classified ill-conditioned": ill},
                 key=f"{score}:bound:float32" + (ILL if ill else ""), size=10 ** 6)
        ctx.count("ill-conditioned-window:" + score)
        ctx.distinct(("ill", score, tuple(ns), v, it))


# ---------------- templates without spread (constant, constant under the mask): "finite for any input"
def _degenerate_templates(ctx):
    rng = ctx.rng("degenerate-templates")
    for it in range(ctx.budget(15, 100)):
        score = NORMALISED[it % 5]
        nd = 2 if it % 2 else 3
        double = bool((it // 5) % 2)
        ms = [int(x) for x in rng.integers(2, 5, size=nd)]
        ns = [int(rng.integers(m + 1, m + 6)) for m in ms]
        case = ["constant", "constant under the mask", "zero"][(it // 5) % 3]
        value = float(rng.choice([2.0, -3.0, 0.5, 1.0]))       # exactly representable: mean and variance are computed exactly
        mask = np.ones(ms)
        template = np.full(ms, value)
        if case == "zero":
            template = np.zeros(ms)
        elif case == "constant under the mask" and score not in ("CORR", "CAM"):
            mask = _mask(rng, ms, score)
            if mask.all():
                mask[(0,) * nd] = 0.0
            template = np.where(mask > 0, value, _template(rng, ms))
        rots = [r for r in S.grid_rotations(nd) if S.rot_ok_for_shape(r[0], ms)]
        if score == "FLCSphericalMask" and not mask.all():
            mask = _sym_mask(mask, rots)
            template = np.where(mask > 0, value, template)
        R = np.stack([rots[int(i)][2] for i in rng.permutation(len(rots))[:2]])
        target = _target(rng, ns, ["gauss", "noise", "sparse"][it % 3], float(rng.choice([0.0, 5.0])))
        tmask = np.ones(ns) if score == "MCC" else None
        dt = np.float64 if double else np.float32
        inp = {"score": score, "ns": ns, "ms": ms, "template": case, "value": value, "double": double, "mask_full": bool(mask.all())}
        try:
            raws, _ = _search(score, target.astype(dt), template.astype(dt), mask.astype(dt), None if tmask is None else tmask.astype(dt),
                              R, double, pad=bool(it % 2), order=1, record=True)
        except Exception as e:  # noqa
            _failed(ctx, inp, score, e)
            continue
        allraw = np.concatenate([a.reshape(-1) for a in raws])
        finite = bool(np.isfinite(allraw).all())
        mx = float(np.nanmax(np.abs(allraw))) if np.isfinite(allraw).any() else 0.0
        ctx.spec("normalised score finite for a template without spread (constant / constant under the mask)", inp, finite,
                 {"non-finite voxels": int((~np.isfinite(allraw)).sum()), "of": int(allraw.size)}, key="finite:template-without-spread")
        ctx.spec("normalised score within [-1, 1] for a template without spread", inp, mx <= 1 + (TAU[True] if double else 5 * TAU[False]),
                 {"max |score|": mx}, key="bound:template-without-spread")
        ctx.distinct(("degenerate", score, tuple(ns), tuple(ms), case, value, double))
        ctx.count("template-without-spread:" + case)


# ---------------- invariances
def _invariances(ctx):
    rng = ctx.rng("invariances")
    ni = ctx.budget(30, 300)
    for it in range(ni):
        score = NORMALISED[it % 5]
        nd = 2 if it % 2 else 3
        double = bool(it % 2)
        ms = [int(x) for x in rng.integers(2, 5, size=nd)]
        ns = [int(rng.integers(m + 2, m + (8 if nd == 2 else 5))) for m in ms]
        target = _target(rng, ns, "gauss", 0.0) + rng.integers(-4, 5, size=ns)
        template = _template(rng, ms)
        mask = _mask(rng, ms, score)
        tmask = np.ones(ns) if score == "MCC" else None
        rots = [r for r in S.grid_rotations(nd) if S.rot_ok_for_shape(r[0], ms)]
        if it % 3 == 0:
            R = np.eye(nd)[None]
        else:
            # the invariance holds per rotation; the aggregated map over a few grid rotations is compared
            if score == "FLCSphericalMask":
                mask = _sym_mask(mask, rots)
            R = np.stack([rots[int(i)][2] for i in rng.permutation(len(rots))[:2]])
        # every score meets every scale (small absolute intensities move windows towards the eps guard)
        c1 = [0.5, 1e-8, 2.0, 1e-3, 100.0, 7.0, 1e-6, 3e3][(it // 5) % 8]     # (1e-8: spread below float32 eps, far above underflow)
        c2 = [1e-4, 3.0, 1e3, 0.25, 50.0][(it // 5) % 5]
        off = float([-3.0, 400.0, 1.0, -2000.0, 20.0][(it // 5 + it) % 5])   # incl. offsets of hundreds of template deviations
        base, _, _, _ = _scan(score, target, template, mask, tmask, R, double)
        s_t, _, _, _ = _scan(score, target, template * c1, mask, tmask, R, double)
        s_o, _, _, _ = _scan(score, target, template + off, mask, tmask, R, double)
        s_f, _, _, _ = _scan(score, target * c2, template, mask, tmask, R, double)
        inp = {"score": score, "ns": ns, "ms": ms, "double": double, "c_template": c1, "offset_template": off, "c_target": c2,
               "mask_full": bool(mask.all()), "n_rot": int(len(R))}
        # windows with (near) zero variance sit in the guard branch, where eps makes the value scale dependent
        stable = np.ones(ns, bool)
        for (pp, ff, RR) in rots:
            if any(np.allclose(RR, r_) for r_ in R):
                wv = S.window_var(target, S.rotate_grid(mask, pp, ff))
                stable &= wv > 1e-6 * max(wv.max(), 1e-30)
        for name, arr in (("template scaled by c>0", s_t), ("template offset", s_o), ("target scaled by c>0", s_f)):
            both = stable & ~np.isnan(arr) & ~np.isnan(base)
            dd = float(np.max(np.abs(arr - base)[both])) if both.any() else 0.0
            lost = bool((np.isnan(arr) != np.isnan(base))[stable].any())
            # the template is standardised after its mean has been removed, so an offset costs ~1e-5 even at 2000 (float32):
            # tau itself is the allowance there, not 10 tau
            tol = TAU[double] if name == "template offset" else 10 * TAU[double]
            ctx.spec(f"score unchanged: {name}", inp, dd <= tol and not lost, {"max diff": dd, "tol": tol, "voxels scored in one run only": lost},
                     key=f"{score}:invariance:{name.split()[0]}-{name.split()[1]}")
        ctx.distinct(("inv", score, tuple(ns), tuple(ms), c1, c2, off, double, len(R)))
        ctx.count("invariance:" + score)
        ctx.count("invariance:n_rot=%d" % len(R))


# ---------------- planted copies
def _planted(ctx):
    d = ctx.driver
    rng = ctx.rng("planted")
    npl = ctx.budget(60, 400)
    prev_shapes = {}
    for it in range(npl):
        score = NORMALISED[it % 5]
        nd = 2 if it % 2 else 3
        double = bool((it // 5) % 2)
        # template extents: cubes (3, 4 and the round-half-even traps 5, 9, 13) and, every fourth case, boxes that are not cubes
        if it % 4 == 3:
            ms = [int(x) for x in rng.integers(3, 7 if nd == 2 else 6, size=nd)]
            if len(set(ms)) == 1:
                ms[0] += 1
        else:
            m = int(rng.integers(3, 5)) if it % 3 else int(rng.choice([5, 6, 5, 9, 13] if nd == 2 else [5, 5, 6]))
            ms = [m] * nd
        ns = [int(rng.integers(2 * m + 1, 2 * m + (7 if nd == 2 else 4))) for m in ms]
        if nd in prev_shapes and it % 5 == 4:
            ns, ms = prev_shapes[nd]        # the same shapes again with other content (shape keyed state would show)
        prev_shapes[nd] = (list(ns), list(ms))
        vclass = "int" if it % 6 == 5 else "float"          # integer valued arrays can be handed over as integer dtypes
        template = _template(rng, ms)
        if vclass == "int":
            template = np.round(template)
            if np.ptp(template) == 0:
                template[(0,) * nd] += 1
        margin = bool(it % 7 == 6 and min(ms) >= 4)
        mask = _mask(rng, ms, score)
        mkind = "full" if mask.all() else "binary"
        if margin:
            # template with an empty margin: the density lives in the inner box; the mask (where one is allowed) follows it
            inner = _margin_mask(ms)
            template = template * inner
            if score not in ("CORR", "CAM"):
                mask, mkind = inner, "margin"
        padf = bool((it // 2) % 2 == 0)        # with and without Fourier padding (the copy lies inside the target either way)
        rots = [r for r in S.grid_rotations(nd) if S.rot_ok_for_shape(r[0], ms)]
        # (soft masks: the code multiplies the template by the mask before and after standardising it, so a window equal to the
        # template is not an exact copy of what is correlated - bounds only, see _bounds)
        if score == "FLCSphericalMask":
            mask = _sym_mask(mask, rots)
        sel = rng.permutation(len(rots))[: min(len(rots), int(rng.integers(1, 5 if nd == 2 else 8)))]
        R = np.stack([rots[int(i)][2] for i in sel])
        which = int(rng.integers(0, len(sel)))
        njobs_ = [1, 2, 2, 1, 3, 3, 1, 4, 4, 1, 1, 1][(it // 5) % 12]      # (the job count used below)
        if njobs_ > 1 and len(sel) % njobs_ and len(sel) > njobs_:
            which = len(sel) - 1       # the planted rotation is one of those only the last job's remainder covers
        perm, flip, _ = rots[int(sel[which])]
        gR = S.rotate_grid(template, perm, flip)
        # position p = translation of the template voxel m//2; the copy occupies [p - m//2, p - m//2 + m)
        border = bool(it % 3 == 0)
        p = []
        for n, m in zip(ns, ms):
            lo, hi = m // 2, n - 1 - (m - 1) // 2
            p.append(int(rng.choice([lo, hi])) if border else int(rng.integers(lo, hi + 1)))
        if vclass == "int":
            target = rng.integers(-6, 7, size=ns).astype(np.float64) + float(rng.choice([0.0, 5.0]))
        else:
            target = rng.normal(0, 1, size=ns) * 2.0 + float(rng.choice([0.0, 5.0]))
        sl = tuple(slice(pi - m // 2, pi - m // 2 + m) for pi, m in zip(p, ms))
        target[sl] = gR
        tmask = np.ones(ns) if score == "MCC" else None
        if score == "MCC" and it % 2 == 0:
            tmask = (rng.random(ns) < 0.85).astype(np.float64)     # holes in the target mask, none of them under the copy
            tmask[sl] = 1.0
        # absolute intensity scales (float valued inputs only): template and target independently
        c_t = c_g = 1.0
        if vclass == "float":
            # every score meets every scale in both precisions (blocks of five iterations = one per score; precision alternates per block)
            c_t = [1.0, 1e-6, 1e-3, 1e3, 50.0][(it // 10) % 5]
            c_g = [1e-3, 1e-9, 1.0, 1e3, 7.0, 1e-6][(it // 10) % 6]
        # rotations spread over inner jobs and merged; the number of rotations (1..6) is often not a multiple of the number of jobs
        # and sometimes smaller.  Equal job counts come in blocks: every change of the count restarts the worker pool (~2 s).
        njobs = [1, 2, 2, 1, 3, 3, 1, 4, 4, 1, 1, 1][(it // 5) % 12]
        # cubic interpolation resamples the mask without prefilter, i.e. smooths it ((1,4,1)/6 per axis even for a grid rotation): FLC
        # then weighs voxels next to the mask's support, where the standardised template was zeroed, and MCC is inflated to its clip
        # (ties at 1).  A copy is exact under order 3 for the full-box mask (FLC), and for CORR / CAM / FLCSphericalMask, whose mask is
        # not resampled.
        order = 3 if (it // 5) % 3 == 1 and score != "MCC" and (score != "FLC" or mkind == "full") else 1
        via = "attr" if it % 4 == 2 else "ctor"
        cb = None
        cbname = "sentinel"
        if it % 6 == 1:
            cb, cbname = {}, "default"                      # the analyzer's default threshold (0)
        elif it % 6 == 4:
            cb, cbname = {"score_threshold": SENTINEL, "use_memmap": True}, "memmap"
        lay = [str(rng.choice(LAYOUTS)) for _ in range(4)]
        if vclass == "int":
            lo_ok = target.min() >= 0 and template.min() >= 0
            pool = FLOAT_DT + INT_DT if lo_ok else FLOAT_DT + [x for x in INT_DT if x != "uint8"]
            dts = [str(rng.choice(pool)) for _ in range(2)]
        else:
            dts = [str(rng.choice(FLOAT_DT)) for _ in range(2)]
        mdt = str(rng.choice(FLOAT_DT + (["bool", "uint8", "int32"] if mkind != "soft" else [])))
        tau = TAU[double]
        # CORR / CAM: the default full-box mask is also reached by leaving the argument out
        mask_arg = None if (score in ("CORR", "CAM") and it % 2) else _present(mask, lay[2], mdt, "mask")
        Rarg = R.astype(np.float32) if it % 3 else R.astype(np.float64)
        if len(sel) == 1 and it % 2:
            Rarg = Rarg[0]                       # a single rotation given as a (d, d) matrix
        inp = {"score": score, "ns": ns, "ms": ms, "planted_at": p, "n_jobs": njobs, "border": border, "rotation": {"perm": perm, "flip": flip},
               "n_rot": int(len(sel)), "double": double, "mask_full": bool(mask.all()), "mask_kind": mkind, "pad_fourier": padf,
               "order": order, "via": via, "analyzer": cbname, "layouts": lay, "dtypes": dts + [mdt], "values": vclass,
               "c_target": c_t, "c_template": c_g, "target_mask_holes": bool(tmask is not None and not tmask.all())}
        try:
            res, fp = _search(score, _present(target * c_t, lay[0], dts[0], "target"), _present(template * c_g, lay[1], dts[1], "template"),
                              mask_arg, None if tmask is None else _present(tmask, lay[3], "float32", "tmask"),
                              Rarg, double, pad=padf, order=order, n_jobs=njobs, via=via, cb_args=cb)
        except Exception as e:  # noqa
            _failed(ctx, inp, score, e)
            continue
        if res is None:
            _failed(ctx, inp, score, RuntimeError("scan returned None"))
            continue
        sc = np.asarray(res[0], np.float64).copy()
        if cbname != "default":
            sc[sc <= SENTINEL / 2] = np.nan
        rot_ids, table = np.asarray(res[2]), dict(res[3])
        ctx.spec("score and rotation maps have the target's shape", inp, list(sc.shape) == list(ns) and list(rot_ids.shape) == list(ns),
                 {"scores": list(sc.shape), "rotations": list(rot_ids.shape)}, key=f"{score}:planted:shape")
        if list(sc.shape) != list(ns) or not np.isfinite(sc).any():
            ctx.spec("planted copy: highest score of the whole search is at the planted position", inp, False,
                     {"finite scores": int(np.isfinite(sc).sum())}, key=f"{score}:planted:position")
            continue
        best = np.unravel_index(int(np.nanargmax(sc)), sc.shape)
        at_p = float(sc[tuple(p)])
        okpos = [int(x) for x in best] == p or abs(at_p - np.nanmax(sc)) <= tau
        ctx.spec("planted copy: highest score of the whole search is at the planted position", inp, bool(okpos),
                 {"argmax": [int(x) for x in best], "score at planted": at_p, "max": float(np.nanmax(sc))},
                 key=f"{score}:planted:position")
        ctx.spec("planted copy: score close to 1", inp, bool(at_p >= 1 - 10 * tau), {"score at planted": at_p},
                 key=f"{score}:planted:value")
        ill = _ill_conditioned(score, np.asarray(_present(target * c_t, "C", dts[0])), mask, R, order, double)
        inp["ill_conditioned_window"] = ill
        ctx.spec("every aggregated score is finite and within [-1, 1] up to rounding", inp,
                 bool(np.nanmax(np.abs(sc)) <= 1 + (tau if double else 5 * tau) + 20 * float(np.finfo(np.float64 if double else np.float32).eps) * 25.0),
                 {"max |score|": float(np.nanmax(np.abs(sc)))}, key=f"{score}:bound" + (":float32" if not double else "") + (ILL if ill else ""),
                 size=10 ** 6 if ill else None)
        # reported rotation
        rid = int(rot_ids[tuple(p)])
        mat = _table_matrix(table, rid, nd)
        same_rot = mat is not None and np.allclose(mat, R[which], atol=1e-6)
        if mat is not None and not same_rot:
            # another sampled rotation may map the (masked) template onto itself: accept when it reproduces the copy
            for (pp, ff, RR) in rots:
                if np.allclose(RR, mat, atol=1e-6) and any(np.allclose(RR, r_, atol=1e-6) for r_ in R):
                    same_rot = bool(np.allclose(S.rotate_grid(template, pp, ff) * S.rotate_grid(mask, pp, ff), gR * S.rotate_grid(mask, perm, flip)))
        ctx.spec("planted copy: reported with the planted rotation", inp, bool(same_rot), {"id": rid, "reported": None if mat is None else mat.tolist()},
                 key=f"{score}:planted:rotation")
        # the Lean model on the same input: planted value is 1 there as well (tie of the formulas used by the theorems)
        if it % 4 == 0 and score != "MCC" and order == 1 and mkind != "soft" and len(set(ms)) == 1:
            eps = float(np.finfo(np.float64 if double else np.float32).eps)
            r = d.call("c01.float", what="spec", score=score, pad=padf, mode="same", ns=ns, ms=ms, Ns=[int(x) for x in fp[1]],
                       perm=perm, flip=flip, eps=eps, order=1, target=(target * c_t).reshape(-1).tolist(), template=(template * c_g).reshape(-1).tolist(),
                       mask=mask.reshape(-1).tolist())
            mv = np.array([dec_float(x) for x in r]).reshape(ns)
            ctx.agree("Lean score formula at the planted position == 1 (and == real score)", inp,
                      bool(abs(mv[tuple(p)] - 1) <= 1e-9 and abs(mv[tuple(p)] - sc[tuple(p)]) <= 10 * tau), True)
        ctx.distinct(("planted", score, tuple(ns), tuple(ms), tuple(p), tuple(perm), tuple(flip), double, border, njobs, order, cbname, tuple(lay), tuple(dts)))
        ctx.count("planted:" + ("border" if border else "interior"))
        ctx.count("planted:" + score)
        ctx.count("planted:n_jobs=%d" % njobs + (">n_rot" if njobs > len(sel) else ""))
        ctx.count("planted:analyzer=" + cbname)
        ctx.count("planted:order=%d" % order)
        ctx.count("planted:mask=" + mkind)
        ctx.count("planted:values=" + vclass)
        ctx.count("planted:c_target=%g:%s" % (c_t, "f64" if double else "f32"))
        ctx.count("planted:c_template=%g" % c_g)
        ctx.count("planted:template=" + ("cube" if len(set(ms)) == 1 else "box"))
        if it < 2:
            ctx.sample(inp)


# ---------------- the analyzer's strict update against Model/C03.strictFold (ties, scores equal to the threshold)
def _strict_update(ctx):
    from multiprocessing.managers import SharedMemoryManager
    from tme.analyzer import MaxScoreOverRotations
    from tme.backends import backend as be
    d = ctx.driver
    rng = ctx.rng("strict-update")
    reqs, impls, inps = [], [], []
    with SharedMemoryManager() as smh:
        for it in range(ctx.budget(24, 200)):
            nd = int(rng.integers(1, 4))
            shape = [int(x) for x in rng.integers(1, 5, size=nd)]
            size = int(np.prod(shape))
            nrot = int(rng.integers(1, 7))
            thr = int(rng.choice([0, -3, 2]))
            maps = [rng.integers(-4, 5, size=shape) for _ in range(nrot)]        # few distinct values: ties everywhere
            # rotation matrices: distinct, except that a rotation may be submitted twice (same table entry)
            mats = [np.eye(max(nd, 2), dtype=np.float32) * (k + 1) for k in range(nrot)]
            first = list(range(nrot))
            if nrot >= 3 and it % 3 == 0:
                mats[nrot - 1] = mats[0]
                first[nrot - 1] = 0
            how = ["analyzer", "backend", "merge"][it % 3]
            inp = {"shape": shape, "n_rot": nrot, "threshold": thr, "how": how, "maps": [m.reshape(-1).tolist() for m in maps],
                   "rotation_of_submission": first}
            try:
                if how == "backend":
                    best = np.full(shape, float(thr), np.float32)
                    ids = np.full(shape, -1, np.int32)
                    for r in range(nrot):
                        be.max_score_over_rotations(scores=maps[r].astype(np.float32), max_scores=best, rotations=ids, rotation_index=first[r])
                    got_v, got_i = best.astype(int).reshape(-1).tolist(), ids.astype(int).reshape(-1).tolist()
                else:
                    def one(rs):
                        a = MaxScoreOverRotations(shape=tuple(shape), score_threshold=thr, thread_safe=False, shared_memory_handler=smh)
                        for r in rs:
                            a(scores=maps[r].astype(np.float32), rotation_matrix=mats[r])
                        return tuple(a)
                    if how == "analyzer" or nrot < 2:
                        store = one(range(nrot))
                    else:
                        cut = int(rng.integers(1, nrot))
                        store = MaxScoreOverRotations.merge([one(range(cut)), one(range(cut, nrot))], score_threshold=thr)
                    sc, _, rot, table = store
                    back = {int(v): k for k, v in table.items()}
                    key_of = {mats[r].tobytes(): first[r] for r in range(nrot)}
                    got_v = np.asarray(sc).astype(int).reshape(-1).tolist()
                    got_i = [(-1 if int(x) == -1 else key_of.get(back.get(int(x)), -99)) for x in np.asarray(rot).reshape(-1)]
            except Exception as e:  # noqa
                ctx.agree("strict update == Model/C03.strictFoldMaps", inp, "raised " + type(e).__name__ + ": " + str(e)[:200], "values")
                continue
            reqs.append(("c03.strictFoldMaps", {"thr": thr, "size": size, "ids": first, "maps": [m.reshape(-1).tolist() for m in maps]}))
            impls.append({"values": got_v, "ids": got_i})
            inps.append(inp)
            ctx.count("strict-update:" + how)
            ctx.distinct(("strict", tuple(shape), nrot, thr, how, it))
    for inp, impl, model in zip(inps, impls, d.batch(reqs)):
        ctx.agree("strict update (max_score_over_rotations / MaxScoreOverRotations / merge) == Model/C03.strictFoldMaps", inp, impl, model)
        # the same statement as a clause of the property: the reported rotation is one that attains the highest score of the voxel
        maps = np.array(inp["maps"])
        rot_of = np.array(inp["rotation_of_submission"])
        ok = True
        for k, (v, i) in enumerate(zip(impl["values"], impl["ids"])):
            col = maps[:, k]
            if col.max() <= inp["threshold"]:
                ok &= (v == inp["threshold"] and i == -1)
            else:
                ok &= (v == col.max() and i >= 0 and bool((rot_of == i).any()) and col[rot_of == i].max() == col.max())
        ctx.spec("every voxel keeps the highest submitted score and reports a rotation that attains it", inp, bool(ok), impl,
                 key="aggregate:highest-score-and-its-rotation")


# ---------------- planted copies under rotations that are NOT grid rotations (interpolated by the library itself)
# The copy is produced with the backend's own rigid_transform, added on a target with a non-zero background level; the
# default full-box mask (FLC) is clipped by such rotations, the spherical one (FLCSphericalMask) is not.
def _planted_interpolated(ctx):
    from tme.backends import backend as be
    from tme.matching_utils import euler_to_rotationmatrix
    rng = ctx.rng("planted-interpolated")

    def blobs(shape, r):
        grid = np.indices(shape).astype(np.float64)
        out = np.zeros(shape)
        for _ in range(4 * len(shape)):
            c = [r.uniform(1.0, s_ - 2.0) for s_ in shape]
            sg = r.uniform(1.0, 1.8)
            out += r.uniform(0.5, 1.5) * np.exp(-sum((g - ci) ** 2 for g, ci in zip(grid, c)) / (2 * sg ** 2))
        return out

    def far_apart(mats, deg=25.0):
        for i in range(len(mats)):
            for j in range(i):
                c = (np.trace(mats[i].T @ mats[j]) - (1 if len(mats[i]) == 3 else 0)) / 2
                if np.degrees(np.arccos(np.clip(c, -1, 1))) < deg:
                    return False
        return True
    nir = ctx.budget(6, 40)
    for it in range(nir):
        nd = 2 if it % 2 else 3
        # FLC with its default full-box mask: template and mask are rotated together, so the window under the rotated mask
        # IS the rotated template.  (FLCSphericalMask keeps the mask fixed and interpolates the masked template across the
        # mask edge: there "a copy" is only approximate and a neighbouring rotation can win - not asserted here.)
        score = "FLC"
        m = int(rng.integers(12, 17)) if nd == 2 else int(rng.integers(9, 12))
        ms = [m] * nd
        ns = [int(rng.integers(3 * m, 3 * m + 6)) for _ in range(nd)]
        template = blobs(ms, rng)
        mask = np.ones(ms)
        if nd == 2:
            a0 = float(rng.uniform(25, 95))
            angles = [(a0,), (a0 + 120.0,), (a0 + 240.0,)]
            mats = [np.eye(2)] + [_rot2(a[0]) for a in angles]
        else:
            mats = None
            for _ in range(200):
                angles = [tuple(float(x) for x in rng.uniform(15, 165, size=3)) for _ in range(3)]
                cand = [np.eye(3)] + [euler_to_rotationmatrix(a) for a in angles]
                if far_apart([np.asarray(x, np.float64) for x in cand], 30.0):
                    mats = cand
                    break
            if mats is None:
                angles = [(45.0, 0.0, 0.0), (30.0, 40.0, 70.0), (100.0, 80.0, 20.0)]
                mats = [np.eye(3)] + [euler_to_rotationmatrix(a) for a in angles]
        R = np.stack(mats).astype(np.float32)
        which = 1 + it % (len(mats) - 1)
        plant = np.zeros(ms, np.float32)
        be.rigid_transform(arr=(template * mask).astype(np.float32), rotation_matrix=R[which], out=plant, use_geometric_center=True, order=3)
        p = [int(rng.integers(m, n - m)) for n in ns]
        level = float(rng.choice([3.0, -2.0, 10.0]))
        target = rng.normal(level, 0.05, size=ns)
        sl = tuple(slice(pi - m // 2, pi - m // 2 + m) for pi in p)
        target[sl] += plant
        res, fp = S.run_scan(score, target, template, mask=None if score == "FLC" else mask, rotations=R, pad=True, order=3, dtype=np.float32)
        sc = np.asarray(res[0], np.float64).copy()
        sc[sc <= SENTINEL / 2] = np.nan
        rot_ids, table = np.asarray(res[2]), dict(res[3])
        best = [int(x) for x in np.unravel_index(int(np.nanargmax(sc)), sc.shape)]
        rid = int(rot_ids[tuple(best)])
        mat = _table_matrix(table, rid, nd)
        inp = {"score": score, "ns": ns, "ms": ms, "planted_at": p, "rotation_matrix": R[which].tolist(), "background": level,
               "interpolated": True, "seed_state": int(it)}
        ctx.spec("planted copy (interpolated rotation): highest score at the planted position, value ~ 1, planted rotation", inp,
                 bool(best == p and np.nanmax(sc) >= 0.9 and mat is not None and np.allclose(mat, R[which], atol=1e-6)),
                 {"argmax": best, "max": float(np.nanmax(sc)), "score at planted": float(sc[tuple(p)]),
                  "rotation reported": None if mat is None else mat.tolist()}, key=f"{score}:planted-interpolated")
        ctx.spec("every score of the run is finite and within [-1, 1] up to rounding", inp,
                 bool(np.all(np.isfinite(sc[~np.isnan(sc)])) and np.nanmax(np.abs(sc)) <= 1 + TAU[False]),
                 {"max|s|": float(np.nanmax(np.abs(sc)))}, key=f"{score}:bound:interpolated")
        ctx.distinct(("planted-interp", score, tuple(ns), tuple(p), which, level))
        ctx.count("planted-interpolated:" + score)
