"""C03 — normalised scores stay within [-1, 1]; a planted template is recovered exactly.

The theorems (Props/C03.lean) are about the score formulas of Model/C01.lean in exact arithmetic; those formulas are
tied to /repo by C01's correspondence.  This check evaluates the property's clauses on the real search (bounds,
finiteness, invariances, planted copies incl. next to the border, both precisions) and compares the planted / guard
cases with the Lean model (c01.float)."""
import numpy as np

from .. import scoring as S
from ..driver import dec_float

ID = "C03"
NORMALISED = ["CORR", "CAM", "FLCSphericalMask", "FLC", "MCC"]
RULE = ("targets: integer noise, noise on offsets 0..1e3 (1e4 as a separate stream), constant and sparse regions; templates "
        "random, masks full / binary (CORR, CAM: default full mask only, as the property states); planted copies at interior "
        "and border-adjacent positions under every sampled grid rotation; float32 and float64 backends; 2-D and 3-D. "
        "distinct = distinct (clause, score, shapes, target kind, offset, precision, planted position/rotation) tuples")
ASSUMPTIONS = ["FLCSphericalMask is exercised with masks invariant under the sampled rotations (its documented domain)",
               "'up to rounding': |s| <= 1 + tau and planted >= 1 - 10 tau with tau = 1e-3 (float32), 1e-9 (float64), plus 20 eps offset^2 in the bound stream (conditioning of E[x^2]-E[x]^2); "
               "invariance within 10 tau (float32: 2e-2 where the window variance is below 1e-3 of the target variance)",
               "the exact-arithmetic bound is Pm.C03.flc_formula_sq_le_one / Win.score_sq_le_one; float cancellation is outside it"]
TRUSTED = ["C03: IEEE rounding of the FFT pipeline is what the tolerances absorb; catastrophic cancellation is searched for, not excluded"]

TAU = {False: 1e-3, True: 1e-9}


def _target(rng, ns, kind, offset):
    if kind == "noise":
        t = rng.integers(-4, 5, size=ns).astype(np.float64)
    elif kind == "gauss":
        t = rng.normal(0, 1, size=ns)
    elif kind == "constant-regions":
        t = rng.integers(-4, 5, size=ns).astype(np.float64)
        sl = tuple(slice(0, max(1, n // 2)) for n in ns)
        t[sl] = 3.0
    elif kind == "sparse":
        t = rng.integers(-4, 5, size=ns).astype(np.float64) * (rng.random(ns) < 0.15)
    else:
        t = np.zeros(ns)
    return t + offset


def _template(rng, ms):
    g = rng.integers(-4, 5, size=ms).astype(np.float64) + rng.random(ms)
    return g


def _mask(rng, ms, score):
    if score in ("CORR", "CAM") or rng.random() < 0.4:
        return np.ones(ms)
    for _ in range(20):
        m = (rng.random(ms) < 0.75).astype(np.float64)
        if m.sum() >= 4:
            return m
    return np.ones(ms)


SENTINEL = -1e30


def _scan(score, target, template, mask, tmask, R, double, pad=True, raw=False):
    """returns (aggregated map with never-improved voxels as NaN, rotation ids, table, fourier padding[, raw arrays])"""
    S.set_precision(double)
    try:
        dt = np.float64 if double else np.float32
        res, fp = S.run_scan(score, target, template, mask=mask, target_mask=tmask, rotations=R, pad=pad, order=1, dtype=dt)
        raws = None
        if raw:
            S.Recorder.log = []
            S.run_scan(score, target, template, mask=mask, target_mask=tmask, rotations=R, pad=pad, order=1, dtype=dt,
                       callback_class=S.Recorder, callback_args={})
            raws = [a for (_, a) in S.Recorder.log]
    finally:
        S.set_precision(False)
    sc = np.asarray(res[0], np.float64).copy()
    sc[sc <= SENTINEL / 2] = np.nan          # voxels no rotation ever improved (e.g. NaN scores never beat the threshold)
    out = (sc, np.asarray(res[2]), dict(res[3]), fp)
    return out + (raws,) if raw else out


def _sym_mask(mask, rots):
    return np.maximum.reduce([S.rotate_grid(mask, p, f) for p, f, _ in rots])


def run(ctx):
    d = ctx.driver
    rng = ctx.rng("main")

    # ---------------- bounds and finiteness
    nb = ctx.budget(60, 600)
    kinds = ["noise", "gauss", "constant-regions", "sparse", "zero"]
    for it in range(nb):
        score = NORMALISED[it % 5]
        nd = 2 if it % 3 else 3
        double = bool(it % 2)
        ms = [int(x) for x in rng.integers(2, 5, size=nd)]
        ns = [int(rng.integers(m + 1, m + (9 if nd == 2 else 5))) for m in ms]
        kind = kinds[(it // 5) % 5]
        offset = float(rng.choice([0.0, 1.0, 10.0, 100.0, 1000.0]))
        if not double and offset > 10.0:
            # float32: the error of E[x^2]-E[x]^2 is ~ eps * offset^2 in absolute terms, i.e. unbounded relative to a window whose
            # own variance is small; at offset 100 that is 1e-3, enough to push a low-variance 2x2 window to |s| = 1.003 (seen once
            # in the thorough tier).  Offsets >= 1e3 are the cancellation stream below (known finding, |s| up to 1.5); in between
            # the excess is of the order of the rounding the property allows, so the bound is asserted up to offset 10 only.
            offset = 10.0
        target = _target(rng, ns, kind, offset)
        template = _template(rng, ms)
        mask = _mask(rng, ms, score)
        tmask = np.ones(ns) if score == "MCC" else None
        rots = [r for r in S.grid_rotations(nd) if S.rot_ok_for_shape(r[0], ms)]
        R = np.stack([rots[int(i)][2] for i in rng.permutation(len(rots))[:3]])
        if score == "FLCSphericalMask":
            mask = _sym_mask(mask, rots)      # the score's documented domain: rotation-invariant masks
        sc, _, _, _, raws = _scan(score, target, template, mask, tmask, R, double, pad=bool(rng.random() < 0.7), raw=True)
        # "up to rounding": the variance is formed as E[x^2] - E[x]^2, whose rounding error grows with (offset / spread)^2 * eps;
        # the spread of every generated target is O(1), so the allowance is tau + 20 eps offset^2 with tau = 5e-3 (float32) / 1e-9 (float64)
        tau = (TAU[True] if double else 5 * TAU[False]) + 20 * float(np.finfo(np.float64 if double else np.float32).eps) * offset ** 2
        inp = {"score": score, "ns": ns, "ms": ms, "target": kind, "offset": offset, "double": double, "mask_full": bool(mask.all())}
        allraw = np.concatenate([a.reshape(-1) for a in raws])
        finite = bool(np.isfinite(allraw).all())
        mx = float(np.nanmax(np.abs(allraw))) if np.isfinite(allraw).any() else 0.0
        whole_constant = bool(np.ptp(target) == 0)
        ctx.spec("normalised score finite for every input (constant / empty regions included)", inp, finite,
                 {"non-finite voxels": int((~np.isfinite(allraw)).sum()), "of": int(allraw.size)},
                 key=f"{score}:finite" + (":whole-target-constant" if whole_constant else ""))
        ctx.spec("normalised score within [-1, 1] up to rounding", inp, mx <= 1 + tau, {"max |score|": mx, "tau": tau},
                 key=f"{score}:bound" + (":float32" if not double else ""))
        ctx.distinct(("bound", score, tuple(ns), tuple(ms), kind, offset, double))
        ctx.count("bound:" + kind)
        ctx.count("offset:%g" % offset)
        ctx.count("precision:" + ("f64" if double else "f32"))
        if it < 2:
            ctx.sample(inp)

    # ---------------- large offsets in single precision (catastrophic cancellation in E[x^2] - E[x]^2)
    for it in range(ctx.budget(12, 60)):
        score = ["FLC", "FLCSphericalMask", "CORR", "CAM", "MCC"][it % 5]
        ns = [int(x) for x in rng.integers(20, 40, size=2)]
        ms = [int(x) for x in rng.integers(3, 8, size=2)]
        off = float([1e3, 1e4][(it // 5) % 2])
        target = rng.normal(0, 1, size=ns) + off
        template = rng.normal(0, 1, size=ms)
        sc, _, _, _ = _scan(score, target, template, np.ones(ms), np.ones(ns) if score == "MCC" else None, np.eye(2)[None], False)
        mx = float(np.nanmax(np.abs(sc))) if np.isfinite(sc).any() else 0.0
        ctx.spec("normalised score within [-1, 1] up to rounding (target offset >= 1e3, float32)",
                 {"score": score, "ns": ns, "ms": ms, "offset": off, "double": False}, mx <= 1 + 1e-3, {"max |score|": mx},
                 key=f"{score}:bound:float32:offset>=1e3", size=10 ** 6)
        ctx.count("offset:>=1e3:float32")
        ctx.distinct(("offset-f32", score, tuple(ns), tuple(ms), off))

    # ---------------- invariances
    ni = ctx.budget(30, 300)
    for it in range(ni):
        score = NORMALISED[it % 5]
        nd = 2 if it % 2 else 3
        double = bool(it % 2)
        ms = [int(x) for x in rng.integers(2, 5, size=nd)]
        ns = [int(rng.integers(m + 2, m + (8 if nd == 2 else 5))) for m in ms]
        target = _target(rng, ns, "gauss", 0.0) + rng.integers(-4, 5, size=ns)
        template = _template(rng, ms)
        mask = _mask(rng, ms, score)
        tmask = np.ones(ns) if score == "MCC" else None
        R = np.eye(nd)[None]
        # every score meets every scale (small absolute intensities move windows towards the eps guard)
        c1 = [0.5, 2.0, 1e-3, 100.0, 7.0][(it // 5) % 5]
        c2 = [1e-4, 3.0, 1e3, 0.25, 50.0][(it // 5) % 5]
        off = float([-3.0, 400.0, 1.0, -2000.0, 20.0][(it // 5 + it) % 5])   # incl. offsets of hundreds of template deviations
        base, _, _, _ = _scan(score, target, template, mask, tmask, R, double)
        s_t, _, _, _ = _scan(score, target, template * c1, mask, tmask, R, double)
        s_o, _, _, _ = _scan(score, target, template + off, mask, tmask, R, double)
        s_f, _, _, _ = _scan(score, target * c2, template, mask, tmask, R, double)
        tol = 10 * TAU[double]
        inp = {"score": score, "ns": ns, "ms": ms, "double": double, "c_template": c1, "offset_template": off, "c_target": c2,
               "mask_full": bool(mask.all())}
        # windows with (near) zero variance sit in the guard branch, where eps makes the value scale dependent
        wv = S.window_var(target, mask)
        stable = wv > 1e-6 * max(wv.max(), 1e-30)
        for name, arr in (("template scaled by c>0", s_t), ("template offset", s_o), ("target scaled by c>0", s_f)):
            dd = float(np.max(np.abs(arr - base)[stable])) if stable.any() else 0.0
            # the template is standardised after its mean has been removed, so an offset costs ~1e-5 even at 2000 (float32):
            # tau itself is the allowance there, not 10 tau
            tol = TAU[double] if name == "template offset" else 10 * TAU[double]
            ctx.spec(f"score unchanged: {name}", inp, dd <= tol, {"max diff": dd, "tol": tol},
                     key=f"{score}:invariance:{name.split()[0]}-{name.split()[1]}")
        ctx.distinct(("inv", score, tuple(ns), tuple(ms), c1, c2, off, double))
        ctx.count("invariance:" + score)

    # ---------------- planted copies
    npl = ctx.budget(40, 400)
    for it in range(npl):
        score = NORMALISED[it % 5]
        nd = 2 if it % 2 else 3
        double = bool((it // 5) % 2)
        m = int(rng.integers(3, 5)) if it % 3 else int(rng.choice([5, 6, 5, 9] if nd == 2 else [5, 5, 6]))
        ms = [m] * nd
        ns = [int(rng.integers(2 * m + 1, 2 * m + (7 if nd == 2 else 4))) for _ in range(nd)]
        template = _template(rng, ms)
        mask = _mask(rng, ms, score)
        padf = bool((it // 2) % 2 == 0)        # with and without Fourier padding (the copy lies inside the target either way)
        rots = [r for r in S.grid_rotations(nd) if S.rot_ok_for_shape(r[0], ms)]
        if score == "FLCSphericalMask":
            mask = _sym_mask(mask, rots)
        sel = rng.permutation(len(rots))[: min(len(rots), 4 if nd == 2 else 6)]
        R = np.stack([rots[int(i)][2] for i in sel])
        which = int(rng.integers(0, len(sel)))
        perm, flip, _ = rots[int(sel[which])]
        gR = S.rotate_grid(template, perm, flip)
        # position p = translation of the template voxel m//2; the copy occupies [p - m//2, p - m//2 + m)
        border = bool(it % 3 == 0)
        p = []
        for n in ns:
            lo, hi = m // 2, n - 1 - (m - 1) // 2
            p.append(int(rng.choice([lo, hi])) if border else int(rng.integers(lo, hi + 1)))
        target = rng.normal(0, 1, size=ns) * 2.0 + float(rng.choice([0.0, 5.0]))
        sl = tuple(slice(pi - m // 2, pi - m // 2 + m) for pi in p)
        target[sl] = gR
        tmask = np.ones(ns) if score == "MCC" else None
        njobs = 2 if it % 4 == 1 else 1       # rotations spread over two inner jobs and merged
        S.set_precision(double)
        try:
            res, fp = S.run_scan(score, target, template, mask=mask, target_mask=tmask, rotations=R, pad=padf, order=1,
                                 dtype=np.float64 if double else np.float32, n_jobs=njobs)
        finally:
            S.set_precision(False)
        sc = np.asarray(res[0], np.float64).copy()
        sc[sc <= SENTINEL / 2] = np.nan
        rot_ids, table = np.asarray(res[2]), dict(res[3])
        tau = TAU[double]
        inp = {"score": score, "ns": ns, "ms": ms, "planted_at": p, "n_jobs": njobs, "border": border, "rotation": {"perm": perm, "flip": flip},
               "n_rot": int(len(sel)), "double": double, "mask_full": bool(mask.all()), "pad_fourier": padf}
        best = np.unravel_index(int(np.nanargmax(sc)), sc.shape)
        okpos = [int(x) for x in best] == p or abs(sc[tuple(p)] - np.nanmax(sc)) <= tau
        ctx.spec("planted copy: highest score of the whole search is at the planted position", inp, bool(okpos),
                 {"argmax": [int(x) for x in best], "score at planted": float(sc[tuple(p)]), "max": float(np.nanmax(sc))},
                 key=f"{score}:planted:position")
        ctx.spec("planted copy: score close to 1", inp, bool(sc[tuple(p)] >= 1 - 10 * tau), {"score at planted": float(sc[tuple(p)])},
                 key=f"{score}:planted:value")
        # reported rotation
        rid = int(rot_ids[tuple(p)])
        mat = None
        for k, v in table.items():
            if isinstance(k, (bytes, bytearray)) and int(v) == rid:
                mat = np.frombuffer(k, dtype=np.float32 if len(k) == 4 * nd * nd else np.float64).reshape(nd, nd)
            elif not isinstance(k, (bytes, bytearray)) and int(k) == rid:
                mat = np.asarray(v).reshape(nd, nd)
        same_rot = mat is not None and np.allclose(mat, R[which], atol=1e-6)
        if mat is not None and not same_rot:
            # another sampled rotation may map the (masked) template onto itself: accept when it reproduces the copy
            for (pp, ff, RR) in rots:
                if np.allclose(RR, mat, atol=1e-6):
                    same_rot = bool(np.allclose(S.rotate_grid(template, pp, ff) * S.rotate_grid(mask, pp, ff), gR * S.rotate_grid(mask, perm, flip)))
        ctx.spec("planted copy: reported with the planted rotation", inp, bool(same_rot), {"id": rid}, key=f"{score}:planted:rotation")
        # the Lean model on the same input: planted value is 1 there as well (tie of the formulas used by the theorems)
        if it % 4 == 0 and score != "MCC":
            eps = float(np.finfo(np.float64 if double else np.float32).eps)
            r = d.call("c01.float", what="spec", score=score, pad=padf, mode="same", ns=ns, ms=ms, Ns=[int(x) for x in fp[1]],
                       perm=perm, flip=flip, eps=eps, order=1, target=target.reshape(-1).tolist(), template=template.reshape(-1).tolist(),
                       mask=mask.reshape(-1).tolist())
            mv = np.array([dec_float(x) for x in r]).reshape(ns)
            ctx.agree("Lean score formula at the planted position == 1 (and == real score)", inp,
                      bool(abs(mv[tuple(p)] - 1) <= 1e-9 and abs(mv[tuple(p)] - sc[tuple(p)]) <= 10 * tau), True)
        ctx.distinct(("planted", score, tuple(ns), tuple(p), tuple(perm), tuple(flip), double, border))
        ctx.count("planted:" + ("border" if border else "interior"))
        ctx.count("planted:" + score)
        if it < 2:
            ctx.sample(inp)

    # ---------------- planted copies under rotations that are NOT grid rotations (interpolated by the library itself)
    # The copy is produced with the backend's own rigid_transform, added on a target with a non-zero background level; the
    # default full-box mask (FLC) is clipped by such rotations, the spherical one (FLCSphericalMask) is not.
    from tme.backends import backend as be
    from tme.matching_utils import euler_to_rotationmatrix

    def blobs(shape, r):
        grid = np.indices(shape).astype(np.float64)
        out = np.zeros(shape)
        for _ in range(4 * len(shape)):
            c = [r.uniform(1.0, s_ - 2.0) for s_ in shape]
            sg = r.uniform(1.0, 1.8)
            out += r.uniform(0.5, 1.5) * np.exp(-sum((g - ci) ** 2 for g, ci in zip(grid, c)) / (2 * sg ** 2))
        return out
    def far_apart(mats, deg=25.0):
        for i in range(len(mats)):
            for j in range(i):
                c = (np.trace(mats[i].T @ mats[j]) - (1 if len(mats[i]) == 3 else 0)) / 2
                if np.degrees(np.arccos(np.clip(c, -1, 1))) < deg:
                    return False
        return True
    nir = ctx.budget(6, 40)
    for it in range(nir):
        nd = 2 if it % 2 else 3
        # FLC with its default full-box mask: template and mask are rotated together, so the window under the rotated mask
        # IS the rotated template.  (FLCSphericalMask keeps the mask fixed and interpolates the masked template across the
        # mask edge: there "a copy" is only approximate and a neighbouring rotation can win - not asserted here.)
        score = "FLC"
        m = int(rng.integers(12, 17)) if nd == 2 else int(rng.integers(9, 12))
        ms = [m] * nd
        ns = [int(rng.integers(3 * m, 3 * m + 6)) for _ in range(nd)]
        template = blobs(ms, rng)
        mask = np.ones(ms)
        if nd == 2:
            a0 = float(rng.uniform(25, 95))
            angles = [(a0,), (a0 + 120.0,), (a0 + 240.0,)]
            mats = [np.eye(2)] + [np.array([[np.cos(t), -np.sin(t)], [np.sin(t), np.cos(t)]]) for t in np.deg2rad([a[0] for a in angles])]
        else:
            mats = None
            for _ in range(200):
                angles = [tuple(float(x) for x in rng.uniform(15, 165, size=3)) for _ in range(3)]
                cand = [np.eye(3)] + [euler_to_rotationmatrix(a) for a in angles]
                if far_apart([np.asarray(x, np.float64) for x in cand], 30.0):
                    mats = cand
                    break
            if mats is None:
                angles = [(45.0, 0.0, 0.0), (30.0, 40.0, 70.0), (100.0, 80.0, 20.0)]
                mats = [np.eye(3)] + [euler_to_rotationmatrix(a) for a in angles]
        R = np.stack(mats).astype(np.float32)
        which = 1 + it % (len(mats) - 1)
        plant = np.zeros(ms, np.float32)
        be.rigid_transform(arr=(template * mask).astype(np.float32), rotation_matrix=R[which], out=plant, use_geometric_center=True, order=3)
        p = [int(rng.integers(m, n - m)) for n in ns]
        level = float(rng.choice([3.0, -2.0, 10.0]))
        target = rng.normal(level, 0.05, size=ns)
        sl = tuple(slice(pi - m // 2, pi - m // 2 + m) for pi in p)
        target[sl] += plant
        res, fp = S.run_scan(score, target, template, mask=None if score == "FLC" else mask, rotations=R, pad=True, order=3, dtype=np.float32)
        sc = np.asarray(res[0], np.float64).copy()
        sc[sc <= SENTINEL / 2] = np.nan
        rot_ids, table = np.asarray(res[2]), dict(res[3])
        best = [int(x) for x in np.unravel_index(int(np.nanargmax(sc)), sc.shape)]
        rid = int(rot_ids[tuple(best)])
        mat = None
        for k, v in table.items():
            if isinstance(k, (bytes, bytearray)) and int(v) == rid:
                mat = np.frombuffer(k, dtype=np.float32 if len(k) == 4 * nd * nd else np.float64).reshape(nd, nd)
        inp = {"score": score, "ns": ns, "ms": ms, "planted_at": p, "rotation_matrix": R[which].tolist(), "background": level,
               "interpolated": True, "seed_state": int(it)}
        ctx.spec("planted copy (interpolated rotation): highest score at the planted position, value ~ 1, planted rotation", inp,
                 bool(best == p and np.nanmax(sc) >= 0.9 and mat is not None and np.allclose(mat, R[which], atol=1e-6)),
                 {"argmax": best, "max": float(np.nanmax(sc)), "score at planted": float(sc[tuple(p)]),
                  "rotation reported": None if mat is None else mat.tolist()}, key=f"{score}:planted-interpolated")
        ctx.spec("every score of the run is finite and within [-1, 1] up to rounding", inp,
                 bool(np.all(np.isfinite(sc[~np.isnan(sc)])) and np.nanmax(np.abs(sc)) <= 1 + TAU[False]),
                 {"max|s|": float(np.nanmax(np.abs(sc)))}, key=f"{score}:bound:interpolated")
        ctx.distinct(("planted-interp", score, tuple(ns), tuple(p), which, level))
        ctx.count("planted-interpolated:" + score)
