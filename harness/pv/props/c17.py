"""C17 — refinement scores are repeatable; optimize_match respects bounds and the start; rigid alignment
recovers rigid motions.

Leg B: the real score objects / optimize_match / Structure.align_structures of the worktree against the Lean
model (Model/C17.lean): the scratch-state machines are compared buffer by buffer through provenance tokens
(which call a buffer's content stems from), the overlap windows, bounds assembly and the wrapper decision
exactly, the Kabsch wrapper with the recorded SVD.  Every clause of the property is evaluated on the real
outputs (ctx.spec)."""
import ast
import contextlib
import inspect
import io
import struct
import textwrap

import numpy as np

ID = "C17"
RULE = ("pose histories (zero / small / large / partially and wholly outside / repeated poses) on one object vs a fresh object "
        "per pose, for every registered score (with and without masks, gradients, mask rotation); overlap windows for "
        "translations from far left to far right of the target; planted poses (identity and rigidly moved point sets, sub-box "
        "templates) against random and integer competitor poses; optimize_match with a stub optimiser (all methods x bounds "
        "x start x better/worse/equal result) and with the real scipy optimisers; Kabsch on general / planar / collinear / "
        "coincident point sets, float32 and float64.  Widened: arrays in C / Fortran order, strided / reversed / offset views, "
        "read-only arrays and read-only memory maps, float64 / float32 / integer coordinates; intensities 1e-9 .. 1e3 with offsets; "
        "both sign conventions, interpolation orders, thresholds and target masks given or left out; poses as tuple / list / "
        "arrays (re-used, must stay untouched), near-repeated poses; several objects built from the same arrays evaluated in turn; "
        "decoy experiments of identical shapes just before the planted one; names registered at run time / near-miss names; a "
        "caller's own score object in optimize_match; 1 / 2 / thousands of atoms, float32 rotation matrices, weighted RMSD, "
        "geometric centre.  Score formulas: every registered class's real __call__ / _interpolate (FLC: score(x)) on 1-3-D integer targets, "
        "integer voxel positions (inside, partly and wholly outside the volume, scattered), planted and random integer weights, exact / "
        "2^-16-off / half-voxel coordinates and subset masks for the masked score, against the model's rational formula.  distinct = distinct (component, configuration, input signature); "
        "single-pose histories, unbounded default-start stub cases whose result equals the start, and identity motions are "
        "trivial and not counted")
ASSUMPTIONS = [
    "the scores' numerical kernels (matmul, map_coordinates, histogram2d, KDTree) are deterministic functions of their inputs",
    "differential_evolution is only run with translation bounds (documented requirement)",
    "x0 passed to optimize_match lies inside the bounds (otherwise 'inside the bounds and no worse than the start' cannot both be asked)",
    "PartialLeastSquareDifference and Chamfer are distances: 'best at the generating pose' is evaluated with negate_score=False",
    "MaskedCrossCorrelation is evaluated with mask coordinates = template coordinates for the planted-pose clause "
    "(with a strict subset its second variance term is clamped to 0 and the score is constantly 0)",
    "FLC's planted-pose clause is evaluated with a full template mask: with a partial mask the template is multiplied by the mask "
    "before it is interpolated, and at sub-voxel generating poses nearby poses score 3-12 % better (observed, reported, not claimed)",
    "bounds are compared in units of 1e-6 (round), scores through an order-preserving integer image of float64",
    "offsets of the intensities are applied only to scores whose definition keeps the generating pose optimal under them "
    "(NormalizedCrossCorrelation and FLC by Cauchy-Schwarz, PartialLeastSquareDifference as a sum of squares, MutualInformation "
    "by invariance); CrossCorrelation / LaplaceCrossCorrelation are scaled only",
    "FLC's planted value is asserted for float32 targets down to amplitude 1e-3 and for float64 targets down to 1e-9: the "
    "low-variance guard of the score is the machine epsilon of the target's dtype",
    "a fresh reference object receives newly allocated arrays of the same layout class and dtype as the object under test "
    "(bit-exact comparison must not depend on summation order)",
    "align_structures is exercised without sampling_rate (with it positions are discretised and RMSD ~ 0 is not implied)",
]
TRUSTED = ["C17: scipy.optimize (optimality, constraint tolerance), numpy.linalg.svd (optimal rotation), "
           "scipy.ndimage.map_coordinates and float rounding are exercised, not modelled: planted-pose optimality of the "
           "interpolated scores, optimiser results and SVD are Leg B only"]

# ------------------------------------------------------------------------------------------------
# the model's tables (tied to the source by reflection/AST in `_extract`)
C2D = ["CrossCorrelation", "LaplaceCrossCorrelation", "NormalizedCrossCorrelationMean", "NormalizedCrossCorrelation",
       "MaskedCrossCorrelation", "PartialLeastSquareDifference", "Envelope", "MutualInformation"]
C2C = ["Chamfer", "NormalVectorScore"]
D2D = ["FLC"]
KIND = {"CrossCorrelation": "plain", "LaplaceCrossCorrelation": "plain", "NormalizedCrossCorrelation": "normalised",
        "NormalizedCrossCorrelationMean": "normalised", "MaskedCrossCorrelation": "generic",
        "PartialLeastSquareDifference": "generic", "Envelope": "generic", "MutualInformation": "generic",
        "Chamfer": "generic", "NormalVectorScore": "generic"}
PLANTED_RTOL = 2e-3   # 'best within tolerance': a competitor must beat the planted value by more than 0.2 %
PLANTED_RTOL_NEAR = 5e-2
DISTANCES = {"PartialLeastSquareDifference", "Chamfer"}
# buffers written by score()/__call__()/rotate_array() of each family == state fields of the model
WRITES = {
    "_MatchCoordinatesToDensity": {"_target_values", "template_rotated", "template_mask_rotated"},
    "_MatchCoordinatesToCoordinates": {"template_coordinates_rotated", "template_mask_coordinates_rotated"},
    "_MatchDensityToDensity": {"template_rot", "template_mask_rot", "template_slices", "target_slices",
                               "_previous_center", "grid", "grid_out"},
}
CALL_WRITES = {"NormalizedCrossCorrelation": {"denominator"}}   # every other __call__ writes no attribute


def _fkey(f):
    """order-preserving integer image of a float64 (exact, invertible; -0.0 == 0.0)"""
    f = float(f)
    if f != f:
        return 1 << 70      # NaN: outside the image of every number (never equal to a model value)
    i = struct.unpack(">q", struct.pack(">d", f))[0]
    return i if i >= 0 else -(i + (1 << 63))


def _fbits(n):
    return struct.unpack(">d", struct.pack(">Q", int(n)))[0]


def _micro(v):
    return int(round(float(v) * 1e6))


def _quiet():
    return contextlib.redirect_stdout(io.StringIO())


# ------------------------------------------------------------------------------------------------
# presentation of the caller's arrays: the same values in another memory layout / dtype / with other flags
LAYOUTS = ["C", "F", "strided", "reversed", "offset", "readonly", "memmap"]
_MM = [0]


def _present(a, layout="C", dtype=None):
    """a freshly allocated array with the values of `a` (cast to `dtype`) in the given layout"""
    a = np.asarray(a)
    if dtype is not None:
        a = a.astype(dtype)
    junk = 2 ** 30 if a.dtype.kind in "iu" else 1e30      # what a mis-addressed read would pick up
    if layout == "F":
        return np.array(a, order="F", copy=True)
    if layout == "strided":          # every second element of a larger buffer, along every axis
        big = np.full(tuple(2 * s + 1 for s in a.shape), junk, dtype=a.dtype)
        v = big[tuple(slice(1, 2 * s, 2) for s in a.shape)]
        v[...] = a
        return v
    if layout == "reversed":         # negative strides along every axis
        r = np.ascontiguousarray(a[tuple(slice(None, None, -1) for _ in a.shape)])
        return r[tuple(slice(None, None, -1) for _ in a.shape)]
    if layout == "offset":           # contiguous, but not at the start of (nor aligned in) its buffer
        buf = np.full(a.size + 3, junk, dtype=a.dtype)
        v = buf[3:3 + a.size].reshape(a.shape)
        v[...] = a
        return v
    if layout == "readonly":
        r = np.array(a, order="C", copy=True)
        r.setflags(write=False)
        return r
    if layout == "memmap":           # a read-only memory map, as Density.from_file(use_memmap=True) hands out
        import os
        from .. import env
        _MM[0] += 1
        path = os.path.join(env.scratch(), f"c17_{os.getpid()}_{_MM[0]}.dat")
        m = np.memmap(path, mode="w+", dtype=a.dtype, shape=a.shape if a.size else (1,))
        if a.size:
            m[...] = a
        m.flush()
        del m
        return np.memmap(path, mode="r", dtype=a.dtype, shape=a.shape)
    return np.array(a, order="C", copy=True)


class _Pres:
    """how one caller presents target / coordinates / weights / template: layout and dtype per role.
    `plain` = C-contiguous float64 copies (what the harness handed over before)."""

    def __init__(self, rng=None, plain=False):
        self.role = {}
        for r in ("target", "coords", "weights", "template", "mask"):
            if plain or rng is None:
                self.role[r] = ("C", None)
            else:
                lay = str(rng.choice(LAYOUTS, p=[0.22, 0.2, 0.14, 0.1, 0.1, 0.14, 0.1]))
                dt = str(rng.choice(["f8", "f4", "i8"], p=[0.45, 0.35, 0.2])) if r == "coords" else \
                    str(rng.choice(["f8", "f4"], p=[0.55, 0.45]))
                self.role[r] = (lay, dt)

    def __call__(self, role, a):
        lay, dt = self.role[role]
        a = np.asarray(a)
        if a.dtype == bool:
            return _present(a, lay)
        if dt == "i8" and not np.all(a == np.rint(a)):
            dt = "f8"                 # integer coordinates only for integral values
        return _present(a, lay, dt)

    def describe(self):
        return {r: f"{l}/{d or 'f8'}" for r, (l, d) in self.role.items() if (l, d) != ("C", None)}


_PLAIN = _Pres(plain=True)


def _container(rng, x, kinds=("tuple", "list", "f8", "f4")):
    """a pose in the container a caller may use (scipy hands float64 arrays, examples use tuples)"""
    k = str(rng.choice(list(kinds)))
    if k == "list":
        return [float(v) for v in x], k
    if k == "f8":
        return np.array(x, dtype=np.float64), k
    if k == "f4":
        return np.array(x, dtype=np.float32), k
    return tuple(float(v) for v in x), k


# ------------------------------------------------------------------------------------------------
# source-tied tables
def _self_writes(fn):
    """attributes of `self` that a function assigns, fills, or hands to an `out=`-style parameter"""
    src = textwrap.dedent(inspect.getsource(fn))
    tree = ast.parse(src)
    out, calls_super = set(), False

    def self_attr(n):
        while isinstance(n, ast.Subscript):
            n = n.value
        if isinstance(n, ast.Attribute) and isinstance(n.value, ast.Name) and n.value.id == "self":
            return n.attr
        return None
    for n in ast.walk(tree):
        if isinstance(n, (ast.Assign, ast.AugAssign, ast.AnnAssign)):
            tg = n.targets if isinstance(n, ast.Assign) else [n.target]
            for t in tg:
                for e in (t.elts if isinstance(t, ast.Tuple) else [t]):
                    a = self_attr(e)
                    if a:
                        out.add(a)
                    # kw_dict["out"] = self.x
                    if isinstance(e, ast.Subscript) and isinstance(e.slice, ast.Constant) and str(e.slice.value).startswith("out"):
                        a = self_attr(n.value)
                        if a:
                            out.add(a)
        if isinstance(n, ast.Call):
            if isinstance(n.func, ast.Attribute) and n.func.attr == "fill":
                a = self_attr(n.func.value)
                if a:
                    out.add(a)
            for kw in n.keywords:
                if kw.arg and kw.arg.startswith("out"):
                    a = self_attr(kw.value)
                    if a:
                        out.add(a)
            if isinstance(n.func, ast.Attribute) and n.func.attr == "__call__" and isinstance(n.func.value, ast.Call) \
                    and getattr(n.func.value.func, "id", "") == "super":
                calls_super = True
        if isinstance(n, ast.Dict):
            for k, v in zip(n.keys, n.values):
                if isinstance(k, ast.Constant) and str(k.value).startswith("out"):
                    a = self_attr(v)
                    if a:
                        out.add(a)
    reads_den = any(isinstance(n, ast.Attribute) and n.attr == "denominator" and isinstance(n.ctx, ast.Load)
                    for n in ast.walk(tree))
    return out, calls_super, reads_den


def _extract(ctx):
    from tme import matching_optimization as mo
    reg = dict(mo.MATCHING_OPTIMIZATION_REGISTER)
    fam = {}
    for k, v in reg.items():
        fam[k] = ("c2d" if issubclass(v, mo._MatchCoordinatesToDensity) else
                  "c2c" if issubclass(v, mo._MatchCoordinatesToCoordinates) else
                  "d2d" if issubclass(v, mo._MatchDensityToDensity) else "?")
    want = {**{k: "c2d" for k in C2D}, **{k: "c2c" for k in C2C}, **{k: "d2d" for k in D2D}}
    ctx.obligation("registry == modelled score set (name -> family)", fam == want, {"source": fam, "model": want})
    # __call__ kinds: which class writes / reads self.denominator
    kinds = {}
    for k, v in reg.items():
        if fam[k] == "d2d":
            continue
        writes, reads = set(), False
        for cls in v.__mro__:
            if "__call__" not in cls.__dict__:
                continue
            w, sup, rd = _self_writes(cls.__dict__["__call__"])
            writes |= w
            reads |= rd
            if not sup:
                break
        kinds[k] = "normalised" if "denominator" in writes else "plain" if reads else "generic"
        ctx.obligation(f"{k}.__call__ writes only the modelled attributes", writes <= {"denominator"}, sorted(writes))
    ctx.obligation("__call__ kind table (plain/normalised/generic)", kinds == {k: KIND[k] for k in kinds if k in KIND} and set(kinds) <= set(KIND),
                   {"source": kinds, "model": KIND})
    for base, want_w in WRITES.items():
        cls = getattr(mo, base)
        got = set()
        for fn in ("score", "rotate_array"):
            if fn in cls.__dict__:
                got |= _self_writes(cls.__dict__[fn])[0]
        if base == "_MatchDensityToDensity":
            got |= _self_writes(mo.FLC.__dict__["__call__"])[0]
        ctx.obligation(f"{base}: buffers written by score() == state of the model", got == want_w,
                       {"source": sorted(got), "model": sorted(want_w)})
    return reg, fam


# ------------------------------------------------------------------------------------------------
# synthetic data
def _blob(rng, shape, k=4):
    from scipy.ndimage import gaussian_filter
    d = np.zeros(shape)
    for _ in range(k):
        c = [int(rng.integers(s // 2 - 3, s // 2 + 4)) for s in shape]
        d[tuple(c)] += rng.uniform(0.5, 2.0)
    d = gaussian_filter(d, float(rng.uniform(1.2, 1.8)))
    return d / d.max()


def _scene(rng, n=None):
    n = n or int(rng.integers(16, 21))
    data = _blob(rng, (n, n + int(rng.integers(0, 3)), n + int(rng.integers(0, 3))))
    thr = 0.25
    coords = np.array(np.where(data > thr))
    while coords.shape[1] > 160:
        thr += 0.05
        coords = np.array(np.where(data > thr))
    w = data[tuple(coords)]
    return data, coords.astype(np.float64), w


def _make(mo, name, fam, data, coords, w, mask="full", negate=True, tcoords=None, P=None, tmask=None, tweights=None, **kw):
    """P: presentation of the arrays (_Pres); tmask: the target mask (default: data > 0.05); tweights: target weights (c2c)"""
    P = P or _PLAIN
    if fam == "c2d":
        mc = None if mask == "none" else coords if mask == "full" else coords[:, ::2]
        tm = None if mask == "none" and name != "MaskedCrossCorrelation" else ((data > 0.05) if tmask is None else tmask)
        if name == "MaskedCrossCorrelation" and mc is None:
            mc = coords
        return mo.create_score_object(name, target=P("target", data), target_mask=None if tm is None else P("mask", tm),
                                      template_coordinates=P("coords", coords), template_weights=P("weights", w),
                                      template_mask_coordinates=None if mc is None else P("coords", mc),
                                      negate_score=negate, **kw)
    if fam == "c2c":
        tc = coords if tcoords is None else tcoords
        mc = None if mask == "none" else coords[:, ::2]
        tw = w if tweights is None else tweights
        return mo.create_score_object(name, target_coordinates=P("coords", tc), target_weights=P("weights", tw),
                                      template_coordinates=P("coords", coords), template_weights=P("weights", w),
                                      template_mask_coordinates=None if mc is None else P("coords", mc), negate_score=negate)
    raise ValueError(fam)


def _rand_pose(rng, kind, extent):
    t = np.zeros(3)
    a = np.zeros(3)
    if kind == "zero":
        pass
    elif kind == "small":
        t, a = rng.normal(0, 0.7, 3), rng.normal(0, 8, 3)
    elif kind == "large":
        t, a = rng.normal(0, 3, 3), rng.uniform(-180, 180, 3)
    elif kind == "int":
        t = rng.integers(-3, 4, 3).astype(float)
    elif kind == "edge":      # partially outside the target
        t = rng.choice([-1, 1], 3) * rng.uniform(0.3, 0.6, 3) * extent
        a = rng.normal(0, 20, 3)
    elif kind == "outside":   # wholly outside
        t = rng.choice([-1, 1], 3) * rng.uniform(1.5, 4, 3) * extent
    elif kind == "neg-frac":
        t = -rng.uniform(0.05, 0.95, 3)
    return tuple(float(x) for x in (*t, *a))


POSE_KINDS = ["zero", "small", "large", "int", "edge", "outside", "neg-frac"]


def _near(rng, x):
    """the previous pose moved by less than np.allclose / a rounding to 3-5 decimals would notice (but far more than
    a float32 ulp of the coordinates it produces): what an optimiser's line search evaluates next"""
    x = np.asarray(x, dtype=float)
    rel = float(rng.choice([5e-6, 1e-4, 1e-3]))
    mag = np.abs(x) if rel < 1e-5 else np.maximum(np.abs(x), 1.0)     # 5e-6: inside allclose's default rtol on every component
    d = rel * mag * rng.choice([-1.0, 1.0], x.size)
    return tuple(float(v) for v in x + d)


def _history(rng, extent, length):
    poses, kinds = [], []
    for i in range(length):
        if i >= 2 and rng.random() < 0.25:
            j = int(rng.integers(0, i))
            poses.append(poses[j])
            kinds.append("repeat")
        elif i >= 1 and rng.random() < 0.2:
            poses.append(_near(rng, poses[-1]))
            kinds.append("near-repeat")
        else:
            k = str(rng.choice(POSE_KINDS, p=[0.08, 0.25, 0.2, 0.1, 0.15, 0.12, 0.1]))
            poses.append(_rand_pose(rng, k, extent))
            kinds.append(k)
    return poses, kinds


def _val(v):
    """canonical value of score(x): (float, grad-bytes|None)"""
    if isinstance(v, (tuple, list)):
        return (float(v[0]), np.asarray(v[1], dtype=np.float64).tobytes().hex())
    return (float(v), None)


def _same(a, b):
    if a[1] != b[1]:
        return False
    return a[0] == b[0] or (a[0] != a[0] and b[0] != b[0])


def _buf(o, attr):
    v = getattr(o, attr, None)
    if v is None:
        return None
    if isinstance(v, tuple):   # slices
        return repr(v)
    return np.array(v).tobytes().hex() + str(np.shape(v))


# ------------------------------------------------------------------------------------------------
def _sec_interface(ctx, mo, reg, fam, rng, n_pose, n_extra=3):
    """every registered score can be evaluated through score(x) / score_translation / score_angles"""
    data0, coords, w0 = _scene(rng)
    ref_c = {}
    for name in reg:
        cases = [("full", "C", None), ("none", "C", None), ("full", "F", None)]
        # the caller's arrays in other layouts / dtypes / flags, other absolute intensities, options given or left out
        cases += [(str(rng.choice(["full", "none"])), "C", _Pres(rng)) for _ in range(n_extra)]
        for mask, layout, P in cases:
            if layout == "F" and fam[name] != "d2d":
                continue
            inp = {"score": name, "mask": mask, "template_layout": layout}
            data, w, kw = data0, w0, {}
            if P is not None:
                sc = float(rng.choice([1e-3, 1.0, 1e2, 1e3]))
                off = float(rng.choice([0.0, 0.0, 0.5, 5.0])) * sc
                data = data0 * sc + off
                w = w0 * sc + off
                kw["negate"] = bool(rng.random() < 0.5)
                if fam[name] == "c2d" and rng.random() < 0.5:
                    kw["interpolation_order"] = int(rng.choice([0, 1, 3]))
                if name == "Envelope" and rng.random() < 0.6:
                    kw["target_threshold"] = float(rng.choice([0.0, float(np.mean(data)), float(np.quantile(data, 0.9))]))
                if fam[name] == "d2d":
                    if rng.random() < 0.5:
                        kw["target_mask"] = np.ones(data.shape) if rng.random() < 0.5 else (data0 > np.quantile(data0, 0.2)).astype(float)
                    kw["interpolation_order"] = int(rng.choice([1, 3]))
                inp.update({"arrays": P.describe(), "scale": sc, "offset": off,
                            "options": {k: (v if not isinstance(v, np.ndarray) else "array") for k, v in kw.items()}})
                ctx.count("interface:presented")
                for r_, (l_, d_) in P.role.items():
                    ctx.count(f"interface:layout={l_}")
            try:
                with _quiet():
                    o = _make_any(mo, name, fam[name], data, coords, w, mask, layout=layout, P=P, **kw)
                vals = []
                if layout == "F" and (name, mask) in ref_c:
                    # the same values in Fortran order: the same poses must score the same
                    xs_c, vals_c = ref_c[(name, mask)]
                    vals_f = [_val(o.score(x))[0] for x in xs_c]
                    okl = all((a != a and b != b) or abs(a - b) <= 1e-4 * max(1.0, abs(a)) for a, b in zip(vals_c, vals_f))
                    ctx.spec("score(x) does not depend on the memory layout of the template", inp, okl,
                             {"C": vals_c[:4], "F": vals_f[:4]}, key=f"layout:{name}")
                xs_here = []
                for _ in range(n_pose):
                    x = _rand_pose(rng, str(rng.choice(POSE_KINDS)), data.shape[0])
                    xs_here.append(x)
                    if P is not None:      # the pose as tuple / list / float64 or float32 array, positionally or as `x=`
                        x, ck = _container(rng, x)
                        ctx.count("interface:pose-container=" + ck)
                        vals.append(_val(o.score(x=x) if rng.random() < 0.5 else o.score(x))[0])
                    else:
                        vals.append(_val(o.score(x))[0])
                if P is None and layout == "C":
                    ref_c[(name, mask)] = (xs_here, list(vals))
                tr = tuple(float(v) for v in rng.normal(0, 1, 3))
                an = tuple(float(v) for v in rng.normal(0, 10, 3))
                pz = ctx.driver.call("c17.poseOf", x=[1, 2, 3])
                ok_t = _same(_val(o.score_translation(tr)), _val(o.score((*tr, 0, 0, 0))))
                ok_a = _same(_val(o.score_angles(an)), _val(o.score((0, 0, 0, *an))))
                ctx.agree("score_translation/score_angles pose layout", inp, [[1, 2, 3, 0, 0, 0], [0, 0, 0, 1, 2, 3]], pz)
                ok = all(np.isfinite(v) for v in vals) and ok_t and ok_a
                detail = {"values": vals[:4], "translation-entry": ok_t, "angles-entry": ok_a}
            except Exception as e:  # noqa
                ok, detail = False, f"{type(e).__name__}: {e}"
            ctx.spec("every registered score evaluates through score(x) to a finite value", inp, ok, detail,
                     key=f"callable:{name}")
            ctx.count(f"interface:{fam[name]}")
            ctx.distinct(("interface", name, mask, layout, None if P is None else sorted(inp["arrays"].items()), inp.get("scale")))


def _make_any(mo, name, fam, data, coords, w, mask="full", negate=True, layout="C", P=None, target_mask=None, **kw):
    if fam == "d2d":
        n = data.shape
        lo = [int(s // 4) for s in n]
        tmpl = data[tuple(slice(a, a + s // 2) for a, s in zip(lo, n))].copy()
        m = None if mask == "none" else (tmpl > np.median(tmpl)).astype(np.float32) if mask == "sub" else np.ones_like(tmpl)
        if layout == "F":          # the same values in Fortran order (what vol.T / np.asfortranarray hand over)
            tmpl = np.asfortranarray(tmpl)
            m = None if m is None else np.asfortranarray(m)
        if P is not None:
            tmpl = P("template", tmpl)
            m = None if m is None else P("mask", m)
        if target_mask is not None:
            kw["target_mask"] = target_mask if P is None else P("mask", target_mask)
        return mo.create_score_object(name, target=data.copy() if P is None else P("target", data), template=tmpl,
                                      template_mask=m, negate_score=negate, **kw)
    return _make(mo, name, fam, data, coords, w, mask, negate, P=P, **kw)


def _sec_pose(ctx, mo, rng, n):
    from tme.matching_utils import euler_to_rotationmatrix
    for _ in range(n):
        d = int(rng.choice([3, 3, 3, 2, 4]))
        x = [float(v) for v in rng.normal(0, 30, 2 * d)]
        m = ctx.driver.call("c17.formatPose", x=list(range(2 * d)))
        inp = {"x": x}
        try:
            t, R = mo._format_rigid_transform(tuple(x))
        except Exception as e:  # noqa
            ctx.count("pose:raised-" + type(e).__name__)
            continue
        impl = [[x.index(float(v)) for v in np.asarray(t)], list(range(len(t), 2 * d))]
        ctx.agree("_format_rigid_transform split", inp, impl, m)
        if d == 3:
            Rn = np.asarray(R, dtype=np.float64)
            ok = np.allclose(np.asarray(t), x[:3]) and np.allclose(Rn, euler_to_rotationmatrix(np.array(x[3:])), atol=1e-6) \
                and np.allclose(Rn @ Rn.T, np.eye(3), atol=1e-5) and abs(np.linalg.det(Rn) - 1) < 1e-5
            ctx.spec("pose -> (translation, proper rotation of the angles)", inp, ok, key="format_pose")
            ctx.distinct(("pose", tuple(round(v, 3) for v in x)))
        ctx.count(f"pose:d={d}")
    # sequences of poses that differ only slightly (what an optimiser evaluates), in the containers callers use,
    # against a reference that shares nothing with the library (a memo keyed on rounded angles would hand out
    # the matrix of an earlier pose): float32 matrix entries, |error| <= 2^-24 + float64 noise -> atol 1e-6
    from scipy.spatial.transform import Rotation
    for s_ in range(max(2, n // 8)):
        base = np.concatenate([rng.normal(0, 3, 3), rng.uniform(-180, 180, 3)])
        seq = [base]
        for _ in range(6):
            step = float(rng.choice([1e-3, 1e-2, 0.04, 0.3, 0.49, 0.5, 1.0]))
            seq.append(seq[-1] + step * rng.choice([-1.0, 0.0, 1.0], 6))
        seq.append(base.copy())
        for j, xs in enumerate(seq):
            xc, ck = _container(rng, xs, kinds=("tuple", "list", "f8"))
            before = np.array(xc, dtype=np.float64)
            t, R = mo._format_rigid_transform(xc)
            want = Rotation.from_euler("zyx", before[3:], degrees=True).as_matrix()
            ok = bool(np.array_equal(np.asarray(t, dtype=np.float64), before[:3])
                      and np.abs(np.asarray(R, dtype=np.float64) - want).max() <= 1e-6
                      and np.array_equal(np.array(xc, dtype=np.float64), before))
            ctx.spec("pose -> (translation, proper rotation of the angles)",
                     {"x": [float(v) for v in before], "container": ck, "previous": [float(v) for v in seq[j - 1]] if j else None},
                     ok, {"max_dev": float(np.abs(np.asarray(R, dtype=np.float64) - want).max())}, key="format_pose")
            ctx.count("pose:near-sequence")
        ctx.distinct(("pose-seq", tuple(round(float(v), 3) for v in base)))


def _c2x_buffers(fam):
    if fam == "c2d":
        return {"rotated": "template_rotated", "mask": "template_mask_rotated", "values": "_target_values"}
    return {"rotated": "template_coordinates_rotated", "mask": "template_mask_coordinates_rotated"}


def _sec_history_coords(ctx, mo, reg, fam, rng, n_hist, length, names=None, agree=True):
    """one object through a history vs a fresh object per pose; buffers against the model's provenance"""
    for name in (names or [k for k in reg if fam[k] in ("c2d", "c2c")]):
        for h in range(n_hist):
            data, coords, w = _scene(rng)
            mask = str(rng.choice(["full", "half", "none"])) if name != "MaskedCrossCorrelation" else str(rng.choice(["full", "half"]))
            kw = {}
            if fam[name] == "c2d" and hasattr(reg[name], "grad") and rng.random() < 0.4:
                kw["return_gradient"] = True
            if rng.random() < 0.6:
                # options and arrays as other callers give them: sign convention, interpolation order, envelope threshold,
                # absolute intensities, memory layouts / dtypes / read-only arrays (a fresh allocation per object)
                kw["negate"] = bool(rng.random() < 0.5)
                kw["P"] = _Pres(rng)
                if fam[name] == "c2d":
                    if rng.random() < 0.5:
                        kw["interpolation_order"] = int(rng.choice([0, 3]))
                    sc = float(rng.choice([1e-3, 1.0, 1e3]))
                    off = float(rng.choice([0.0, 0.5, 5.0])) * sc
                    kw["tmask"] = data > 0.05
                    data, w = data * sc + off, w * sc + off
                    if name == "Envelope" and rng.random() < 0.6:
                        kw["target_threshold"] = float(rng.choice([0.0, float(np.quantile(data, 0.8))]))
                ctx.count("history:presented")
            L = int(rng.integers(2, length + 1))
            poses, kinds = _history(rng, data.shape[0], L)
            try:
                with _quiet():
                    A = _make(mo, name, fam[name], data, coords, w, mask, **kw)
                A.score(poses[0])
            except Exception as e:  # noqa
                ctx.spec("every registered score evaluates through score(x) to a finite value",
                         {"score": name, "mask": mask, "pose": poses[0],
                          "kw": {k: (v.describe() if isinstance(v, _Pres) else "array" if isinstance(v, np.ndarray) else v) for k, v in kw.items()}},
                         False, f"{type(e).__name__}: {e}", key=f"callable:{name}")
                continue
            with _quiet():
                A = _make(mo, name, fam[name], data, coords, w, mask, **kw)
            bufs = _c2x_buffers(fam[name])
            rowsA, rowsB = [], []
            for x in poses:
                v = _val(A.score(x))
                rowsA.append((v, {b: _buf(A, at) for b, at in bufs.items()}, float(getattr(A, "denominator", 1))))
                with _quiet():
                    B = _make(mo, name, fam[name], data, coords, w, mask, **kw)
                vb = _val(B.score(x))
                flag = True
                if KIND.get(name) == "normalised":
                    flag = bool(np.linalg.norm(B.template_weights) * np.linalg.norm(B._target_values) > 0)
                rowsB.append((vb, {b: _buf(B, at) for b, at in bufs.items()}, float(getattr(B, "denominator", 1)), flag))
            kwd = {k: (v.describe() if isinstance(v, _Pres) else "array" if isinstance(v, np.ndarray) else v) for k, v in kw.items()}
            inp = {"score": name, "mask": mask, "kw": kwd, "poses": poses, "shape": data.shape, "points": int(coords.shape[1]),
                   "target_range": [float(data.min()), float(data.max())]}
            for j, x in enumerate(poses):
                ctx.spec("score(x) does not depend on the poses evaluated before", {**inp, "call": j},
                         _same(rowsA[j][0], rowsB[j][0]), {"history": rowsA[j][0][0], "fresh": rowsB[j][0][0]},
                         key=f"repeat:{name}", size=j + len(poses))
                ctx.count("history-pose:" + kinds[j])
            if agree and name in KIND:
                tr = ctx.driver.call("c17.c2dTrace", kind=KIND[name], hasMask=mask != "none" or name == "MaskedCrossCorrelation",
                                     n=int(coords.shape[1]), m=int(coords.shape[1]), flags=[r[3] for r in rowsB])
                impl, model = [], []
                for j, m in enumerate(tr):
                    row_i, row_m = {}, {}
                    for b in bufs:
                        toks = m[b]
                        if toks is None:
                            row_m[b] = None
                            row_i[b] = rowsA[j][1][b]
                            continue
                        # model: buffer holds exactly the output of call `toks[0]`
                        row_m[b] = rowsB[toks[0] - 1][1][b] if len(toks) == 1 and toks[0] >= 1 else f"mixed{toks}"
                        row_i[b] = rowsA[j][1][b]
                    if fam[name] == "c2d":
                        k = m["denominator"]
                        row_m["denominator"] = 1.0 if k == 0 else rowsB[k - 1][2]
                        row_i["denominator"] = rowsA[j][2]
                    row_m["value=fresh"] = (m["value"] == m["pure"])
                    row_i["value=fresh"] = _same(rowsA[j][0], rowsB[j][0])
                    impl.append(row_i)
                    model.append(row_m)
                ctx.agree(f"buffer provenance along a history ({fam[name]})", inp, impl, model)
            if mask == "half":
                # the mask coordinates are a subset of the template's: they must be carried along by the same motion
                tr_ = np.asarray(getattr(A, bufs["rotated"]), dtype=float)[:, ::2]
                mr_ = np.asarray(getattr(A, bufs["mask"]), dtype=float)
                ctx.agree("mask coordinates are moved by the same rigid motion as the template's", inp,
                          bool(np.abs(tr_ - mr_).max() <= 1e-3 * (1 + np.abs(tr_).max())), True)
            if L >= 2:
                ctx.distinct(("history", name, mask, tuple(kinds), bool(kw)))
            ctx.count(f"history:{fam[name]}:mask={mask}")
            ctx.count(f"history:len={L}")
        ctx.sample({"check": "history", "score": name, "poses": [tuple(round(v, 2) for v in p) for p in poses[:3]],
                    "values": [r[0][0] for r in rowsA[:3]], "fresh": [r[0][0] for r in rowsB[:3]]}, limit=3)


def _ratio(t):
    num, den = float(t).as_integer_ratio()
    return int(num), int(den)


def _flc_pose(rng, kind, shape, tshape):
    t = np.zeros(3)
    a = np.zeros(3)
    if kind == "inside":
        t = np.array([rng.uniform(0, max(N - n, 0) + 0.99) for n, N in zip(shape, tshape)])
        a = rng.normal(0, 10, 3)
    elif kind == "int":
        t = np.array([float(rng.integers(-n - 2, N + 3)) for n, N in zip(shape, tshape)])
    elif kind == "left":
        t = np.array([-rng.uniform(0, n + 3) for n in shape])
    elif kind == "right":
        t = np.array([N - rng.uniform(-3, n) for n, N in zip(shape, tshape)])
    elif kind == "one-off":   # exactly one axis just outside
        t = np.array([rng.uniform(0, max(N - n, 0)) for n, N in zip(shape, tshape)])
        ax = int(rng.integers(0, 3))
        t[ax] = float(-shape[ax] - int(rng.integers(0, 3))) if rng.random() < 0.5 else float(tshape[ax] + int(rng.integers(0, 3)))
    elif kind == "far":
        t = rng.choice([-1, 1], 3) * rng.uniform(50, 500, 3)
    return tuple(float(x) for x in (*t, *a))


FLC_KINDS = ["inside", "int", "left", "right", "one-off", "far"]


def _sec_history_flc(ctx, mo, rng, n_hist, length, agree=True):
    for h in range(n_hist):
        n = int(rng.integers(10, 15))
        data = _blob(rng, (n, n + int(rng.integers(0, 3)), n + int(rng.integers(0, 3)))) + 0.05 * rng.random((1,))[0]
        data = data + 0.02 * rng.random(data.shape)
        shape = [int(rng.integers(3, 8)) for _ in range(3)]
        if rng.random() < 0.1:        # an axis along which the template is as long as the target (no room to move)
            ax = int(rng.integers(0, 3))
            shape[ax] = data.shape[ax]
        shape = tuple(shape)
        lo = [int(rng.integers(0, N - s + 1)) for s, N in zip(shape, data.shape)]
        # absolute intensities (the normalised score must not care), the caller's arrays in other layouts / dtypes,
        # a target mask given or left out
        sc = float(rng.choice([1e-3, 1.0, 1.0, 1e2, 1e3]))
        data = data * sc + float(rng.choice([0.0, 0.0, 0.5, 5.0])) * sc
        tmpl = data[tuple(slice(a, a + s) for a, s in zip(lo, shape))].copy()
        mk = str(rng.choice(["ones", "sub", "none"]))
        m = None if mk == "none" else np.ones_like(tmpl) if mk == "ones" else (tmpl > np.median(tmpl)).astype(np.float32)
        rot_mask = bool(rng.random() < 0.7)
        order = int(rng.choice([1, 1, 3]))
        P = _Pres(rng) if rng.random() < 0.5 else _PLAIN
        tmk = str(rng.choice(["none", "none", "ones", "partial"]))
        tmask = None if tmk == "none" else np.ones(data.shape) if tmk == "ones" else (data > np.quantile(data, 0.15)).astype(float)

        def new():
            with _quiet():
                kw_ = {} if tmask is None else {"target_mask": P("mask", tmask)}
                return mo.create_score_object("FLC", target=P("target", data), template=P("template", tmpl),
                                              template_mask=None if m is None else P("mask", m), rotate_mask=rot_mask,
                                              interpolation_order=order, **kw_)
        L = int(rng.integers(2, length + 1))
        kinds = [str(rng.choice(FLC_KINDS)) for _ in range(L)]
        poses = [_flc_pose(rng, k, shape, data.shape) for k in kinds]
        for i in range(1, L):
            r_ = rng.random()
            if i >= 2 and r_ < 0.2:
                poses[i], kinds[i] = poses[int(rng.integers(0, i))], "repeat"
            elif r_ > 0.85:
                poses[i], kinds[i] = _near(rng, poses[i - 1]), "near-repeat"
        try:
            A = new()
        except Exception as e:  # noqa
            ctx.spec("every registered score evaluates through score(x) (no pose is rejected)",
                     {"template_shape": shape, "target_shape": data.shape, "mask": mk, "rotate_mask": rot_mask, "order": order,
                      "target_mask": tmk, "arrays": P.describe()}, False, f"construction: {type(e).__name__}: {e}", key="callable:FLC")
            continue
        mask0 = _buf(A, "template_mask_rot")
        attrs = {"gridOut": "grid_out", "templateRot": "template_rot", "maskRot": "template_mask_rot"}
        rowsA, rowsB = [], []
        for x in poses:
            try:
                v = _val(A.score(x))
            except Exception as e:  # noqa
                v = ("raised:" + type(e).__name__, None)
            rowsA.append((v, {b: _buf(A, at) for b, at in attrs.items()}, [[s.start, s.stop] for s in A.template_slices],
                          [[s.start, s.stop] for s in A.target_slices], _buf(A, "grid")))
            B = new()
            try:
                vb = _val(B.score(x))
            except Exception as e:  # noqa
                vb = ("raised:" + type(e).__name__, None)
            rowsB.append((vb, {b: _buf(B, at) for b, at in attrs.items()}, _buf(B, "grid")))
        inp = {"template_shape": shape, "target_shape": data.shape, "mask": mk, "rotate_mask": rot_mask, "order": order, "poses": poses,
               "target_mask": tmk, "arrays": P.describe(), "target_range": [float(data.min()), float(data.max())]}
        for j, x in enumerate(poses):
            a, b = rowsA[j][0], rowsB[j][0]
            # tiny templates with a partial, un-rotated mask can have zero variance under the mask after the motion:
            # the normalisation then yields NaN (a finiteness guard, C03's subject).  Here: no pose may *raise*;
            # finiteness is required on the non-degenerate scenes of _sec_interface / _sec_planted.
            ok_call = not isinstance(a[0], str)
            if ok_call and a[0] != a[0]:
                ctx.count("flc:nan(zero variance under the mask)")
            ctx.spec("every registered score evaluates through score(x) (no pose is rejected)", {**inp, "call": j}, ok_call, a[0],
                     key="callable:FLC", size=j + L)
            ctx.spec("score(x) does not depend on the poses evaluated before", {**inp, "call": j},
                     a[0] == b[0] or (not isinstance(a[0], str) and a[0] != a[0] and b[0] != b[0]), {"history": a[0], "fresh": b[0]},
                     key="repeat:FLC", size=j + L)
            # the property's window clause on the real slices: equal extents, inside both arrays
            ts, gs = rowsA[j][2], rowsA[j][3]
            lens_t = [len(range(*slice(s, e).indices(nn))) for (s, e), nn in zip(ts, shape)]
            lens_g = [len(range(*slice(s, e).indices(nn))) for (s, e), nn in zip(gs, data.shape)]
            v = [int(t) for t in x[:3]]
            want = [max(0, min(vv + nn, NN) - max(vv, 0)) for vv, nn, NN in zip(v, shape, data.shape)]
            ctx.spec("overlap windows select the intersection of the moved template with the target",
                     {**inp, "call": j}, lens_t == lens_g == want, {"template": ts, "target": gs, "want_len": want},
                     key="flc-window", size=j + L)
            ctx.count("flc-pose:" + kinds[j])
        if agree:
            nums, dens = zip(*[zip(*[_ratio(t) for t in x[:3]]) for x in poses])
            tr = ctx.driver.call("c17.d2dTrace", old=False, shape=list(shape), targetShape=list(data.shape), rotateMask=rot_mask,
                                 num=[list(u) for u in nums], den=[list(u) for u in dens])
            impl, model = [], []
            for j, mrow in enumerate(tr):
                ri = {"template_slices": rowsA[j][2], "target_slices": rowsA[j][3]}
                rm = {"template_slices": [w_[:2] for w_ in mrow["wins"]], "target_slices": [w_[2:] for w_ in mrow["wins"]]}
                for b in attrs:
                    toks = mrow[b]
                    ri[b] = rowsA[j][1][b]
                    if toks == [0]:
                        rm[b] = mask0
                    elif len(toks) == 1 and 1 <= toks[0] <= len(rowsB):
                        rm[b] = rowsB[toks[0] - 1][1][b]
                    else:
                        rm[b] = f"mixed{toks}"
                ri["grid"] = rowsA[j][4]
                rm["grid"] = rowsB[0][2] if mrow["grid"] and mrow["grid"]["tokens"] == [1000] else "none"
                ri["grid-size"] = int(np.prod(shape)) * 3
                rm["grid-size"] = mrow["grid"]["size"] if mrow["grid"] else None
                impl.append(ri)
                model.append(rm)
            ctx.agree("FLC buffer provenance and overlap windows along a history", inp, impl, model)
        ctx.distinct(("flc-history", shape, data.shape, mk, rot_mask, tuple(kinds)))
        ctx.count(f"flc:mask={mk}:rotate={rot_mask}")
        ctx.count(f"flc:target_mask={tmk}")
        ctx.count("flc:arrays=" + ("plain" if P is _PLAIN else "presented"))
    ctx.sample({"check": "flc-history", "template": shape, "target": data.shape, "pose": [round(v, 2) for v in poses[0]],
                "template_slices": rowsA[0][2], "target_slices": rowsA[0][3], "value": rowsA[0][0][0]}, limit=4)


def _sec_registry(ctx, mo, reg, fam, rng, n_names):
    """the common interface by name: scores registered at run time (names that differ from present ones only by length or
    case) are created and evaluated, names that are not registered are refused with the documented ValueError, gradients
    are honoured or refused at construction, an unsupported optimiser is refused with the documented ValueError"""
    data, coords, w = _scene(rng, 16)
    saved = dict(mo.MATCHING_OPTIMIZATION_REGISTER)

    class _UserScore(mo._MatchCoordinatesToDensity):
        """a user-defined score: mean interpolated density at the moved template points"""

        def __call__(self):
            return float(np.mean(self._target_values)) * self.score_sign
    kwargs = lambda: dict(target=data.copy(), template_coordinates=coords.copy(), template_weights=w.copy())  # noqa
    x = _rand_pose(rng, "small", data.shape[0])
    with _quiet():
        want = float(_UserScore(**kwargs()).score(x))
    bases = [str(b) for b in rng.permutation(sorted(saved))[:n_names]]
    try:
        for base in bases:
            for new in (base + "2", base[:-1], base.lower(), base.upper(), base + " ", " " + base, base[:8]):
                if new in saved or new in mo.MATCHING_OPTIMIZATION_REGISTER:
                    continue
                inp = {"registered": sorted(saved), "name": new, "near": base}
                # (1) not registered: refused, with ValueError
                try:
                    with _quiet():
                        o = mo.create_score_object(new, **kwargs())
                    got = f"returned {type(o).__name__}"
                except ValueError:
                    got = "ValueError"
                except Exception as e:  # noqa
                    got = f"{type(e).__name__}: {e}"
                ctx.spec("a name that is not registered is refused with ValueError", inp, got == "ValueError", got,
                         key="registry:unknown-name")
                # (2) registered at run time: created and evaluated through the common interface; present names keep their class
                try:
                    with _quiet():
                        mo.register_matching_optimization(new, _UserScore)
                        o = mo.create_score_object(new, **kwargs())
                        v = float(o.score(x))
                        ob = None
                        if fam[base] == "c2d":
                            ob = _make(mo, base, "c2d", data, coords, w, "full")
                        elif fam[base] == "c2c":
                            ob = _make(mo, base, "c2c", data, coords, w, "none")
                        else:
                            ob = _make_any(mo, base, "d2d", data, coords, w, "full")
                    ok = type(o) is _UserScore and v == want and type(ob) is saved[base]
                    detail = {"created": type(o).__name__, "value": v, "want": want, base: type(ob).__name__}
                except Exception as e:  # noqa
                    ok, detail = False, f"{type(e).__name__}: {e}"
                finally:
                    mo.MATCHING_OPTIMIZATION_REGISTER.pop(new, None)
                ctx.spec("a score registered at run time is created and evaluated through the common interface", inp, ok, detail,
                         key="registry:custom")
                ctx.distinct(("registry", base, new))
                ctx.count("registry:near-name")
    finally:
        for k in list(mo.MATCHING_OPTIMIZATION_REGISTER):
            if k not in saved:
                del mo.MATCHING_OPTIMIZATION_REGISTER[k]
        mo.MATCHING_OPTIMIZATION_REGISTER.update(saved)
    # gradients: (score, 6 finite float64 numbers) where the class has them, refused at construction otherwise
    for name in reg:
        if fam[name] != "c2d":
            continue
        inp = {"score": name, "return_gradient": True}
        try:
            with _quiet():
                o = _make(mo, name, "c2d", data, coords, w, "full", return_gradient=True)
            v = o.score(_container(rng, x)[0])
            ok = hasattr(reg[name], "grad") and isinstance(v, tuple) and len(v) == 2 and np.isfinite(float(v[0])) \
                and np.asarray(v[1]).shape == (6,) and np.asarray(v[1]).dtype == np.float64 and bool(np.all(np.isfinite(v[1])))
            detail = {"has_grad": hasattr(reg[name], "grad"), "returned": type(v).__name__}
        except NotImplementedError:
            ok, detail = not hasattr(reg[name], "grad"), "NotImplementedError at construction"
        except Exception as e:  # noqa
            ok, detail = False, f"{type(e).__name__}: {e}"
        ctx.spec("return_gradient=True yields (score, float64 gradient of length 6) or is refused at construction", inp, ok, detail,
                 key=f"gradient:{name}")
        ctx.count("registry:gradient")
    # the optimiser's name
    with _quiet():
        o = _make(mo, "CrossCorrelation", "c2d", data, coords, w, "none")
    for bad in ("Minimize", "minimise", "basin_hopping", "differential-evolution", "", "minimize "):
        try:
            with _quiet():
                mo.optimize_match(o, optimization_method=bad, maxiter=1)
            got = "returned"
        except ValueError:
            got = "ValueError"
        except Exception as e:  # noqa
            got = f"{type(e).__name__}: {e}"
        ctx.spec("an unsupported optimisation method is refused with ValueError", {"optimization_method": bad}, got == "ValueError", got,
                 key="opt:unsupported-method")
        ctx.count("registry:bad-method")


def _sec_interleaved(ctx, mo, reg, fam, rng, n_groups, length):
    """several score objects alive in one process, built from the SAME arrays (as a caller comparing scores does) and
    evaluated in turn; poses handed over as tuples / lists / arrays, the same array object re-used.  Every value must be
    the value of a fresh object built from untouched copies and evaluated at that pose only: state shared between
    objects (class- or module-level scratch, caches keyed by shape / centre only, the caller's arrays written to) or kept
    across calls (a memo on the last pose) shows up as a difference."""
    names_c = [k for k in reg if fam[k] in ("c2d", "c2c")]
    for g in range(n_groups):
        data, coords, w = _scene(rng)
        sc = float(rng.choice([1e-3, 1.0, 1.0, 1e3]))
        data, w = data * sc, w * sc
        P = _Pres(rng) if rng.random() < 0.6 else _PLAIN
        live = {"target": P("target", data), "coords": P("coords", coords), "weights": P("weights", w),
                "tmask": P("mask", data > 0.05 * sc), "ones": None}
        pristine = {k: (None if v is None else np.array(v, copy=True)) for k, v in live.items()}
        k_obj = int(rng.integers(2, 5))
        specs = []
        flc_pair = rng.random() < 0.5
        for i in range(k_obj):
            if flc_pair and i < 2:
                # two density scores whose templates differ by one voxel along some axes: same floor(extent / 2)
                if i == 0:
                    half = [int(rng.integers(2, 4)) for _ in range(3)]
                    lo = [int(rng.integers(0, N - 2 * h_ - 1)) for h_, N in zip(half, data.shape)]
                ext = [2 * h_ + (int(rng.random() < 0.6) if i == 1 else 0) for h_ in half]
                if i == 1 and ext == [2 * h_ for h_ in half]:
                    ext[int(rng.integers(0, 3))] += 1
                specs.append({"name": "FLC", "lo": list(lo), "ext": ext, "mask": str(rng.choice(["ones", "sub", "none"])),
                              "rotate_mask": bool(rng.random() < 0.7), "order": int(rng.choice([1, 3])),
                              "target_mask": bool(rng.random() < 0.3)})
            else:
                nm = str(rng.choice(names_c))
                specs.append({"name": nm, "mask": "full" if nm == "MaskedCrossCorrelation" else str(rng.choice(["full", "none"])),
                              "negate": bool(rng.random() < 0.5),
                              "order": int(rng.choice([1, 1, 3])) if fam[nm] == "c2d" else None})

        def build(sp_, src):
            """src: the arrays handed over (the live ones are shared by all objects of the group)"""
            with _quiet():
                if sp_["name"] == "FLC":
                    box = tuple(slice(a, a + e) for a, e in zip(sp_["lo"], sp_["ext"]))
                    tmpl = src["target"][box]                      # a view into the caller's target
                    m = None if sp_["mask"] == "none" else np.ones(sp_["ext"]) if sp_["mask"] == "ones" else \
                        (np.asarray(tmpl) > np.median(np.asarray(tmpl))).astype(np.float32)
                    kw_ = {"target_mask": src["tmask"].astype(float)} if sp_["target_mask"] else {}
                    return mo.create_score_object("FLC", target=src["target"], template=tmpl, template_mask=m,
                                                  rotate_mask=sp_["rotate_mask"], interpolation_order=sp_["order"], **kw_)
                if fam[sp_["name"]] == "c2c":
                    return mo.create_score_object(sp_["name"], target_coordinates=src["coords"], target_weights=src["weights"],
                                                  template_coordinates=src["coords"], template_weights=src["weights"],
                                                  template_mask_coordinates=None if sp_["mask"] == "none" else src["coords"],
                                                  negate_score=sp_["negate"])
                return mo.create_score_object(sp_["name"], target=src["target"], target_mask=src["tmask"],
                                              template_coordinates=src["coords"], template_weights=src["weights"],
                                              template_mask_coordinates=None if sp_["mask"] == "none" else src["coords"],
                                              negate_score=sp_["negate"], interpolation_order=sp_["order"])

        def fresh_src():
            return {k: (None if v is None else np.array(v, copy=True)) for k, v in pristine.items()}

        def ev(o, x):
            try:
                return _val(o.score(x))
            except Exception as e:  # noqa
                return ("raised:" + type(e).__name__, None)
        objs = []
        for sp_ in specs:
            try:
                objs.append(build(sp_, live))
            except Exception as e:  # noqa
                objs.append(None)
                ctx.spec("every registered score evaluates through score(x) (no pose is rejected)",
                         {"score": sp_["name"], "spec": sp_, "arrays": P.describe(), "group": [q["name"] for q in specs]}, False,
                         f"construction: {type(e).__name__}: {e}", key=f"callable:{sp_['name']}")
        L = int(rng.integers(3, length + 1)) * k_obj
        pool = []       # pose containers already used (re-used by reference)
        trace = []
        for step in range(L):
            i = int(rng.integers(0, k_obj))
            if objs[i] is None:
                continue
            sp_ = specs[i]
            r_ = rng.random()
            if pool and r_ < 0.25:
                xc, ck = pool[int(rng.integers(0, len(pool)))]
                kind = "reused-container"
            else:
                if pool and r_ < 0.45:
                    x = _near(rng, np.array(pool[-1][0], dtype=float))
                    kind = "near-repeat"
                elif sp_["name"] == "FLC":
                    kind = str(rng.choice(FLC_KINDS))
                    x = _flc_pose(rng, kind, sp_["ext"], data.shape)
                else:
                    kind = str(rng.choice(POSE_KINDS))
                    x = _rand_pose(rng, kind, data.shape[0])
                xc, ck = _container(rng, x)
                pool.append((xc, ck))
            before = np.array(xc, dtype=np.float64)
            va = ev(objs[i], xc)
            unchanged = bool(np.array_equal(np.array(xc, dtype=np.float64), before))
            B = build(sp_, fresh_src())
            xb = np.array(xc, copy=True) if isinstance(xc, np.ndarray) else type(xc)(xc)
            vb = ev(B, xb)
            inp = {"score": sp_["name"], "spec": sp_, "alive": [q["name"] + (str(q["ext"]) if "ext" in q else "") for q in specs],
                   "object": i, "step": step, "arrays": P.describe(), "scale": sc, "pose": [float(v) for v in before], "container": ck,
                   "evaluated_before": trace[-6:]}
            ok_call = not isinstance(va[0], str)
            ctx.spec("every registered score evaluates through score(x) (no pose is rejected)", inp, ok_call, va[0],
                     key=f"callable:{sp_['name']}")
            same = (va[0] == vb[0] and va[1] == vb[1]) or (ok_call and not isinstance(vb[0], str) and va[0] != va[0] and vb[0] != vb[0])
            ctx.spec("score(x) does not depend on the poses evaluated before", inp, same, {"history": va[0], "fresh": vb[0]},
                     key=f"repeat:{sp_['name']}")
            ctx.spec("score(x) leaves the caller's pose untouched", inp, unchanged, {"before": before, "after": np.array(xc, dtype=float)},
                     key=f"pose-unchanged:{sp_['name']}")
            trace.append((i, sp_["name"], [round(float(v), 4) for v in before]))
            ctx.count("interleaved:pose=" + kind)
            ctx.count("interleaved:container=" + ck)
        ctx.count(f"interleaved:objects={k_obj}")
        ctx.count("interleaved:flc-pair" if flc_pair else "interleaved:mixed")
        ctx.distinct(("interleaved", tuple(q["name"] for q in specs), tuple(sorted(P.describe().items())), g, L))
    ctx.sample({"check": "interleaved", "alive": [q["name"] for q in specs], "arrays": P.describe(), "last": trace[-3:]}, limit=9)


def _sec_windows(ctx, rng, nmax):
    """window arithmetic alone, exhaustively on small extents (model = the repaired arithmetic; clause = intersection)"""
    reqs, keep = [], []
    for n in range(1, nmax + 1):
        for N in range(1, nmax + 3):
            for v2 in range(-2 * (n + 2), 2 * (N + 3)):
                reqs.append(("c17.window", {"n": n, "N": N, "num": v2, "den": 2, "old": False}))
                keep.append((n, N, v2))
    res = ctx.driver.batch(reqs)
    bad = 0
    for (n, N, v2), r in zip(keep, res):
        v = int(v2 / 2)
        want = max(0, min(v + n, N) - max(v, 0))
        if not (r["v"] == v and r["lens"] == [want, want]):
            bad += 1
    ctx.obligation("model window lengths == intersection lengths on the enumerated extents", bad == 0, {"bad": bad, "cases": len(keep)})
    ctx.count("window-enumeration", len(keep))


# ------------------------------------------------------------------------------------------------
def _competitors(rng, xp, n, extent):
    out = []
    for _ in range(n):
        sc = float(rng.choice([0.2, 1, 3, 10]))
        out.append(tuple(np.asarray(xp) + np.concatenate([rng.normal(0, 0.3 * sc, 3), rng.normal(0, 3 * sc, 3)])))
    for _ in range(max(4, n // 5)):
        sh = rng.integers(-3, 4, 3).astype(float)
        if np.any(sh != 0):
            out.append(tuple(np.asarray(xp) + np.concatenate([sh, np.zeros(3)])))
    return out


def _flc_planted(mo, rng, data, variant, pres=None, decoy=None):
    """template T with T_rot(o) == target[v + o] at the pose (v + sub, angles): T(u) = target(v + c + R(u - c + sub)).
    pres: (P, scale, offset, target-mask kind, negate) - how the caller presents the same experiment"""
    from scipy.ndimage import map_coordinates
    from scipy.spatial.transform import Rotation
    P, sc, off, tmk, negate = pres or (None, 1.0, 0.0, "none", True)
    give = (lambda role, a: a) if P is None else P
    lo = np.array([int(rng.integers(2, N // 3)) for N in data.shape])
    ext = tuple(int(rng.integers(N // 3, N // 2)) for N in data.shape)
    kw = {"negate_score": negate}
    if tmk != "none":    # a target mask that is 1 wherever the planted window lies (all ones, or a box around the window)
        tm = np.ones(data.shape)
        if tmk == "box":
            tm[:] = 0
            tm[tuple(slice(max(a - 3, 0), a + e + 4) for a, e in zip(lo, ext))] = 1
        cut = None
        if tmk == "cut":
            # the mask removes a bright neighbour that reaches into the planted window: the template is the window of the
            # *masked* target (identity variant only - exact copy), so the generating pose still scores a perfect match
            cut = tuple(slice(a + e - max(e // 3, 1), a + e + 2) for a, e in zip(lo, ext))
            tm[cut] = 0
        kw["target_mask"] = give("mask", tm)
    rev = (slice(None, None, -1),) * 3

    def build(target, tmpl, order=None):
        kw_ = dict(kw) if order is None else dict(kw, interpolation_order=order)
        if decoy:
            # another experiment with arrays of the same shapes and dtypes but other content, evaluated at the very same
            # pose just before (kept alive or dropped): nothing of it may be found again in the object under test
            d_ = mo.create_score_object("FLC", target=give("target", target[rev]), template=give("template", tmpl[rev]),
                                        template_mask=give("mask", np.ones_like(tmpl)), **kw_)
            d_.score(tuple(xp_))
            keep.append(d_ if decoy == "keep" else None)
        return mo.create_score_object("FLC", target=give("target", target), template=give("template", tmpl),
                                      template_mask=give("mask", np.ones_like(tmpl)), **kw_)
    keep = []
    if variant == "identity":
        datan = (data + 0.01 * rng.random(data.shape)) * sc + off
        if tmk == "cut":
            datan[cut] += 5.0 * float(np.abs(datan).max())
        tmpl = (datan if tmk != "cut" else datan * tm)[tuple(slice(a, a + e) for a, e in zip(lo, ext))].copy()
        xp_ = np.array([*lo, 0, 0, 0], dtype=float)
        o = build(datan, tmpl)
        return o, xp_, keep
    # a band-limited texture on top of the blob: windows of a smooth blob are nearly indistinguishable for a
    # normalised score (other windows reach -0.998), which would leave the clause to interpolation error
    from scipy.ndimage import gaussian_filter
    tex = gaussian_filter(rng.normal(size=data.shape), 1.0)
    data = (data + 0.5 * tex / tex.std()) * sc + off
    sub = rng.uniform(0.15, 0.85, 3) * (rng.random(3) < 0.8)
    ang = rng.uniform(-15, 15, 3) if variant == "rigid" else np.zeros(3)
    R = Rotation.from_euler("zyx", ang, degrees=True).as_matrix()
    c = np.floor(np.array(ext) / 2)
    u = np.indices(ext).reshape(3, -1).astype(float)
    pos = (lo + c)[:, None] + R @ (u - c[:, None] + sub[:, None])
    tmpl = map_coordinates(data, pos, order=3, mode="constant").reshape(ext)
    xp_ = np.array([*(lo + sub), *ang], dtype=float)
    o = build(data, tmpl, order=3 if variant == "rigid" else int(rng.choice([1, 3])))      # full mask: see ASSUMPTIONS
    return o, xp_, keep


def _sec_planted(ctx, mo, reg, fam, rng, n_scene, n_comp):
    from scipy.spatial.transform import Rotation
    n_pres = {}

    def _tmk(vname):
        # target-mask kinds of the density score; the exact-copy variant meets every kind in turn ('cut' first)
        if vname != "identity":
            return str(rng.choice(["none", "ones", "box"]))
        n_pres["flc-identity"] = n_pres.get("flc-identity", 0) + 1
        k = ["cut", "none", "ones", "box"][(n_pres["flc-identity"] - 1) % 4]
        ctx.count("planted:flc-identity:target_mask=" + k)
        return k
    for s in range(n_scene):
        data, coords, w = _scene(rng)
        ang0 = rng.uniform(-40, 40, 3)
        t0 = rng.uniform(-2.5, 2.5, 3)
        R0 = Rotation.from_euler("zyx", ang0, degrees=True).as_matrix()
        mean = coords.mean(axis=1, keepdims=True)
        moved = R0 @ (coords - mean) + mean + t0[:, None]
        xinv = np.concatenate([-t0, Rotation.from_matrix(R0.T).as_euler("zyx", degrees=True)])
        for name in reg:
            if name not in KIND and name not in D2D:
                continue      # a score the model does not know: its direction ('best') is not defined here
            variants = [("identity", coords, np.zeros(6))]
            if name in ("CrossCorrelation", "NormalizedCrossCorrelation", "NormalizedCrossCorrelationMean",
                        "MaskedCrossCorrelation", "PartialLeastSquareDifference", "Chamfer", "NormalVectorScore"):
                variants.append(("moved", moved, xinv))
            if name == "MaskedCrossCorrelation":
                # voxel look-up by truncation (known finding): 0.001 voxel above the generating pose every coordinate
                # truncates to its own voxel again
                variants.append(("moved+0.001", moved, xinv + np.array([1e-3, 1e-3, 1e-3, 0, 0, 0])))
            if fam[name] == "d2d":
                variants = [("identity", None, None), ("subvoxel", None, None), ("rigid", None, None)]
            for vname, cc, xp in variants:
                negate = name not in DISTANCES
                # the same experiment as another caller would set it up: sign convention, absolute intensities, arrays in other
                # layouts / dtypes / read-only, interpolation order, more target points than template points.  Only what
                # leaves the generating pose optimal by the score's own definition: offsets for the scores that are
                # bounded by Cauchy-Schwarz / are sums of squares / are invariant under them; higher orders likewise.
                pres = bool(rng.random() < 0.5)
                P, sc, off, kw, unit, extra_t = None, 1.0, 0.0, {}, 1.0, 0
                if pres:
                    P = _Pres(rng)
                    negate = bool(rng.random() < 0.5)
                    n_pres[name] = n_pres.get(name, 0) + 1
                    sc = [1e-9, 1e3, 1.0, 1e-3, 1e2][n_pres[name] % 5]       # every amplitude for every score in every run
                    if fam[name] == "d2d" and sc < 1e-3:
                        # the low-variance guard of the density score is the machine epsilon of the target's dtype: float32
                        # targets of amplitude 1e-9 are below it by design of the guard (score 0 everywhere) - float64 here
                        P.role["target"] = (P.role["target"][0], "f8")
                    if name in ("NormalizedCrossCorrelation", "PartialLeastSquareDifference", "MutualInformation"):
                        off = float(rng.choice([0.0, 0.5, 5.0, -2.0])) * sc
                    if name in ("NormalizedCrossCorrelation", "PartialLeastSquareDifference") and rng.random() < 0.6:
                        kw["interpolation_order"] = int(rng.choice([0, 3]))
                    if name == "Chamfer" and rng.random() < 0.6:
                        extra_t = int(rng.integers(1, 40))
                    ctx.count("planted:presented")
                if name in ("CrossCorrelation", "LaplaceCrossCorrelation"):
                    unit = sc * sc
                elif name == "PartialLeastSquareDifference":
                    unit = (sc + abs(off)) ** 2
                lower_better = negate != (name in DISTANCES)
                sgn = 1.0 if lower_better else -1.0
                # another experiment of the same class with arrays of identical shapes and dtypes but other content, evaluated at
                # the same pose just before, kept alive or dropped (address re-use): a cache keyed by shape / id() / pose /
                # class would hand its state to the object under test
                decoy = str(rng.choice(["none", "keep", "drop"]))
                kept = []
                rev = (slice(None, None, -1),) * 3
                try:
                    with _quiet():
                        if fam[name] == "d2d":
                            fp = None
                            if pres:
                                fp = (P, sc, float(rng.choice([0.0, 0.5])) * sc, _tmk(vname), negate)
                                off = fp[2]
                            o, xp, kept = _flc_planted(mo, rng, data, vname, fp, None if decoy == "none" else decoy)
                            cc = coords
                        elif fam[name] == "c2c":
                            tcs, tws = coords, w
                            if extra_t:     # the target has points of its own besides the template's
                                tcs = np.concatenate([coords, rng.uniform(0, data.shape[0], (3, extra_t))], axis=1)
                                tws = np.concatenate([w, rng.random(extra_t)])
                            if decoy != "none":
                                d_ = _make(mo, name, "c2c", data, cc[:, ::-1] + 3.0, w[::-1], "none", negate, tcoords=tcs[:, ::-1] + 5.0,
                                           tweights=tws[::-1], P=P)
                                d_.score(tuple(xp))
                                kept.append(d_ if decoy == "keep" else None)
                                del d_
                            o = _make(mo, name, "c2c", data, cc, w, "none", negate, tcoords=tcs, tweights=tws, P=P)
                        else:
                            if decoy != "none":
                                d_ = _make(mo, name, "c2d", (data * sc + off)[rev], np.ascontiguousarray(cc[:, ::-1]), (w * sc + off)[::-1],
                                           "full", negate, P=P, tmask=(data > 0.05)[rev], **kw)
                                d_.score(tuple(xp))
                                kept.append(d_ if decoy == "keep" else None)
                                del d_
                            o = _make(mo, name, "c2d", data * sc + off, cc, w * sc + off, "full", negate, P=P, tmask=data > 0.05, **kw)
                    sp = sgn * _val(o.score(tuple(xp)))[0]
                    comps = _competitors(rng, xp, n_comp, data.shape[0])
                    if fam[name] == "d2d":   # the pose with the fractional part mirrored about the voxel
                        fr = xp[:3] - np.trunc(xp[:3])
                        comps.append(tuple(np.concatenate([np.trunc(xp[:3]) - fr, xp[3:]])))
                        comps.append(tuple(np.concatenate([np.trunc(xp[:3]) + 2 * (fr > 0) - fr, xp[3:]])))
                    # sp, vals: the score in the orientation 'lower is better' whatever the caller's sign convention
                    vals = sgn * np.array([_val(o.score(x))[0] for x in comps])
                except Exception as e:  # noqa
                    ctx.spec("every registered score evaluates through score(x) to a finite value",
                             {"score": name, "variant": vname, "negate_score": negate, "shape": data.shape, "decoy": decoy,
                              "arrays": None if P is None else P.describe(), "scale": sc, "offset": off, "options": kw},
                             False, f"{type(e).__name__}: {e}", key=f"callable:{name}")
                    continue
                ctx.count("planted:decoy=" + decoy)
                # 'best within tolerance': in value (0.2 %, interpolated rigid templates 0.5 %) against poses that are
                # really different, and 5 % against near neighbours (< 1 voxel and < 5 degrees away), whose
                # advantage is interpolation error
                d = np.abs(np.array(comps) - np.asarray(xp)[None, :])
                # (a pose less than one voxel and less than 5 degrees away is not 'really different' at the resolution of the data:
                #  thorough seed 9 had LaplaceCrossCorrelation beaten by 0.9 % by a neighbour 0.56 voxel / 2.8 degrees away)
                near = (d[:, :3].max(axis=1) < 1.0) & (d[:, 3:].max(axis=1) < 5.0)
                rt = np.where(near, PLANTED_RTOL_NEAR, (2.5 if vname == "rigid" else 1.0) * PLANTED_RTOL)
                margin = vals - (sp - (rt * abs(sp) + 1e-6 * unit))     # < 0: beats the planted pose beyond the tolerance
                better = int((margin < 0).sum())
                worst = int(margin.argmin())
                inp = {"score": name, "variant": vname, "negate_score": negate, "shape": data.shape, "points": int(cc.shape[1]),
                       "planted_pose": [float(v) for v in xp],
                       "best_competitor": [float(v) for v in comps[worst]]}
                inp["decoy_before"] = decoy
                if pres:
                    inp.update({"arrays": P.describe(), "scale": sc, "offset": off, "options": kw, "extra_target_points": extra_t})
                ctx.spec("similarity scores are best (within tolerance) at the generating pose", inp, better == 0,
                         {"planted": sgn * sp, "best_other": float(sgn * vals[worst]), "near": bool(near[worst]), "n_better": better,
                          "of": len(vals)},
                         key=f"planted-best:{name}:{vname}")
                if name in DISTANCES:
                    # interpolated values and weights are the same float32 numbers up to the error of the transformed
                    # coordinates (1e-5 voxel x gradient ~ amplitude): squared and summed, proportional to amplitude^2
                    ctx.spec("distance scores vanish at the generating pose", inp, abs(sp) <= 1e-3 * unit, {"planted": sgn * sp},
                             key=f"planted-zero:{name}:{vname}")
                # normalised similarity scores attain their bound there (Cauchy-Schwarz equality; a constant score
                # would satisfy 'best' vacuously)
                bound = {("NormalizedCrossCorrelation", "identity"): 1e-3, ("NormalizedCrossCorrelation", "moved"): 1e-3,
                         ("MaskedCrossCorrelation", "moved+0.001"): 1e-3, ("FLC", "identity"): 1e-4,
                         ("FLC", "subvoxel"): 0.05, ("FLC", "rigid"): 0.05}.get((name, vname))
                if bound is not None:
                    if name == "FLC" and off:
                        # float32 variance by E[x^2] - E[x]^2: relative error ~ eps32 (1 + mean^2 / variance), a few terms
                        bound += 32 * float(np.finfo(np.float32).eps) * (1 + (off + 0.5 * sc) ** 2 / (0.1 * sc) ** 2)
                    ctx.spec("normalised similarity scores attain -1 at the generating pose", inp, abs(sp + 1.0) <= bound,
                             {"planted": sgn * sp}, key=f"planted-value:{name}:{vname}")
                ctx.count(f"planted:{vname}")
                ctx.distinct(("planted", name, vname, s, ctx.seed))
        ctx.sample({"check": "planted", "score": name, "variant": vname, "planted_value": sgn * sp, "best_other": float(sgn * vals.min())}, limit=5)


# ------------------------------------------------------------------------------------------------
class _Spy:
    """records the optimiser call of optimize_match and (optionally) replaces the optimiser by a stub"""

    def __init__(self, mo, stub=None):
        self.mo, self.stub = mo, stub
        self.calls, self.euler = [], []

    def __enter__(self):
        from scipy.optimize import OptimizeResult
        mo = self.mo
        self.saved = {k: getattr(mo, k) for k in ("minimize", "basinhopping", "differential_evolution", "euler_to_rotationmatrix")}

        def wrap(name):
            real = self.saved[name]

            def f(*a, **kw):
                rec = {"method": name, "kw": kw}
                self.calls.append(rec)
                if self.stub is None:
                    return real(*a, **kw)
                func = kw.get("func", kw.get("fun"))
                x = np.asarray(self.stub(rec), dtype=float)
                v = func(x)
                if isinstance(v, (tuple, list)):
                    v = v[0]
                return OptimizeResult(x=x, fun=v, nit=1, success=True, message="stub")
            return f
        for k in ("minimize", "basinhopping", "differential_evolution"):
            setattr(mo, k, wrap(k))
        real_e = self.saved["euler_to_rotationmatrix"]

        def e(angles, *a, **kw):
            self.euler.append(np.array(angles, dtype=float))
            return real_e(angles, *a, **kw)
        mo.euler_to_rotationmatrix = e
        return self

    def __exit__(self, *exc):
        for k, v in self.saved.items():
            setattr(self.mo, k, v)


class _Bowl:
    """a caller's own score object: only `score(x)` (x by keyword, as optimize_match calls it); minimum `p`"""

    def __init__(self, p):
        self.p = np.asarray(p, dtype=float)
        self.scale = np.array([1, 1, 1, 0.05, 0.05, 0.05])

    def score(self, x):
        d = (np.asarray(x, dtype=float) - self.p) * self.scale
        return float(np.dot(d, d))


def _consts():
    fi = np.finfo(np.float32)
    return {"fmin": _micro(fi.min), "fmax": _micro(fi.max), "res": _micro(fi.resolution), "half": _micro(180), "ndim": 3}


def _gen_bounds(rng, kind):
    """(lo, hi) per axis, multiples of 0.25; `kind`: around0 / exclude0 / pinned (0,0) mixed in"""
    out = []
    for _ in range(3):
        r = rng.random()
        if r < 0.2:
            out.append((0, 0))
        elif r < 0.32:
            c = float(rng.integers(1, 20)) / 4 * (1 if rng.random() < 0.5 else -1)
            out.append((c, c))                 # pinned away from zero: a degenerate interval that is NOT the documented (0, 0)
        elif kind == "exclude0" or (kind == "mixed" and r < 0.6):
            lo = float(rng.integers(1, 20)) / 4 * (1 if rng.random() < 0.5 else -1)
            wd = float(rng.integers(1, 16)) / 4
            lo, hi = (lo, lo + wd) if lo > 0 else (lo - wd, lo)
            out.append((lo, hi))
        else:
            out.append((-float(rng.integers(1, 24)) / 4, float(rng.integers(1, 24)) / 4))
    return tuple(out)


def _in_user_bounds(vals, bnds, tol):
    return all(lo - tol <= v <= hi + tol for v, (lo, hi) in zip(vals, bnds))


def _sec_optimize(ctx, mo, rng, n_stub, n_real):
    from tme.matching_utils import euler_to_rotationmatrix
    data, coords, w = _scene(rng, 16)
    while coords.shape[1] > 60:
        keep = rng.random(coords.shape[1]) < 0.7
        coords, w = coords[:, keep], w[keep]
    objs = {}
    with _quiet():
        objs["CrossCorrelation"] = _make(mo, "CrossCorrelation", "c2d", data, coords, w, "none")
        objs["NormalizedCrossCorrelation"] = _make(mo, "NormalizedCrossCorrelation", "c2d", data, coords, w, "none")
        objs["Chamfer"] = _make(mo, "Chamfer", "c2c", data, coords, w, "none", negate=False)
        objs["FLC"] = _make_any(mo, "FLC", "d2d", data, coords, w, "full")
        objs["CrossCorrelation+grad"] = _make(mo, "CrossCorrelation", "c2d", data, coords, w, "none", return_gradient=True)
    # 'score_object: class object that defines a score method': a caller's own object (no return_gradient, no grad),
    # a quadratic bowl whose minimum lies inside / outside / on the edge of the boxes drawn below
    objs["user:bowl"] = _Bowl(np.concatenate([rng.normal(0, 1.5, 3), rng.normal(0, 8, 3)]))
    objs["user:bowl-far"] = _Bowl(np.concatenate([rng.choice([-1, 1], 3) * rng.uniform(6, 12, 3), rng.choice([-1, 1], 3) * rng.uniform(40, 170, 3)]))
    fresh = {}
    with _quiet():
        fresh["CrossCorrelation"] = lambda: _make(mo, "CrossCorrelation", "c2d", data, coords, w, "none")  # noqa
        fresh["NormalizedCrossCorrelation"] = lambda: _make(mo, "NormalizedCrossCorrelation", "c2d", data, coords, w, "none")  # noqa
        fresh["Chamfer"] = lambda: _make(mo, "Chamfer", "c2c", data, coords, w, "none", negate=False)  # noqa
        fresh["FLC"] = lambda: _make_any(mo, "FLC", "d2d", data, coords, w, "full")  # noqa
        fresh["CrossCorrelation+grad"] = lambda: _make(mo, "CrossCorrelation", "c2d", data, coords, w, "none")  # noqa
    C = _consts()
    fi = np.finfo(np.float32)
    ctx.obligation("optimize_match constants (float32 min/max/resolution in 1e-6 units, +-180 deg, ndim 3)",
                   C == {"fmin": _micro(float(fi.min)), "fmax": _micro(float(fi.max)), "res": 1, "half": 180000000, "ndim": 3}, C)
    methods = ["minimize", "basinhopping", "differential_evolution"]

    def one(real, i):
        name = str(rng.choice(list(objs)))
        if real:
            name = str(rng.choice(["CrossCorrelation", "NormalizedCrossCorrelation", "Chamfer", "FLC", "CrossCorrelation+grad",
                                   "user:bowl", "user:bowl-far"], p=[0.18, 0.18, 0.14, 0.14, 0.16, 0.1, 0.1]))
        o = objs[name]
        if hasattr(o, "return_gradient"):
            o.return_gradient = name.endswith("+grad")
        method = methods[i % 3] if not real else str(rng.choice(methods, p=[0.5, 0.2, 0.3]))
        bk = str(rng.choice(["none", "t", "r", "both"], p=[0.15, 0.2, 0.2, 0.45]))
        style = str(rng.choice(["around0", "exclude0", "mixed"]))
        force_outside = bool(real and i % 4 == 1)        # every fourth real run: population-based optimiser, box that excludes 0
        if force_outside:
            method, bk, style = "differential_evolution", "t", "exclude0"
        if real and method == "differential_evolution" and bk in ("none", "r"):
            bk = "both" if bk == "r" else "t"     # documented: differential_evolution requires bounds on translation
        bt = _gen_bounds(rng, style) if bk in ("t", "both") else None
        br = _gen_bounds(rng, style) if bk in ("r", "both") else None
        # start inside the bounds (or None when 0 is admissible)
        def inside(b, scale):
            if b is None:
                return [float(v) for v in rng.normal(0, scale, 3)]
            return [float(lo + (hi - lo) * rng.random()) if hi > lo else float(lo) for lo, hi in b]
        zero_ok = all(lo <= 0 <= hi for lo, hi in (bt or ()) + (br or ()))
        if name == "FLC":   # FLC translations place the template corner: keep the start on the target
            x0 = None if (zero_ok and rng.random() < 0.5) else tuple(inside(bt, 1.0) + inside(br, 10.0))
        else:
            x0 = None if (zero_ok and rng.random() < 0.35) else tuple(inside(bt, 1.0) + inside(br, 10.0))
        # the documented interface does not require the start to lie inside the box: with the population-based optimiser (which
        # takes no start) a box that excludes the default start 0 must still produce a result, not an exception
        outside_start = bool(real and method == "differential_evolution" and not zero_ok and (force_outside or rng.random() < 0.5))
        if outside_start:
            x0 = None
        mode = str(rng.choice(["inside", "equal-start", "far"], p=[0.7, 0.15, 0.15]))

        if mode == "equal-start":
            stub_x = np.zeros(6) if x0 is None else np.array(x0, dtype=float)
        else:
            stub_x = np.array(inside(bt, 2.0 if mode == "inside" else 8.0) + inside(br, 15.0 if mode == "inside" else 90.0))

        def stub(rec):
            return stub_x.copy()
        inp = {"score": name, "method": method, "bounds_translation": bt, "bounds_rotation": br, "x0": x0,
               "optimiser": "scipy" if real else "stub:" + mode}
        x0_eff = np.zeros(6) if x0 is None else np.array(x0, dtype=float)
        s0 = _val(o.score(tuple(x0_eff)))[0]
        if hasattr(o, "return_gradient"):
            o.return_gradient = name.endswith("+grad")
        np.random.seed(int(rng.integers(1 << 30)))
        # the start as the caller may hand it over: tuple (documented), list, float64 array
        x0c, ck = (None, "none") if x0 is None else _container(rng, x0, kinds=("tuple", "tuple", "list", "f8"))
        inp["x0_container"] = ck
        try:
            with _quiet(), _Spy(mo, None if real else stub) as spy:
                tr, R, sc = mo.optimize_match(o, bounds_translation=bt, bounds_rotation=br, optimization_method=method,
                                              maxiter=int(rng.integers(1, 4)) if real else 2, x0=x0c)
        except Exception as e:  # noqa
            ctx.spec("optimize_match returns", inp, False, f"{type(e).__name__}: {e}", key=f"opt:raised:{method}")
            return
        if hasattr(o, "return_gradient"):
            o.return_gradient = False
        ang = spy.euler[-1]
        call = spy.calls[-1]
        kw = call["kw"]
        # ---- what the optimiser was given
        got_b = kw.get("bounds")
        cons = kw.get("constraints", kw.get("minimizer_kwargs", {}).get("constraints", ()))
        cons_b = None if isinstance(cons, tuple) and cons == () else [[_micro(a), _micro(b)] for a, b in zip(cons.lb, cons.ub)]
        got_bm = None if got_b is None else [[_micro(a), _micro(b)] for a, b in got_b]
        jb = lambda b: None if b is None else [[_micro(lo), _micro(hi)] for lo, hi in b]  # noqa
        mb = ctx.driver.call("c17.effBounds", method=method, bt=jb(bt), br=jb(br), **C)
        if method == "basinhopping":
            ctx.agree("bounds handed to the optimiser", inp, cons_b, mb)
        else:
            ctx.agree("bounds handed to the optimiser", inp, [got_bm, cons_b], [mb, mb])
        if method != "differential_evolution":
            ms = ctx.driver.call("c17.startPose", x0=None if x0 is None else [_fkey(v) for v in x0], **C)
            ctx.agree("start handed to the optimiser", inp, [_fkey(v) for v in np.asarray(kw["x0"], dtype=float)],
                      ms if x0 is not None else [_fkey(0.0)] * 6)
        # ---- decision after the optimiser (only decidable exactly with the stub: we know its result)
        pose = np.concatenate([np.asarray(tr, dtype=float), ang])
        if not real:
            rx = stub(None)
            rf = _val(o.score(tuple(rx)))[0]
            mw = ctx.driver.call("c17.optimizeWrap", x0=[_fkey(v) for v in x0_eff], initial=_fkey(s0),
                                 resX=[_fkey(v) for v in rx], resFun=_fkey(rf), old=False)
            ctx.agree("returned (pose, score) == wrapper decision", inp, {"x": [_fkey(v) for v in pose], "fun": _fkey(sc)}, mw)
            ctx.count("opt-branch:" + ("start-kept" if s0 < rf else "refined-kept"))
            res_in = (bt is None or _in_user_bounds(rx[:3], bt, 0)) and (br is None or _in_user_bounds(rx[3:], br, 0))
        else:
            res_in = True
        # ---- the property's clauses on the real return values
        tol_b = 2e-3 if real else 2e-6
        ok_b = (bt is None or _in_user_bounds(pose[:3], bt, tol_b)) and (br is None or _in_user_bounds(pose[3:], br, tol_b)) \
            and np.allclose(np.asarray(R, dtype=float), euler_to_rotationmatrix(ang), atol=1e-6)
        if outside_start:
            inp["start_outside_bounds"] = True
            # the start itself is not admissible: only a pose that differs from it has to respect the box
            res_in = bool(np.max(np.abs(pose - x0_eff)) > 1e-9)
            ctx.count("opt:real:start-outside-bounds")
        if res_in:
            ctx.spec("optimize_match returns a pose inside the given bounds", inp, ok_b,
                     {"translation": pose[:3], "angles": pose[3:]}, key=f"opt:in-bounds:{method}")
        ctx.spec("optimize_match's score is no worse than the start's", inp, float(sc) <= s0,
                 {"returned": float(sc), "start": s0}, key=f"opt:no-worse:{method}")
        rs = _val(o.score(tuple(pose)))[0]
        ctx.spec("optimize_match's score is the score of the returned pose", inp, rs == float(sc),
                 {"returned": float(sc), "rescored": rs}, key=f"opt:score-of-pose:{method}")
        ctx.count(f"opt:{'real' if real else 'stub'}:{method}:bounds={bk}:x0={'none' if x0 is None else 'given'}")
        trivial = (not real) and bk == "none" and x0 is None and mode == "equal-start"
        if not trivial:
            ctx.distinct(("opt", name, method, bk, style, x0 is None, "real" if real else mode, i))
        if i < 2:
            ctx.sample({"check": "optimize_match", **{k: v for k, v in inp.items()}, "translation": [round(float(v), 4) for v in pose[:3]],
                        "angles": [round(float(v), 3) for v in pose[3:]], "score": float(sc), "start_score": s0}, limit=8)
    for i in range(n_stub):
        one(False, i)
    for i in range(n_real):
        one(True, i)
    # the score objects have been through hundreds of optimiser runs: their values are still those of fresh objects
    for name, mk in fresh.items():
        o = objs[name]
        if hasattr(o, "return_gradient"):
            o.return_gradient = False
        with _quiet():
            B = mk()
        for k in range(4):
            x = _flc_pose(rng, "inside", (8, 8, 8), data.shape) if name == "FLC" else _rand_pose(rng, str(rng.choice(["small", "large", "int"])), 16)
            va, vb = _val(o.score(x)), _val(B.score(x))
            ctx.spec("score(x) does not depend on the poses evaluated before",
                     {"score": name, "history": f"{n_stub + n_real} optimize_match runs on this object", "pose": x},
                     _same(va, vb), {"history": va[0], "fresh": vb[0]}, key=f"repeat:{name.split('+')[0]}")
        ctx.count("opt:after-runs-vs-fresh")


# ------------------------------------------------------------------------------------------------
def _structure(coords, elements=None):
    from tme import Structure
    n = len(coords)
    el = ["C"] * n if elements is None else list(elements)
    return Structure(record_type=["ATOM"] * n, atom_serial_number=list(range(n)), atom_name=el, atom_coordinate=coords,
                     alternate_location_indicator=["."] * n, residue_name=["GLY"] * n, chain_identifier=["A"] * n,
                     residue_sequence_number=list(range(n)), code_for_residue_insertion=["?"] * n, occupancy=[1.0] * n,
                     temperature_factor=[0.0] * n, segment_identifier=["1"] * n, element_symbol=el, charge=["?"] * n,
                     metadata={})


def _rand_rotation(rng):
    from scipy.spatial.transform import Rotation
    r = rng.random()
    if r < 0.1:
        return np.eye(3), "identity"
    if r < 0.3:   # grid rotations / half turns
        perm = rng.permutation(3)
        M = np.zeros((3, 3))
        for i, p in enumerate(perm):
            M[i, p] = rng.choice([-1, 1])
        if np.linalg.det(M) < 0:
            M[0] *= -1
        return M, "grid"
    if r < 0.4:
        return Rotation.from_rotvec(np.pi * _unit(rng)).as_matrix(), "half-turn"
    if r < 0.5:
        return Rotation.from_rotvec(1e-4 * _unit(rng)).as_matrix(), "tiny"
    return Rotation.random(random_state=int(rng.integers(1 << 30))).as_matrix(), "random"


def _unit(rng):
    v = rng.normal(0, 1, 3)
    return v / np.linalg.norm(v)


def _points(rng, kind, n, scale):
    c = rng.normal(0, scale, (n, 3)) + rng.normal(0, 5 * scale, 3)
    if kind == "planar":
        c[:, 2] = 0.3 * c[:, 0] - 0.2 * c[:, 1] + 1
    elif kind == "collinear":
        c = np.outer(rng.normal(0, scale, n), _unit(rng)) + rng.normal(0, scale, 3)
    elif kind == "coincident":
        c[1:] = c[0]
    return c


def _sec_kabsch(ctx, rng, n_cases):
    from tme import Structure
    from tme.matching_utils import rigid_transform
    import tme.structure as ts
    for i in range(n_cases):
        kind = str(rng.choice(["general", "general", "planar", "collinear", "coincident"]))
        r_ = rng.random()
        # atom counts: the usual few dozen; one and two atoms (every point set is degenerate); thousands, and more than 10 000
        n = int(rng.integers(1, 3)) if r_ < 0.08 else int(rng.choice([2000, 10007])) if (r_ > 0.995 or (ctx.thorough and r_ > 0.98)) \
            else int(rng.integers(3, 40))
        if i < 2:
            n = (10007, 2000)[i]         # every run has a structure beyond 10 000 atoms
        scale = float(rng.choice([1, 10, 100]))
        dt = np.float64 if rng.random() < 0.6 else np.float32
        far = rng.random() < 0.1
        if i == 0:
            # a compact float32 structure of > 10 000 atoms far from the origin: sums accumulated in single precision
            # are off by whole units here (fixed: see findings.d/C17.json)
            kind, scale, dt, far = "general", 1.0, np.float32, True
        c = _points(rng, kind, n, scale)
        if far:
            c = c + rng.choice([-1, 1], 3) * 1e4      # far from the origin, as in large assemblies
        c = c.astype(dt)
        R, rk = _rand_rotation(rng)
        t = rng.normal(0, 3 * scale, 3) if rng.random() < 0.85 else np.zeros(3)
        # the motion as callers write it: rotation matrix in float32 (what euler_to_rotationmatrix returns) or float64,
        # translation as array / tuple / list; about the centre of mass (default) or the 'geometric centre'
        r32 = bool(rng.random() < 0.2)
        if r32:
            R = R.astype(np.float32)
        tk = str(rng.choice(["array", "tuple", "list"], p=[0.6, 0.2, 0.2]))
        tc = t if tk == "array" else tuple(float(v) for v in t) if tk == "tuple" else [float(v) for v in t]
        geo = bool(rng.random() < 0.15)
        lay = str(rng.choice(["C", "F", "readonly", "strided"], p=[0.55, 0.15, 0.15, 0.15]))
        elements = [str(e) for e in rng.choice(["C", "N", "O", "S", "H", "P"], n)] if rng.random() < 0.5 else None
        weighted = bool(rng.random() < 0.3)
        origin = None if rng.random() < 0.7 else rng.normal(0, scale, 3)
        s = _structure(_present(c, lay), elements)
        mag = float(np.abs(c).max()) + float(np.abs(t).max()) + 1.0
        tol = (1e-5 if dt == np.float32 else 1e-9) * mag
        if r32:
            # a float32 rotation matrix is orthogonal up to 2^-24 per entry: the image is a rigid copy up to ~2e-7 x extent
            tol = max(tol, 2e-6 * mag)
        Rf = np.asarray(R, dtype=np.float64)
        inp = {"points": kind, "n": n, "dtype": np.dtype(dt).name, "rotation": rk, "R": Rf, "t": t, "coords": c[:6],
               "rotation_dtype": "float32" if r32 else "float64", "translation_as": tk, "use_geometric_center": geo,
               "layout": lay, "weighted": weighted, "origin": origin, "elements": None if elements is None else elements[:6]}
        # ---- rigid motion of the point set
        try:
            with _quiet():
                moved = s.rigid_transform(rotation_matrix=R, translation=tc, use_geometric_center=geo) if geo else \
                    s.rigid_transform(rotation_matrix=R, translation=tc)
        except Exception as e:  # noqa
            ctx.spec("rigid_transform moves a point set by x -> R(x - c) + c + t (distances preserved)", inp, False,
                     f"{type(e).__name__}: {e}", key="rigid_transform:coordinates")
            continue
        mc = moved.atom_coordinate.astype(float)
        cf = c.astype(float)
        sub = slice(None) if n <= 300 else rng.permutation(n)[:300]
        dm = lambda a: np.linalg.norm(a[sub][:, None, :] - a[sub][None, :, :], axis=-1)  # noqa
        if geo:
            # documented only as 'geometric instead of coordinate centre': whatever the centre, the image is R x + const
            resid = mc - (Rf @ cf.T).T
            dev = float(np.abs(resid - resid.mean(0)).max())
            ok = dev <= 4 * tol and np.abs(dm(mc) - dm(cf)).max() <= 4 * tol
        else:
            want = (Rf @ (cf - cf.mean(0)).T).T + cf.mean(0) + t
            dev = float(np.abs(mc - want).max())
            ok = dev <= tol and np.abs(dm(mc) - dm(cf)).max() <= 4 * tol
        ctx.spec("rigid_transform moves a point set by x -> R(x - c) + c + t (distances preserved)", inp, bool(ok),
                 {"max_dev": dev}, key="rigid_transform:coordinates")
        if dt == np.float64 and not r32 and n <= 300:
            out = np.empty_like(c.T)
            rigid_transform(coordinates=c.T.copy(), rotation_matrix=R, translation=t, out=out, use_geometric_center=False)
            mm = ctx.driver.call("c17.rigidCoords", R=[float(v) for v in R.reshape(-1)], t=[float(v) for v in t],
                                 points=[[float(v) for v in p] for p in c])
            mm = np.array([[_fbits(v) for v in p] for p in mm])
            ctx.agree("rigid_transform(coordinates) == model", inp, bool(np.abs(out.T - mm).max() <= 1e-9 * mag), True)
        # ---- alignment, SVD recorded
        rec = {}
        real_svd = np.linalg.svd

        def svd(a, *aa, **kw):
            r = real_svd(a, *aa, **kw)
            rec["U"], rec["Vh"] = np.array(r[0]), np.array(r[2])
            return r
        np.linalg.svd = svd
        akw = {}
        if weighted:
            akw["weighted"] = True
        if origin is not None:
            akw["origin"] = origin
        try:
            with _quiet():
                al, rmsd = Structure.align_structures(moved, s, **akw)
                al2, rmsd2 = Structure.align_structures(s, moved, **akw)
        except Exception as e:  # noqa
            ctx.spec("aligning a structure to a rigidly moved copy reproduces the copy (RMSD ~ 0)", inp, False,
                     f"{type(e).__name__}: {e}", key=f"kabsch:{kind}")
            continue
        finally:
            np.linalg.svd = real_svd
        dev = float(np.abs(al.atom_coordinate.astype(float) - mc).max())
        dev2 = float(np.abs(al2.atom_coordinate.astype(float) - cf).max())
        # a weighted RMSD multiplies the squared deviations by atomic weights (<= 33 for the elements used): sqrt(33) < 6
        rtol_ = 6 * tol if weighted else tol
        ctx.spec("aligning a structure to a rigidly moved copy reproduces the copy (RMSD ~ 0)", inp,
                 float(rmsd) <= rtol_ and dev <= 4 * tol and float(rmsd2) <= rtol_ and dev2 <= 4 * tol,
                 {"rmsd": float(rmsd), "max_dev": dev, "rmsd_back": float(rmsd2), "max_dev_back": dev2, "tol": tol},
                 key=f"kabsch:{kind}")
        if dt == np.float64 and "U" in rec and n <= 300:
            # last recorded SVD belongs to align_structures(s, moved): reference = s, query = moved
            mk = ctx.driver.call("c17.kabsch", U=[float(v) for v in rec["U"].reshape(-1)], Vh=[float(v) for v in rec["Vh"].reshape(-1)],
                                 reference=[[float(v) for v in p] for p in cf], query=[[float(v) for v in p] for p in mc])
            ma = np.array([[_fbits(v) for v in p] for p in mk["aligned"]])
            mr = np.array([_fbits(v) for v in mk["rotation"]]).reshape(3, 3)
            ctx.agree("align_structures == Kabsch wrapper model on the recorded SVD", inp,
                      bool(np.abs(al2.atom_coordinate - ma).max() <= 1e-8 * mag and abs(np.linalg.det(mr)) > 0 and np.linalg.det(mr) > -1e-9), True)
        ctx.count(f"kabsch:{kind}:{np.dtype(dt).name}")
        ctx.count(f"rotation:{rk}")
        ctx.count(f"kabsch:n={'1-2' if n < 3 else '3-39' if n < 40 else 'thousands'}")
        ctx.count(f"kabsch:R={'f4' if r32 else 'f8'}:t={tk}:geo={geo}:weighted={weighted}:origin={'given' if origin is not None else 'none'}")
        if rk != "identity" or np.any(t != 0):
            ctx.distinct(("kabsch", kind, n, scale, np.dtype(dt).name, rk, i))
    ctx.sample({"check": "kabsch", "points": kind, "n": n, "rotation": rk, "rmsd": float(rmsd), "max_dev": dev}, limit=7)



# ------------------------------------------------------------------------------------------------
# the score FORMULAS on integer-voxel inputs: the real classes against Model/C17Scores.lean, exactly
def _frac(q):
    from fractions import Fraction
    return Fraction(int(q[0]), int(q[1]))


def _close(a, b, rtol):
    a, b = float(a), float(b)
    if a != a or b != b:
        return False
    return abs(a - b) <= rtol * max(1.0, abs(a), abs(b))


def _pow2(n):
    n = int(n)
    return n > 0 and (n & (n - 1)) == 0


def _mi_edges_exact(vals):
    """numpy's bin edges (linspace) place every integer datum where the exact edges lo + i*(hi-lo)/10 do"""
    from fractions import Fraction
    vals = [int(v) for v in vals]
    lo, hi = min(vals), max(vals)
    if lo == hi:
        lo_f, hi_f, lo_q, hi_q = lo - 0.5, hi + 0.5, Fraction(2 * lo - 1, 2), Fraction(2 * hi + 1, 2)
    else:
        lo_f, hi_f, lo_q, hi_q = float(lo), float(hi), Fraction(lo), Fraction(hi)
    edges = np.linspace(lo_f, hi_f, 11)
    for i in range(11):
        ex = lo_q + i * (hi_q - lo_q) / 10
        for x in set(vals):
            if (Fraction(float(edges[i])) <= x) != (ex <= x):
                return False
    return True


def _sec_formulas(ctx, mo, reg, fam, rng, n_cases):
    """every registered coordinate score, its real __call__ (and _interpolate) on integer voxel positions / small integer
    weights and targets, against the model's formula over the rationals: exact where the value is a dyadic rational, to a few
    float32 ulps where the code takes a square root / divides in float32.  Also through score(x) / score_translation(x)
    whenever rigid_transform lands exactly on the voxels."""
    import math
    from fractions import Fraction
    names_c2d = [k for k in C2D if k in reg]
    names_c2c = [k for k in C2C if k in reg]
    op_of = {"CrossCorrelation": "cc", "LaplaceCrossCorrelation": "laplace", "NormalizedCrossCorrelation": "ncc",
             "NormalizedCrossCorrelationMean": "nccmean", "MaskedCrossCorrelation": "mcc",
             "PartialLeastSquareDifference": "plsq", "MutualInformation": "mi", "Envelope": "envelope",
             "Chamfer": "chamfer", "NormalVectorScore": "nvs"}
    for case in range(n_cases):
        nd = int(rng.choice([1, 2, 3, 3]))
        shape = [int(rng.integers(3, 7)) for _ in range(nd)]
        vmax = int(rng.choice([3, 7, 7, 13, 25]))   # wider ranges put several values into one histogram bin
        data = rng.integers(0, vmax, size=shape).astype(np.float64)
        if float(data.max()) == float(data.min()):
            data.flat[0] += 1
        cells = np.array(np.unravel_index(rng.permutation(int(np.prod(shape))), shape))
        k = int(rng.integers(2, min(10, cells.shape[1]) + 1))
        P0 = cells[:, :k].astype(np.int64)
        planted = bool(rng.random() < 0.6)
        w = data[tuple(P0)].copy() if planted else rng.integers(0, vmax, size=k).astype(np.float64)
        if not np.any(w):
            w[0] = 1.0
            planted = False
        kind = str(rng.choice(["zero", "shift", "shift", "far", "scatter"]))
        if kind == "zero":
            t = np.zeros(nd, dtype=np.int64)
        elif kind == "shift":
            t = rng.integers(-2, 3, size=nd)
        else:
            t = np.array([int(rng.integers(-s - 1, s + 2)) for s in shape])
        P = P0 + t[:, None]
        if kind == "scatter":
            P = np.array([[int(rng.integers(-2, s + 2)) for _ in range(k)] for s in shape], dtype=np.int64)
        negate = bool(rng.random() < 0.5)
        base = {"shape": shape, "target": [int(v) for v in data.ravel()], "P": P.T.tolist(), "w": [int(v) for v in w],
                "negate": negate}
        for name in names_c2d:
            op = op_of.get(name)
            if op is None:
                continue
            args = dict(base)
            kw = {}
            tmask = None
            den = 1
            Pm0 = P0
            coords_eval = P.astype(np.float32)
            mask_eval = None
            if name == "MaskedCrossCorrelation":
                tmask = (rng.random(shape) < 0.8).astype(np.float64) if rng.random() < 0.6 else np.ones(shape)
                sub = str(rng.choice(["same", "same", "subset"]))
                Pm0 = P0 if sub == "same" else P0[:, ::2]
                mode = str(rng.choice(["exact", "exact", "below", "above", "half"]))
                den = 1 if mode == "exact" else 65536 if mode in ("below", "above") else 2
                off = {"exact": 0, "below": -1, "above": 1, "half": 1}[mode]
                Pn = P * den + off
                # mask coordinates follow the same pose as the template coordinates
                idx = list(range(0, k)) if sub == "same" else list(range(0, k, 2))
                Pmn = Pn[:, idx]
                coords_eval = (Pn / den).astype(np.float32)
                mask_eval = (Pmn / den).astype(np.float32)
                if not (np.array_equal(coords_eval.astype(np.float64) * den, Pn) and np.array_equal(mask_eval.astype(np.float64) * den, Pmn)):
                    ctx.count("formula:mcc-not-representable")
                    continue
                args.update({"P": Pn.T.tolist(), "Pm": Pmn.T.tolist(), "den": den, "mask": [int(v) for v in tmask.ravel()]})
            if name == "Envelope":
                thr = int(rng.integers(0, vmax - 1))
                kw["target_threshold"] = thr + 0.5
                args.update({"thrNum": 2 * thr + 1, "thrDen": 2})
            if name == "LaplaceCrossCorrelation":
                args["P0"] = P0.T.tolist()
            try:
                with _quiet():
                    obj = mo.create_score_object(
                        name, target=data.copy(), template_coordinates=P0.astype(np.float64), template_weights=w.copy(),
                        template_mask_coordinates=None if name != "MaskedCrossCorrelation" else Pm0.astype(np.float64),
                        target_mask=tmask, negate_score=negate, **kw)
                    obj.template_rotated[...] = coords_eval
                    if mask_eval is not None:
                        obj.template_mask_rotated[...] = mask_eval
                    obj._target_values = obj._interpolate(obj.target, obj.template_rotated, order=obj.interpolation_order)
                    real = obj()
            except Exception as e:  # noqa
                ctx.count(f"formula:{name}:raised-{type(e).__name__}")
                ctx.spec("every registered score can be evaluated through the common interface",
                         {"score": name, "stream": "formulas", "args": args}, False, {"error": repr(e)[:200]}, key=f"callable:{name}")
                continue
            if name == "MutualInformation":
                vals = np.asarray(obj._target_values, dtype=np.float64)
                if not (_mi_edges_exact(vals) and _mi_edges_exact(w)):
                    ctx.count("formula:mi-edge-rounding-skipped")
                    continue
            m = ctx.driver.call("c17.score." + op, **args)
            if isinstance(m, str):
                ctx.agree(f"score formula {name}", args, "value", m)
                continue
            real = float(real)
            sign = -1.0 if negate else 1.0
            exact = False
            if op in ("cc", "laplace", "plsq"):
                want = _frac(m["score"])
                ok = Fraction(real) == want
                exact = True
            elif op in ("ncc", "nccmean"):
                num, dsq = _frac(m["num"]), _frac(m["densq"])
                if m["guard"]:
                    # the code's guard is `norm(w) * norm(v) <= 0` in float32: the exact product vanishes only if it does there
                    want = 0.0
                    ok = real == 0.0
                else:
                    want = float(num) / math.sqrt(float(dsq)) / sign
                    ok = _close(real, want, 2e-5 if op == "nccmean" else 2e-6)
            elif op == "mi":
                want = float(_frac(m["score"]))
                ok = _close(real, want, 1e-9)
            elif op == "mcc":
                num, d1, d2 = _frac(m["num"]), _frac(m["d1"]), _frac(m["d2"])
                if d1 * d2 == 0:
                    want = 0.0
                    # an exact zero variance is an exact zero in float32 too (integer sums, exact quotient)
                    ok = real == 0.0
                else:
                    want = float(num) / math.sqrt(float(d1 * d2)) * sign
                    tight = all(_pow2(q.denominator) for q in (num, d1, d2))
                    ok = _close(real, want, 2e-6 if tight else 2e-3)
            elif op == "envelope":
                want = (int(m["num"]) / int(m["den"])) * sign if int(m["den"]) != 0 else float("nan")
                ok = (int(m["present"]) == int(obj.target_present) and int(m["absent"]) == int(obj.target_absent)
                      and [int(v) for v in np.asarray(obj._target_values)] == [int(v) for v in m["values"]]
                      and _close(real, want, 1e-15))
                exact = True
            else:
                continue
            if "values" in m and op not in ("envelope", "nccmean", "laplace"):
                ok = ok and [Fraction(float(v)) for v in np.asarray(obj._target_values)] == [_frac(q) for q in m["values"]]
            if op == "laplace":
                ok = ok and [Fraction(float(v)) for v in np.asarray(obj._target_values)] == [_frac(q) for q in m["values"]] \
                    and [Fraction(float(v)) for v in np.asarray(obj.template_weights)] == [_frac(q) for q in m["weights"]]
            ctx.agree(f"score formula {name}: real __call__ on integer voxels == model", args,
                      "equal" if ok else {"real": real, "want": float(want)}, "equal")
            ctx.count(f"formula:{name}:{kind}" + (":planted" if planted else ""))
            ctx.distinct(("formula", name, tuple(shape), kind, planted, negate, k))
            if case < 3:
                ctx.sample({"formula": name, "args": {k_: v_ for k_, v_ in args.items() if k_ != "target"}, "real": real,
                            "model": m if len(json_dumps(m)) < 400 else "..."})
            # exact-arithmetic clauses proved in Props/C17.lean, on the real values (integer poses only)
            if planted and kind != "scatter" and name in ("NormalizedCrossCorrelation", "PartialLeastSquareDifference") and den == 1:
                with _quiet():
                    obj.template_rotated[...] = P0.astype(np.float32)
                    obj._target_values = obj._interpolate(obj.target, obj.template_rotated, order=obj.interpolation_order)
                    at0 = float(obj())
                if name == "NormalizedCrossCorrelation":
                    good = (at0 - real) * sign >= -2e-6 and _close(at0 * sign, 1.0, 2e-6)
                else:
                    good = at0 == 0.0 and real * sign >= 0.0
                ctx.spec("similarity scores are best (within tolerance) at the pose that was used to generate the template",
                         {"score": name, "stream": "formulas", "args": args}, good, {"planted": at0, "other": real},
                         key=f"planted-exact:{name}")
            # the same pose through the public interface, when rigid_transform lands exactly on the voxels
            if kind in ("zero", "shift", "far") and name != "MaskedCrossCorrelation" and nd == 3:
                x = tuple(float(v) for v in t) + (0.0,) * nd
                try:
                    with _quiet():
                        via = float(obj.score(x))
                        landed = bool(np.array_equal(np.asarray(obj.template_rotated, dtype=np.float64), P.astype(np.float64)))
                        via_t = float(obj.score_translation(tuple(float(v) for v in t)))
                except Exception as e:  # noqa
                    ctx.count(f"formula:{name}:score-raised-{type(e).__name__}")
                    continue
                same = (via == via_t) or (via != via and via_t != via_t)
                ctx.spec("every registered score can be evaluated through the common interface",
                         {"score": name, "stream": "formulas", "x": list(x)}, same, {"score": via, "score_translation": via_t},
                         key=f"interface:score_translation:{name}")
                if landed:
                    ctx.agree(f"score formula {name}: score(x) at a voxel translation == __call__ on the shifted voxels", args,
                              _fkey(via), _fkey(real))
                    ctx.count("formula:via-score:landed")
                else:
                    ctx.count("formula:via-score:off-voxel")
        # point-set scores
        d = 3
        nA = int(rng.integers(2, 9))
        A = rng.integers(-4, 8, size=(d, nA))
        for name in names_c2c:
            op = op_of[name]
            if name == "Chamfer":
                nB = int(rng.integers(1, 9))
                B = rng.integers(-4, 8, size=(d, nB))
                if rng.random() < 0.4:
                    B = np.concatenate([A[:, rng.permutation(nA)], B], axis=1)
            else:
                B = A.copy() if rng.random() < 0.3 else rng.integers(-4, 8, size=(d, nA))
                if not np.any(B):
                    B[0, 0] = 1
            if not np.any(A):
                A[0, 0] = 1
            args = {"A": (A.T.tolist() if name == "Chamfer" else A.tolist()), "B": (B.T.tolist() if name == "Chamfer" else B.tolist()),
                    "negate": negate}
            try:
                with _quiet():
                    obj = mo.create_score_object(name, target_coordinates=B.astype(np.float64), target_weights=np.ones(B.shape[1]),
                                                 template_coordinates=A.astype(np.float64), template_weights=np.ones(nA),
                                                 negate_score=negate)
                    obj.template_coordinates_rotated[...] = A.astype(np.float32)
                    real = float(obj())
            except Exception as e:  # noqa
                ctx.count(f"formula:{name}:raised-{type(e).__name__}")
                ctx.spec("every registered score can be evaluated through the common interface",
                         {"score": name, "stream": "formulas", "args": args}, False, {"error": repr(e)[:200]}, key=f"callable:{name}")
                continue
            m = ctx.driver.call("c17.score." + op, **args)
            sign = -1.0 if negate else 1.0
            if isinstance(m, str):
                ctx.agree(f"score formula {name}", args, "value", m)
                continue
            if name == "Chamfer":
                want = float(np.mean([math.sqrt(int(v)) for v in m["sq"]])) * sign
                ok = _close(real, want, 1e-12)
                covered = all(int(v) == 0 for v in m["sq"])
                ctx.spec("similarity scores are best (within tolerance) at the pose that was used to generate the template",
                         {"score": name, "stream": "formulas", "args": args},
                         (real * sign >= 0.0) and ((real == 0.0) == covered), {"real": real, "sq": m["sq"]},
                         key="planted-exact:Chamfer")
            else:
                want = int(m["num"]) / math.sqrt(int(m["densq"])) / int(m["count"]) * sign
                ok = _close(real * int(m["count"]), want * int(m["count"]), 2e-6)
            ctx.agree(f"score formula {name}: real __call__ on integer points == model", args,
                      "equal" if ok else {"real": real, "want": want}, "equal")
            ctx.count(f"formula:{name}")
            ctx.distinct(("formula", name, nA, int(B.shape[1]), negate))


def _sec_formula_flc(ctx, mo, rng, n_cases):
    """FLC's formula at voxel translations (identity rotation, binary or full template mask): the real score(x) against
    the model's (numerator, var g, var f, n) over the rationals; float32 arithmetic -> relative tolerance 1e-3.  Cases whose
    exact variances vanish are compared only when the window is empty (the code's guard is the dtype's epsilon)."""
    import math
    from fractions import Fraction
    for case in range(n_cases):
        shape = [int(rng.integers(2, 5)) for _ in range(3)]
        tshape = [int(rng.integers(4, 8)) for _ in range(3)]
        data = rng.integers(0, 7, size=tshape).astype(np.float64)
        planted = bool(rng.random() < 0.5 and all(a <= b for a, b in zip(shape, tshape)))
        off = [int(rng.integers(0, b - a + 1)) if a <= b else 0 for a, b in zip(shape, tshape)]
        if planted:
            tmpl = data[tuple(slice(o, o + a) for o, a in zip(off, shape))].copy()
        else:
            tmpl = rng.integers(0, 7, size=shape).astype(np.float64)
        full = bool(rng.random() < 0.5)
        mask = np.ones(shape) if full else (rng.random(shape) < 0.7).astype(np.float64)
        if mask.sum() < 2:
            mask.flat[:2] = 1.0
        kind = str(rng.choice(["planted", "near", "edge", "far"]))
        if kind == "planted":
            v = list(off)
        elif kind == "near":
            v = [o + int(rng.integers(-1, 2)) for o in off]
        elif kind == "edge":
            v = [int(rng.choice([-a + 1, b - 1, o])) for a, b, o in zip(shape, tshape, off)]
        else:
            v = [int(rng.integers(-a - 1, b + 2)) for a, b in zip(shape, tshape)]
        negate = bool(rng.random() < 0.5)
        args = {"shape": shape, "targetShape": tshape, "template": [int(x) for x in tmpl.ravel()],
                "mask": [int(x) for x in mask.ravel()], "target": [int(x) for x in data.ravel()], "v": v, "negate": negate}
        m = ctx.driver.call("c17.score.flc", **args)
        if isinstance(m, str):
            ctx.agree("score formula FLC", args, "value", m)
            continue
        num, vg, vf, n = _frac(m["num"]), _frac(m["vg"]), _frac(m["vf"]), _frac(m["n"])
        empty = any(vv <= -a or vv >= b for vv, a, b in zip(v, shape, tshape))
        if vg == 0 or (vf == 0 and not empty):
            ctx.count("formula:FLC:degenerate-variance-skipped")
            continue
        try:
            with _quiet():
                obj = mo.create_score_object("FLC", target=data.copy(), template=tmpl.copy(), template_mask=mask.copy(),
                                             negate_score=negate)
                real = float(obj.score(tuple(float(x) for x in v) + (0.0, 0.0, 0.0)))
        except Exception as e:  # noqa
            ctx.count(f"formula:FLC:raised-{type(e).__name__}")
            ctx.spec("every registered score can be evaluated through the common interface",
                     {"score": "FLC", "stream": "formulas", "args": args}, False, {"error": repr(e)[:200]}, key="callable:FLC")
            continue
        sign = -1.0 if negate else 1.0
        if vf == 0:
            want = 0.0
            ok = real == 0.0
        else:
            want = float(num) / (math.sqrt(float(vg)) * math.sqrt(float(vf)) * float(n)) * sign
            ok = _close(real, want, 1e-3)
        ctx.agree("score formula FLC: real score(x) at a voxel translation == model", args,
                  "equal" if ok else {"real": real, "want": want}, "equal")
        ctx.count(f"formula:FLC:{kind}" + (":full-mask" if full else ":binary-mask") + (":planted" if planted else ""))
        ctx.distinct(("formula", "FLC", tuple(shape), tuple(tshape), kind, full, planted, negate))
        if planted and v != list(off):
            # Props/C17.lean flcOf_sq_le / flcOf_planted: any binary mask, any voxel translation (also partly / wholly outside)
            with _quiet():
                at0 = float(obj.score(tuple(float(x) for x in off) + (0.0, 0.0, 0.0)))
            good = _close(at0 * sign, 1.0, 1e-3) and (at0 - real) * sign >= -1e-3
            ctx.spec("similarity scores are best (within tolerance) at the pose that was used to generate the template",
                     {"score": "FLC", "stream": "formulas", "args": args}, good, {"planted": at0, "other": real},
                     key="planted-exact:FLC")


def json_dumps(o):
    import json
    return json.dumps(o)


# ------------------------------------------------------------------------------------------------
def _import():
    from tme import matching_optimization as mo
    return mo


def _registry_rows():
    from tme import matching_optimization as mo
    rows = []
    for k, v in sorted(mo.MATCHING_OPTIMIZATION_REGISTER.items()):
        fam = ("c2d" if issubclass(v, mo._MatchCoordinatesToDensity) else
               "c2c" if issubclass(v, mo._MatchCoordinatesToCoordinates) else
               "d2d" if issubclass(v, mo._MatchDensityToDensity) else "unknown")
        kind = "-"
        if fam in ("c2d", "c2c"):
            writes, reads = set(), False
            for cls in v.__mro__:
                if "__call__" not in cls.__dict__:
                    continue
                w, sup, rd = _self_writes(cls.__dict__["__call__"])
                writes |= w
                reads |= rd
                if not sup:
                    break
            kind = ("normalised" if writes == {"denominator"} else "plain" if reads and not writes else
                    "generic" if not writes else "writes:" + ",".join(sorted(writes)))
        rows.append((k, fam, kind))
    return rows


def extract(ctx):
    """lean/PytmeModel/Extracted/C17.lean: the registry as found by reflection; Props/C17.lean proves (decide) that
    every row is covered by a step function of the model."""
    import os
    from .. import env
    rows = _registry_rows()
    esc = lambda t: t.replace("\\", "\\\\").replace('"', '\\"')  # noqa
    body = ",\n".join(f'  ("{esc(a)}", "{esc(b)}", "{esc(c)}")' for a, b, c in rows)
    src = ("/-! GENERATED by harness/pv/props/c17.py `extract` from tme.matching_optimization.MATCHING_OPTIMIZATION_REGISTER\n"
           "(family by issubclass, `__call__` kind by AST).  Do not edit. -/\n"
           "namespace Pm.C17.Extracted\n\n"
           "def registry : List (String × String × String) := [\n" + body + "\n]\n\nend Pm.C17.Extracted\n")
    d = os.path.join(env.LEAN_DIR, "PytmeModel", "Extracted")
    os.makedirs(d, exist_ok=True)
    path = os.path.join(d, "C17.lean")
    if not os.path.exists(path) or open(path).read() != src:
        with open(path, "w") as fh:
            fh.write(src)
    ctx.extra["registry_rows"] = len(rows)


def run(ctx):
    mo = _import()
    reg, fam = _extract(ctx)
    first = []

    def sec(f, *a):
        # a crash inside one section must not hide what the other sections find
        try:
            f(*a)
        except Exception:  # noqa
            import traceback
            ctx.note(f"section {f.__name__} crashed: " + traceback.format_exc()[-600:])
            first.append(traceback.format_exc())
    sec(_sec_windows, ctx, ctx.rng("windows"), ctx.budget(8, 14))
    sec(_sec_pose, ctx, mo, ctx.rng("pose"), ctx.budget(40, 300))
    sec(_sec_interface, ctx, mo, reg, fam, ctx.rng("interface"), ctx.budget(3, 10), ctx.budget(4, 16))
    sec(_sec_registry, ctx, mo, reg, fam, ctx.rng("registry"), ctx.budget(4, 11))
    sec(_sec_history_coords, ctx, mo, reg, fam, ctx.rng("history"), ctx.budget(10, 100), ctx.budget(6, 9))
    sec(_sec_interleaved, ctx, mo, reg, fam, ctx.rng("interleaved"), ctx.budget(40, 400), ctx.budget(5, 8))
    sec(_sec_history_flc, ctx, mo, ctx.rng("flc"), ctx.budget(100, 1500), ctx.budget(6, 9))
    sec(_sec_planted, ctx, mo, reg, fam, ctx.rng("planted"), ctx.budget(8, 50), ctx.budget(50, 150))
    sec(_sec_optimize, ctx, mo, ctx.rng("optimize"), ctx.budget(300, 4000), ctx.budget(36, 400))
    sec(_sec_kabsch, ctx, ctx.rng("kabsch"), ctx.budget(300, 6000))
    sec(_sec_formulas, ctx, mo, reg, fam, ctx.rng("formulas"), ctx.budget(60, 600))
    if "FLC" in reg:
        sec(_sec_formula_flc, ctx, mo, ctx.rng("formula-flc"), ctx.budget(60, 600))
    if first:
        raise RuntimeError("section crashed:\n" + first[0])


def search(ctx):
    """correspondence / an obligation broke without a failing input in the main stream: evaluate the property's
    clauses (only) on a wider stream — longer histories, more scenes, more optimiser cases."""
    mo = _import()
    from tme import matching_optimization as m2
    reg = dict(m2.MATCHING_OPTIMIZATION_REGISTER)
    fam = {k: ("c2d" if issubclass(v, m2._MatchCoordinatesToDensity) else "c2c" if issubclass(v, m2._MatchCoordinatesToCoordinates)
               else "d2d") for k, v in reg.items()}
    _sec_interface(ctx, mo, reg, fam, ctx.rng("s-interface"), 6, 12)
    _sec_history_coords(ctx, mo, reg, fam, ctx.rng("s-history"), 8, 10, names=[k for k in reg if fam[k] != "d2d"], agree=False)
    _sec_history_flc(ctx, mo, ctx.rng("s-flc"), 150, 10, agree=False)
    _sec_interleaved(ctx, mo, reg, fam, ctx.rng("s-interleaved"), 60, 8)
    _sec_registry(ctx, mo, reg, fam, ctx.rng("s-registry"), 11)
    _sec_planted(ctx, mo, reg, fam, ctx.rng("s-planted"), 8, 100)
    _sec_optimize(ctx, mo, ctx.rng("s-optimize"), 400, 10)
    _sec_kabsch(ctx, ctx.rng("s-kabsch"), 400)
