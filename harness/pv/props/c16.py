"""C16 — a failing worker fails the whole search; no shared memory is left behind.

Leg B runs the REAL `scan` / `scan_subsets` of the worktree with faults injected by monkey-patching
(`pv.faults` + `pv.c16_hooks`, installed in every process incl. loky workers through a chained sitecustomize) and compares
outcome, trace of program points, shared-memory ledger and the caller's arrays with the Lean
control-flow model (Model/C16.lean).  Each clause of the property is evaluated on the real outputs."""
import ast
import gc
import json
import os
import time

import numpy as np

ID = "C16"
RULE = ("real scan/scan_subsets runs under injected faults: every single fault position (phase x tile x job x rotation) of "
        "small sequential configurations, random single/repeated/dead positions over scores x analyzers x split layouts x "
        "job schedules incl. real multi-process (loky) outer/inner pools with injected delays to vary the interleaving, an "
        "ambient-exception stream and malformed n_jobs=0; program points include every single to_sharedarr (segment cannot be "
        "created) and the user's template/target filters; template splits, non-shared user analyzers, schedules with more jobs "
        "than items; caller's arrays in every memory layout / dtype / np.memmap / Density with the whole underlying buffer "
        "(and file) watched; segments still mapped by the calling process after the call. distinct = distinct (mode, score, analyzer, dims, tiles, rotations, "
        "schedule, fault set, ambient) tuples; fault-free single-tile single-job runs are trivial and not counted")
ASSUMPTIONS = [
    "faults are ordinary Exception subclasses raised at instrumented program points; KeyboardInterrupt / SystemExit are injected in "
    "sequential searches only (clauses: not turned into a returned result, nothing left behind; no model agreement); other "
    "BaseExceptions, hard worker death (SIGKILL/OOM of a worker by the OS) and OS-level leaks are outside the model",
    "segments are attributed to the call through a creation ledger (every SharedMemory(create=True) in every process is "
    "logged); only those names are looked up in /dev/shm afterwards, so concurrent users of /dev/shm do not interfere",
    "theorems are stated for an empty ambient exception (the model exposes the sys.exc_info()-on-entry behaviour)",
    "the interleaving inside a pool is modelled at task granularity (completion order + prefix progress of tasks in flight)",
    "faults are raised at the ENTRY of instrumented program points (subset_by_slice, to_backend, user filters, setup function, "
    "every to_sharedarr, analyzer construction / call / _postprocess / __iter__ / merge, scoring function, rigid_transform); a "
    "failure in the middle of other library calls (e.g. inside an FFT of the scoring loop) is not injected",
    "StopIteration and the individual classes of the built-in exception hierarchy are raised on sequential paths only (a pool "
    "pickles and re-raises exceptions; joblib gives some classes, e.g. TimeoutError, a meaning of its own)",
    "a segment counts as still held when the calling process has it mapped after the call with the result alive, the exception "
    "dropped and garbage collected (/proc/self/maps)",
]
TRUSTED = ["C16: joblib/loky scheduling, multiprocessing.managers.SharedMemoryManager and the OS are exercised, not modelled; "
           "pv.faults / pv.c16_hooks monkey-patches (program points), the user-level filter and analyzer classes of pv.c16_hooks "
           "and the chained sitecustomize that installs them in worker processes are part of the harness"]

PHASES = ["subset", "toBackend", "filter", "setupPre", "setupPost", "analyzerInit", "scoreEntry", "rotate", "callback",
          "postprocess", "merge", "outerMerge", "alloc", "collect"]
# segments allocated through the handler: setup function per score, analyzer construction / _postprocess.
# Extracted from the source on every run and compared (obligation) with these constants, which the model is fed with.
SETUP_SEGS = {"CC": 4, "LCC": 4, "CORR": 4, "CAM": 4, "FLCSphericalMask": 5, "FLC": 4, "MCC": 5}
ANALYZER_SEGS = {"max": (2, 2), "peak": (0, 0), "none": (0, 0), "nonshared": (2, 2)}
KNOWN_LEAK_KEY = "leak:scan_subsets:outer>1:sibling-tile-in-flight-killed"

_F = None
_H = None
_REF = {}
_SAMPLED = set()


# ------------------------------------------------------------------ environment
def _setup():
    global _F
    if _F is not None:
        return _F
    from pv import env
    d = os.path.join(env.scratch(), "c16")
    os.makedirs(d, exist_ok=True)
    os.environ["PYTME_VERIF"] = "1"
    os.environ["PYTME_VERIF_FAULTS"] = d
    # every process started from now on (loky workers) runs the harness' sitecustomize and then the C16 hooks
    import pv.c16_hooks as H
    site = os.path.join(d, "site")
    os.makedirs(site, exist_ok=True)
    with open(os.path.join(site, "sitecustomize.py"), "w") as f:
        f.write(H.SITECUSTOMIZE.format(orig=os.path.join(env.SITE, "sitecustomize.py")))
    os.environ["PYTHONPATH"] = os.pathsep.join([site] + [x for x in os.environ.get("PYTHONPATH", "").split(os.pathsep) if x and x != site])
    import pv.faults as F
    F.install()
    H.install()
    global _H
    _H = H
    _F = F
    return F


# ------------------------------------------------------------------ extraction (source -> constants)
def _count_sharedarr(fn_node, funcs, seen=()):
    n = 0
    for node in ast.walk(fn_node):
        if isinstance(node, ast.Call):
            f = node.func
            if isinstance(f, ast.Attribute) and f.attr == "to_sharedarr":
                n += 1
            elif isinstance(f, ast.Name) and f.id in funcs and f.id not in seen and f.id.endswith("_setup"):
                n += _count_sharedarr(funcs[f.id], funcs, seen + (f.id,))
    return n


def _extract_tables():
    from pv import env
    out = {}
    src = open(os.path.join(env.REPO, "tme", "matching_scores.py")).read()
    tree = ast.parse(src)
    funcs = {n.name: n for n in tree.body if isinstance(n, ast.FunctionDef)}
    import tme.matching_scores as ms
    setup = {}
    for name, (s, f) in ms.MATCHING_EXHAUSTIVE_REGISTER.items():
        sname = getattr(s, "__wrapped__", s).__name__
        setup[name] = _count_sharedarr(funcs[sname], funcs) if sname in funcs else None
    out["setup"] = setup
    src = open(os.path.join(env.REPO, "tme", "analyzer.py")).read()
    tree = ast.parse(src)
    an = {}
    for cls in tree.body:
        if isinstance(cls, ast.ClassDef) and cls.name in ("MaxScoreOverRotations", "PeakCaller"):
            m = {n.name: n for n in cls.body if isinstance(n, ast.FunctionDef)}
            an[cls.name] = [_count_sharedarr(m[k], {}) if k in m else 0 for k in ("__init__", "_postprocess")]
            an[cls.name + ":other"] = sum(_count_sharedarr(v, {}) for k, v in m.items() if k not in ("__init__", "_postprocess"))
    out["analyzer"] = an
    # decorator placement and the manager branch of to_sharedarr
    src = open(os.path.join(env.REPO, "tme", "matching_exhaustive.py")).read()
    tree = ast.parse(src)
    deco = {}
    for n in tree.body:
        if isinstance(n, ast.FunctionDef) and n.name in ("scan", "scan_subsets"):
            deco[n.name] = [d.id for d in n.decorator_list if isinstance(d, ast.Name)]
    out["decorators"] = deco
    return out


# ------------------------------------------------------------------ scenarios
def _rotations(nrot, dim, seed):
    """nrot distinct proper rotations (float32), as the library stores them"""
    rng = np.random.default_rng([seed, nrot, dim])
    out = np.zeros((nrot, dim, dim), np.float32)
    for i in range(nrot):
        if dim == 2:
            a = (i + 0.37 * rng.random()) * 2 * np.pi / max(nrot, 1)
            out[i] = [[np.cos(a), -np.sin(a)], [np.sin(a), np.cos(a)]]
        else:
            q = rng.normal(size=(3, 3))
            q, r = np.linalg.qr(q)
            q = q * np.sign(np.diag(r))
            if np.linalg.det(q) < 0:
                q[:, 0] = -q[:, 0]
            out[i] = q
    if nrot:
        out[0] = np.eye(dim)
    return out


LAYOUTS = ["c", "f", "rev", "strided", "offset", "ro", "f64", "i16", "memmap", "memmap_c", "density", "density_mm", "mixed"]
_MIX = ["f", "strided", "ro", "rev", "offset", "f64", "memmap", "density"]


def _hold(a, kind, name):
    """The values of `a` held the way `kind` says.  Returns (object handed to the API, snapshot function of everything
    the caller owns behind it: the whole base buffer, the file of a memory map)"""
    def snap_of(*bufs, files=()):
        def snap():
            out = [(b.shape, str(b.dtype), np.ascontiguousarray(b).tobytes()) for b in bufs]
            for fn in files:
                with open(fn, "rb") as f:
                    out.append(f.read())
            return out
        return snap
    nd = a.ndim
    if kind == "f":
        v = np.asfortranarray(a)
        return v, snap_of(v)
    if kind == "rev":
        base = np.ascontiguousarray(a[(slice(None, None, -1),) * nd])
        return base[(slice(None, None, -1),) * nd], snap_of(base)
    if kind == "strided":
        base = np.full(tuple(2 * x for x in a.shape), 7, a.dtype)
        v = base[(slice(None, None, 2),) * nd]
        v[...] = a
        return v, snap_of(base)
    if kind == "offset":
        base = np.full(tuple(x + 3 for x in a.shape), 5, a.dtype)
        v = base[tuple(slice(1, 1 + x) for x in a.shape)]
        v[...] = a
        return v, snap_of(base)
    if kind == "ro":
        v = a.copy()
        v.flags.writeable = False
        return v, snap_of(v)
    if kind == "f64":
        v = a.astype(np.float64)
        return v, snap_of(v)
    if kind == "i16":
        v = np.rint(a * 50).astype(np.int16)
        return v, snap_of(v)
    if kind in ("memmap", "memmap_c"):
        from pv import env
        fn = os.path.join(env.scratch(), "c16", f"mm_{name}.bin")     # the same path is rewritten by every scenario
        w = np.memmap(fn, mode="w+", dtype=a.dtype, shape=a.shape)
        w[...] = a
        w.flush()
        del w
        v = np.memmap(fn, mode="r+" if kind == "memmap" else "c", dtype=a.dtype, shape=a.shape)
        return v, snap_of(v, files=(fn,))
    if kind == "density":
        from tme.density import Density
        v = Density(a.copy())
        data = v.data
        return v, snap_of(data)
    if kind == "density_mm":
        # the way the command line tool holds a large tomogram: a Density whose data is a memory map of the MRC file
        from pv import env
        from tme.density import Density
        fn = os.path.join(env.scratch(), "c16", f"dens_{name}.mrc")     # rewritten by every scenario
        Density(a.copy(), sampling_rate=1.0).to_file(fn)
        v = Density.from_file(fn, use_memmap=True)
        data = v.data
        return v, snap_of(data, files=(fn,))
    v = a.copy()
    return v, snap_of(v)


def _data(sc):
    dim, n, m = sc["dim"], sc["n"], sc["m"]
    rng = np.random.default_rng([sc["dseed"], dim, n, m])
    target = rng.random((n,) * dim).astype(np.float32)
    template = np.zeros((m,) * dim, np.float32)
    inner = (slice(1, m - 1),) * dim
    template[inner] = rng.random((m - 2,) * dim).astype(np.float32) + 0.5
    tmask = np.zeros((m,) * dim, np.float32)
    tmask[inner] = 1
    # plant the template so that scores have structure
    pos = tuple(int(x) for x in rng.integers(0, n - m + 1, size=dim))
    target[tuple(slice(p, p + m) for p in pos)] += template
    target_mask = np.ones((n,) * dim, np.float32)
    return target, template, tmask, target_mask


def _held(sc):
    """the four arrays as the scenario's `layout` holds them: ([objects for the API], {name: snapshot function})"""
    arrs = _data(sc)
    names = ["target", "template", "template_mask", "target_mask"]
    layout = sc.get("layout", "c")
    objs, snaps = [], {}
    for i, (nm, a) in enumerate(zip(names, arrs)):
        kind = _MIX[(sc["dseed"] + 3 * i) % len(_MIX)] if layout == "mixed" else layout
        if kind == "i16" and nm != "target":
            kind = "c"          # integer masks / templates are another search; the integer target is the case of interest
        if kind == "density_mm" and nm != "target":
            kind = "density"
        o, sn = _hold(a, kind, nm)
        objs.append(o)
        snaps[nm] = sn
    return objs, snaps


def _ntiles(sc):
    from tme.matching_utils import split_shape
    shape = (sc["n"],) * sc["dim"]
    nt = len(split_shape(shape, splits={int(k): int(v) for k, v in sc["splits"].items()}))
    ts = sc.get("tsplits") or {}
    return nt * len(split_shape((sc["m"],) * sc["dim"], splits={int(k): int(v) for k, v in ts.items()}))


def cfg_of(sc, copies=True):
    an = sc["analyzer"]
    cb, post = ANALYZER_SEGS[an]
    # scan_subsets does not hand jobs_per_callback_class on to scan: the default (8) applies there
    jpc = int(sc.get("jpc", 8)) if sc["mode"] == "scan" else 8
    return {"ntiles": 1 if sc["mode"] == "scan" else _ntiles(sc), "nrot": sc["nrot"], "outer": sc["sched"][0],
            "inner": sc["sched"][1], "hasCb": an != "none", "shared": an != "nonshared", "jpc": jpc,
            "setupSegs": SETUP_SEGS[sc["score"]], "cbSegs": cb, "postSegs": post, "copies": copies,
            "tfilter": bool(sc.get("tfilter")), "gfilter": bool(sc.get("gfilter"))}


def _exc_info(e):
    """(class name of the outermost exception, number of Exception(...) wrappers, root exception)"""
    wraps, cur = 0, e
    while type(cur) is Exception and len(cur.args) == 1 and isinstance(cur.args[0], BaseException):
        wraps += 1
        cur = cur.args[0]
    # PEP 479: a StopIteration raised inside a generator body (joblib's sequential path, the generator expression
    # scan_subsets hands to Parallel) surfaces as RuntimeError with the StopIteration as its cause
    if isinstance(cur, RuntimeError) and isinstance(cur.__cause__, StopIteration):
        cur = cur.__cause__
    return type(e).__name__, wraps, cur


def _root_pos(root):
    s = getattr(root, "pvpos", None)
    if s is None:
        s = str(root.args[0]) if getattr(root, "args", None) else str(root)
    s = s.strip("'\"")
    if s.startswith("pvfault:"):
        _, ph, t, i = s.split(":")
        return [ph, int(t), int(i)]
    return None


class _Abort(Exception):
    """the check process is not safe to continue (a result aliases released memory: touching it can crash the process)"""


def _result_backing(result):
    """For every array of a returned result: who owns its memory?  Walks `.base` WITHOUT reading any element (a view into
    a segment that has been unmapped would crash the process).  Returns the arrays that live in somebody else's buffer
    (a memoryview / mmap, i.e. a shared-memory block) instead of owning their data or being a file-backed np.memmap."""
    import mmap
    bad = []
    if not isinstance(result, (tuple, list)):
        return bad
    for i, a in enumerate(result):
        b, hops = a, 0
        while isinstance(b, np.ndarray) and not isinstance(b, np.memmap) and b.base is not None and hops < 16:
            b, hops = b.base, hops + 1
        if isinstance(b, memoryview):
            try:
                owner = type(b.obj).__name__
            except ValueError:
                owner = "released"
            bad.append({"item": i, "buffer": f"memoryview({owner})"})
        elif isinstance(b, mmap.mmap):
            bad.append({"item": i, "buffer": "mmap"})
    return bad


def _mapped(names):
    """segments of the call that this process still has mapped (their memory is held although the name is gone)"""
    if not names:
        return []
    out = set()
    try:
        with open("/proc/self/maps") as f:
            for line in f:
                i = line.find("/psm_")
                if i < 0:
                    continue
                nm = line[i + 1:].split()[0]
                if nm in names:
                    out.add(nm)
    except OSError:
        return []
    return sorted(out)


def run_real(sc):
    """Run one scenario against the real code.  Returns a JSON-able observation."""
    F = _setup()
    from tme.matching_data import MatchingData
    from tme.matching_exhaustive import scan_subsets, MATCHING_EXHAUSTIVE_REGISTER
    import tme.matching_exhaustive as me
    from tme.analyzer import MaxScoreOverRotations, PeakCallerMaximumFilter

    (target, template, tmask, target_mask), snaps = _held(sc)
    rots = _rotations(sc["nrot"], sc["dim"], sc["dseed"])
    snaps["rotations"] = (lambda r=rots: [(r.shape, str(r.dtype), r.tobytes())])
    keep = {k: fn() for k, fn in snaps.items()}
    rotkeys = {np.ascontiguousarray(r).tobytes().hex(): i for i, r in enumerate(rots)}
    plan = {"faults": [{"phase": p[0], "tile": p[1], "idx": p[2]} for p in sc["faults"]],
            "delays": [{"phase": p[0], "tile": p[1], "idx": p[2], "seconds": p[3]} for p in sc.get("delays", [])],
            "rotkeys": rotkeys, "nrot": int(sc["nrot"]), "exc": sc.get("exc", "PvFault"), "active": True}
    F.begin(plan)
    md = MatchingData(target, template, template_mask=tmask, target_mask=target_mask, rotations=rots,
                      invert_target=bool(sc.get("invert")))
    if sc.get("tfilter"):
        md.template_filter = _H.make_filter(0)
    if sc.get("gfilter"):
        md.target_filter = _H.make_filter(1)
    setup, score = MATCHING_EXHAUSTIVE_REGISTER[sc["score"]]
    cbc = {"max": MaxScoreOverRotations, "peak": PeakCallerMaximumFilter, "none": None,
           "nonshared": _H.nonshared_class()}[sc["analyzer"]]
    cba = {"max": {"score_threshold": 0.0}, "peak": {"number_of_peaks": 5, "min_distance": 2}, "none": {},
           "nonshared": {"score_threshold": 0.0}}[sc["analyzer"]]
    if sc["analyzer"] == "max" and sc.get("memmap"):
        cba = dict(cba, use_memmap=True)        # the low-memory mode of the score-map analyzer (match_template.py --use_memmap)
    splits = {int(k): int(v) for k, v in sc["splits"].items()}
    tsplits = {int(k): int(v) for k, v in (sc.get("tsplits") or {}).items()}
    ptf = bool(sc.get("pad_template_filter", True))

    def call():
        if sc["mode"] == "scan":
            kw = {"jobs_per_callback_class": int(sc["jpc"])} if "jpc" in sc else {}
            return me.scan(matching_data=md, matching_setup=setup, matching_score=score, n_jobs=sc["sched"][1],
                           callback_class=cbc, callback_class_args=cba, pad_fourier=sc.get("pad_fourier", True),
                           pad_template_filter=ptf, **kw)
        return scan_subsets(matching_data=md, matching_score=score, matching_setup=setup, callback_class=cbc,
                            callback_class_args=cba, job_schedule=tuple(sc["sched"]), target_splits=splits,
                            template_splits=tsplits, pad_template_filter=ptf,
                            pad_target_edges=sc.get("pad_edges", True), pad_fourier=sc.get("pad_fourier", True))

    t0 = time.time()
    obs = {}
    result = None
    try:
        if sc.get("ambient"):
            try:
                raise KeyError("pv-ambient")
            except KeyError:
                result = call()
        else:
            result = call()
        obs["outcome"] = "returned"
    except BaseException as e:  # noqa: BLE001 - every failure of the call is an observation
        if not isinstance(e, Exception) and not (sc.get("exc") in BASE_KINDS and e.args and str(e.args[0]).startswith("pvfault:")):
            raise           # a real interrupt of the check itself, not an injected one
        name, wraps, root = _exc_info(e)
        obs["outcome"] = "raised"
        obs["exc"] = {"class": name, "wraps": wraps, "root_class": type(root).__name__, "root_pos": _root_pos(root),
                      "text": repr(e)[:160]}
        del e, root
    obs["wall"] = round(time.time() - t0, 3)
    # ledger
    segs = []
    for line in F.segments():
        parts = line.split()
        segs.append({"name": parts[0], "tile": int(parts[1]) if len(parts) > 1 else 0,
                     "managed": (parts[2] == "1") if len(parts) > 2 else None})
    leaked = [s for s in segs if os.path.exists("/dev/shm/" + s["name"])]
    obs["created"] = len(segs)
    obs["created_by_tile"] = _hist(s["tile"] for s in segs)
    obs["unmanaged"] = sum(1 for s in segs if s["managed"] is False)
    obs["leaked"] = [{"tile": s["tile"], "managed": s["managed"]} for s in leaked]
    for s in leaked:   # hygiene: do not leave them behind ourselves
        try:
            os.unlink("/dev/shm/" + s["name"])
        except OSError:
            pass
    # segments of the call still mapped here, with the result alive and the exception (its traceback's frames) dropped
    names = {s["name"] for s in segs}
    still = _mapped(names)
    for gen in (0, 1, 2):       # the frames of a dropped exception's traceback are young garbage: cheapest collection first
        if not still:
            break
        gc.collect(gen)
        still = _mapped(names)
    by_name = {s["name"]: s["tile"] for s in segs}
    obs["mapped"] = [by_name[n] for n in still]
    ev = F.events()
    obs["events"] = [[e["phase"], e["tile"], e["idx"]] for e in ev]
    obs["fired"] = [[e["phase"], e["tile"], e["idx"]] for e in ev if e.get("fired")]
    obs["worker_allocs"] = sum(1 for e in ev if e["phase"] == "alloc" and e.get("pid") != os.getpid())
    # caller's arrays: everything behind them (base buffers, files)
    obs["inputs_changed"] = [k for k, fn in snaps.items() if fn() != keep[k]]
    obs["result_backing"] = _result_backing(result)
    obs["result"] = {"kind": "unreadable", "err": "lives in a shared-memory block"} if obs["result_backing"] else _canon_result(sc, result)
    F.begin({"faults": [], "delays": [], "rotkeys": {}, "nrot": 0, "active": False})
    return obs


def _hist(it):
    h = {}
    for x in it:
        h[str(x)] = h.get(str(x), 0) + 1
    return h


def _canon_result(sc, result):
    if result is None:
        return None
    try:
        if sc["analyzer"] in ("max", "nonshared"):
            s = np.asarray(result[0], dtype=np.float64)
            return {"kind": "max", "shape": list(s.shape), "scores": np.round(s, 4).reshape(-1).tolist()}
        if sc["analyzer"] == "peak":
            sc_ = np.asarray(result[2], dtype=np.float64).reshape(-1)
            return {"kind": "peak", "n": int(len(sc_)), "best": round(float(sc_.max()), 4) if len(sc_) else None}
    except Exception as e:  # noqa: BLE001
        return {"kind": "unreadable", "err": repr(e)[:80]}
    return {"kind": "other"}


def _same_result(a, b):
    if a is None or b is None:
        return a is None and b is None
    if a.get("kind") != b.get("kind"):
        return False
    if a["kind"] == "max":
        return a["shape"] == b["shape"] and bool(np.allclose(a["scores"], b["scores"], atol=2e-3, rtol=0))
    # peak lists legitimately depend on how rotations are grouped into jobs (merge of per-job candidate lists,
    # C05's subject): only their presence is compared here
    return True


def reference(sc):
    """fault-free, sequential run of the same search (same data, splits, rotations, analyzer)"""
    key = json.dumps([sc[k] for k in ("mode", "score", "analyzer", "dim", "n", "m", "dseed", "nrot")] +
                     [sorted(sc["splits"].items()), sc.get("pad_edges", True), sc.get("pad_fourier", True), bool(sc.get("memmap")),
                      sorted((sc.get("tsplits") or {}).items()), bool(sc.get("tfilter")), bool(sc.get("gfilter")),
                      sc.get("pad_template_filter", True), sc.get("layout", "c"), bool(sc.get("invert")), sc.get("jpc")])
    if key not in _REF:
        r = dict(sc, faults=[], delays=[], sched=[1, 1], ambient=False)
        _REF[key] = run_real(r)
    return _REF[key]


# ------------------------------------------------------------------ model side
def run_model(ctx, sc, sched=None, policy="kill", copies=True):
    args = {"cfg": cfg_of(sc, copies=copies), "plan": [list(p) for p in sc["faults"]], "ambient": bool(sc.get("ambient")),
            "policy": policy}
    if sched is not None:
        args["sched"] = sched
    return ctx.driver.call("c16.scan" if sc["mode"] == "scan" else "c16.scanSubsets", **args)


def _sequential(sc):
    return sc["sched"][1] <= 1 and (sc["mode"] == "scan" or sc["sched"][0] <= 1)


def _multiset(l):
    return sorted(json.dumps(x) for x in l)


def check(ctx, sc, tag="main"):
    """one scenario: real run, model run, correspondence, property clauses"""
    obs = run_real(sc)
    model = run_model(ctx, sc)
    inp = {k: sc[k] for k in sc}
    seq = _sequential(sc)
    outer = sc["sched"][0] if sc["mode"] == "subsets" else 1
    if outer > 1 and obs["outcome"] == "returned" and obs["created"] and not obs["worker_allocs"]:
        # infrastructure, not a verdict: the chained sitecustomize did not reach the worker processes
        raise RuntimeError("C16 hooks are not installed in the loky workers (no allocation point logged by a worker)")
    ctx.count(f"{tag}:layout={sc.get('layout', 'c')}")
    if sc.get("tfilter") or sc.get("gfilter"):
        ctx.count(f"{tag}:filters={'T' if sc.get('tfilter') else ''}{'G' if sc.get('gfilter') else ''}")
    if sc.get("tsplits"):
        ctx.count(f"{tag}:template-splits")
    ctx.count(f"{tag}:mode={sc['mode']}")
    ctx.count(f"{tag}:sched={'seq' if seq else 'x'.join(map(str, sc['sched']))}")
    ctx.count(f"{tag}:score={sc['score']}")
    ctx.count(f"{tag}:analyzer={sc['analyzer']}")
    ctx.count(f"{tag}:faults={len(sc['faults'])}")
    for p in sc["faults"]:
        ctx.count(f"{tag}:fault-phase={p[0]}")
    ctx.count(f"{tag}:outcome={obs['outcome']}")

    # ---------------- correspondence with the Lean model
    m_out = model["outcome"]
    if m_out == "returned":
        impl_o, model_o = obs["outcome"], "returned"
    else:
        root = m_out["raised"]
        if obs["outcome"] != "raised":
            impl_o, model_o = "returned", "raised"
        else:
            e = obs["exc"]
            impl_o = {"wraps": e["wraps"], "class": e["class"] if e["wraps"] else None}
            model_o = {"wraps": m_out["wraps"], "class": "Exception" if m_out["wraps"] else None}
            if root["kind"] == "fault":
                if seq:
                    impl_o["root"], model_o["root"] = e["root_pos"], root["pos"]
                else:
                    # which fault wins is up to the schedule: it has to be one of the plan, bare when it fired in the
                    # parent (subset_by_slice / final merge), wrapped once when it fired inside a scan (raised_origin)
                    rp = e["root_pos"]
                    parent_side = rp is not None and rp[0] in ("subset", "outerMerge")
                    in_plan = rp in [list(p) for p in sc["faults"]]
                    if not in_plan and sc.get("exc") == "PvFalsy" and e["root_class"] == "TypeError":
                        # joblib's pool tests the retrieved exception object for truth: a falsy one is taken for "no result" and
                        # the pool itself fails ('NoneType' object is not iterable) - the search still raises, which is all the
                        # property asks; the model does not describe the pool's internals
                        in_plan = True
                        ctx.count(f"{tag}:falsy-exception-replaced-by-the-pool")
                    impl_o = {"root_in_plan": in_plan, "wraps": e["wraps"],
                              "class": e["class"] if e["wraps"] else None}
                    model_o = {"root_in_plan": True, "wraps": 0 if parent_side else 1,
                               "class": None if parent_side else "Exception"}
            elif root["kind"] == "ambient":
                impl_o["root"], model_o["root"] = e["root_class"], "KeyError"
            else:
                impl_o["root"], model_o["root"] = (e["root_class"] in ("ValueError", "ZeroDivisionError")), True
    ctx.agree("outcome", inp, impl_o, model_o)
    if seq:
        ctx.agree("trace(sequential)", inp, obs["events"], model["trace"])
        ctx.agree("segments created(sequential)", inp, obs["created"], model["nalloc"])
    else:
        allp = ctx.driver.call("c16.scanPoints" if sc["mode"] == "scan" else "c16.allPoints", cfg=cfg_of(sc))
        if obs["outcome"] == "returned":
            ctx.agree("trace(parallel, multiset)", inp, _multiset(obs["events"]), _multiset(model["trace"]))
            ctx.agree("segments created(parallel)", inp, obs["created"], model["nalloc"])
        else:
            have = _multiset(allp)
            extra = [e for e in _multiset(obs["events"]) if e not in have]
            ctx.agree("trace(parallel, raised) within the program points", inp, extra, [])
    ctx.agree("ledger after the call", inp, sorted(s["tile"] for s in obs["leaked"]) if (seq or outer <= 1 or obs["outcome"] == "returned") else [],
              [s[0] for s in model["live"]])
    ctx.agree("caller arrays", inp, len(obs["inputs_changed"]), model["inputs"])
    ctx.agree("segments go through the manager", inp, obs["unmanaged"], 0)

    # ---------------- the property's clauses on the real outputs
    if obs["fired"]:
        ctx.spec("a fault that fired makes the call raise", inp, obs["outcome"] == "raised",
                 {"fired": obs["fired"], "outcome": obs["outcome"]}, key="swallowed-fault")
    if obs["outcome"] == "returned":
        # results are copied out of shared memory before the manager exits: what the caller gets owns its memory (or is a
        # file-backed memory map); evaluated without touching the data
        ctx.spec("a returned result does not live in a shared-memory block of the call", inp, not obs["result_backing"],
                 {"arrays": obs["result_backing"], "analyzer": sc["analyzer"]}, key="partial-result:result-in-shared-memory")
        if obs["result_backing"]:
            raise _Abort("a returned result aliases a shared-memory block that has been released")
    if obs["outcome"] == "returned" and not sc.get("ambient"):
        ref = reference(sc)
        ok = ref["outcome"] == "returned" and _same_result(obs["result"], ref["result"])
        ctx.spec("a returned result is the complete result", inp, ok,
                 {"got": _brief(obs["result"]), "reference": _brief(ref["result"]), "fired": obs["fired"]},
                 key="partial-result")
    if obs["outcome"] == "returned":
        # evaluated on the log of the real run alone: every tile scored every rotation (and gave it to the analyzer)
        nt = cfg_of(sc)["ntiles"]
        want = {(t, g) for t in range(nt) for g in range(sc["nrot"])}
        rot = {(e[1], e[2]) for e in obs["events"] if e[0] == "rotate"}
        cbk = {(e[1], e[2]) for e in obs["events"] if e[0] == "callback"}
        miss = sorted(want - rot) + (sorted(want - cbk) if sc["analyzer"] != "none" else [])
        ctx.spec("a returned search scored every rotation on every tile", inp, not miss, {"missing (tile, rotation)": miss[:10]},
                 key="partial-result:rotations-missing")
    if obs["leaked"]:
        failing = {p[1] for p in obs["fired"]}
        sib = obs["outcome"] == "raised" and outer > 1 and all(s["tile"] not in failing and s["managed"] is not False for s in obs["leaked"])
        key = KNOWN_LEAK_KEY if sib else f"leak:{obs['outcome']}" + (":unmanaged" if any(s["managed"] is False for s in obs["leaked"]) else "")
    else:
        key = "leak"
    ctx.spec("no shared-memory segment of the call is left", inp, not obs["leaked"],
             {"leaked": obs["leaked"], "created": obs["created"], "outcome": obs["outcome"], "fired": obs["fired"]}, key=key)
    ctx.spec("caller's arrays unchanged", inp, not obs["inputs_changed"], obs["inputs_changed"],
             key="inputs:" + ",".join(obs["inputs_changed"]))
    # released = not held any more: with the result in the caller's hands (and the exception dropped) the calling
    # process has none of the call's segments mapped (results are copied out before the manager exits)
    ctx.spec("no segment of the call is still mapped by the caller", inp, not obs["mapped"],
             {"mapped segments (tile)": obs["mapped"], "outcome": obs["outcome"], "analyzer": sc["analyzer"]},
             key=f"mapped:{obs['outcome']}")
    sk = (tag, obs["outcome"], seq, bool(obs["leaked"]))
    if sk not in _SAMPLED and len(_SAMPLED) < 8:
        _SAMPLED.add(sk)
        ctx.sample({"scenario": {k: v for k, v in sc.items() if k not in ("dseed",)},
                    "impl": {"outcome": obs["outcome"], "exc": obs.get("exc"), "segments_created": obs["created"],
                             "segments_left": len(obs["leaked"]), "points_reached": len(obs["events"]), "wall_s": obs["wall"]},
                    "model": {"outcome": model["outcome"], "nalloc": model["nalloc"], "live": len(model["live"]),
                              "trace_len": len(model["trace"])}}, limit=8)
    trivial = not sc["faults"] and seq and cfg_of(sc)["ntiles"] == 1 and not sc.get("ambient")
    if not trivial:
        ctx.distinct([sc["mode"], sc["score"], sc["analyzer"], sc["dim"], sorted(sc["splits"].items()), sc["nrot"], sc["sched"],
                      sorted(map(tuple, sc["faults"])), bool(sc.get("ambient")), sc.get("exc", "PvFault"),
                      sorted((sc.get("tsplits") or {}).items()), bool(sc.get("tfilter")), bool(sc.get("gfilter")),
                      sc.get("layout", "c"), bool(sc.get("invert")), sc.get("jpc")])
    return obs, model


def _brief(r):
    if isinstance(r, dict) and "scores" in r:
        return {"kind": r["kind"], "shape": r["shape"], "max": max(r["scores"]) if r["scores"] else None,
                "sum": round(float(np.sum(r["scores"])), 3)}
    return r


# ------------------------------------------------------------------ generators
SCORES = list(SETUP_SEGS)
ANALYZERS = ["max", "peak", "none"]
EXCS = ["PvFault", "ValueError", "MemoryError", "KeyError", "RuntimeError", "OSError", "PvSilentFault", "AttributeError", "TypeError",
        "IndexError", "ZeroDivisionError", "NotImplementedError", "AssertionError", "AttributeError",
        # pv.c16_hooks: no arguments at all, falsy exception objects, warnings raised as errors
        "PvNoArgs", "PvFalsy", "PvWarning"]
# only where no pool pickles / re-raises the exception: StopIteration (PEP 479 turns it into RuntimeError + __cause__ inside
# generator bodies) and the rest of the built-in hierarchy (joblib gives some of them, e.g. TimeoutError, a meaning of its own)
EXCS_SEQ = ["StopIteration"]


def _rare_kinds():
    _setup()
    return list(_H.BUILTIN_KINDS)


def _base(rng, parallel=False):
    dim = int(rng.choice([2, 3]))
    mode = "scan" if rng.random() < 0.25 else "subsets"
    n = int(rng.integers(12, 17)) if dim == 3 else int(rng.integers(20, 33))
    m = int(rng.integers(4, 7))
    splits = {}
    if mode == "subsets":
        for ax in range(dim):
            if rng.random() < (0.6 if not parallel else 0.8):
                splits[str(ax)] = int(rng.integers(2, 4)) if ax == 0 else 2
        if len(splits) == 3:
            splits.pop("2")
    sc = {"mode": mode, "score": str(rng.choice(SCORES)), "analyzer": str(rng.choice(ANALYZERS, p=[0.6, 0.25, 0.15])),
          "dim": dim, "n": n, "m": m, "dseed": int(rng.integers(0, 1000)), "nrot": int(rng.integers(1, 6)),
          "splits": splits, "sched": [1, 1], "faults": [], "delays": [], "exc": str(rng.choice(EXCS)),
          "pad_edges": bool(rng.random() < 0.7), "pad_fourier": bool(rng.random() < 0.7), "memmap": bool(rng.random() < 0.3)}
    # the newer dimensions, from a sub-stream of their own
    r2 = np.random.default_rng([int(rng.integers(0, 2 ** 31)), 16])
    sc["tfilter"] = bool(r2.random() < 0.25)
    sc["gfilter"] = bool(r2.random() < 0.25)
    if sc["tfilter"] and r2.random() < 0.3:
        sc["pad_template_filter"] = False
    if mode == "subsets" and r2.random() < 0.2:
        sc["tsplits"] = {"0": 2}
    if r2.random() < 0.3:
        sc["layout"] = str(r2.choice(LAYOUTS))
    if mode == "subsets" and r2.random() < 0.15:
        sc["invert"] = True
    if sc["analyzer"] == "max" and r2.random() < 0.15:
        sc["analyzer"], sc["memmap"] = "nonshared", False
        if mode == "scan":
            sc["jpc"] = int(r2.integers(1, 4))
    return sc


def _points(ctx, sc):
    return ctx.driver.call("c16.scanPoints" if sc["mode"] == "scan" else "c16.allPoints", cfg=cfg_of(sc))


def _dead_position(rng, sc, pts):
    """a position that no run of this configuration reaches"""
    cfg = cfg_of(sc)
    for _ in range(20):
        ph = str(rng.choice(PHASES))
        p = [ph, int(rng.integers(0, cfg["ntiles"] + 2)), int(rng.integers(0, sc["nrot"] + 3))]
        if p not in pts:
            return p
    return ["rotate", cfg["ntiles"] + 1, 0]


def _pick_faults(rng, sc, pts, k, dead=0):
    out = []
    if pts and k:
        # stratify by phase so that rare phases are hit as often as the rotation loop
        by = {}
        for p in pts:
            by.setdefault(p[0], []).append(p)
        for _ in range(k):
            ph = str(rng.choice(sorted(by)))
            out.append(list(by[ph][int(rng.integers(0, len(by[ph])))]))
    for _ in range(dead):
        out.append(_dead_position(rng, sc, pts))
    uniq = []
    for p in out:
        if p not in uniq:
            uniq.append(p)
    return uniq


def _sweep(ctx, rng, nconf, tag, small=False):
    """every single fault position of small sequential configurations (`small`: at most two tiles and two rotations, so
    that the number of positions - and the time of the quick tier - does not depend on the seed)"""
    n = 0
    for i in range(nconf):
        sc = _base(rng)
        sc["nrot"] = int(rng.integers(1, 4))
        if i % 3 == 0:
            sc["mode"], sc["splits"] = "subsets", {"0": 2}
        sc["analyzer"] = ANALYZERS[i % 3] if i % 4 else "max"
        sc["score"] = SCORES[(i * 3 + int(rng.integers(0, 2))) % len(SCORES)]
        sc["tfilter"], sc["gfilter"] = (i % 4 == 1), (i % 4 in (1, 3))
        sc.pop("tsplits", None)
        if i % 5 == 2:
            # the tiles come from a split of the template
            sc.update(mode="subsets", splits=({} if small else sc["splits"]), tsplits={"0": 2})
        if small:
            sc["nrot"] = 1 + (i + int(rng.integers(0, 2))) % 2
            if sc["mode"] == "subsets" and _ntiles(sc) > 2:
                sc["splits"] = {"0": 2}
            sc["layout"] = LAYOUTS[(3 * i + int(rng.integers(0, 3))) % len(LAYOUTS)]
        pts = _points(ctx, sc)
        check(ctx, dict(sc), tag)
        for p in pts:
            check(ctx, dict(sc, faults=[list(p)]), tag)
            n += 1
    return n


BASE_KINDS = ["KeyboardInterrupt", "SystemExit"]


def _base_exceptions(ctx, rng, tag):
    """faults that are not `Exception`s (Ctrl-C, sys.exit() somewhere below the search), sequential schedules only: whatever
    the library does with them, it must not hand back a result as if the search had completed, and it must not leave segments"""
    F = _setup()
    F._EXC.update({"KeyboardInterrupt": KeyboardInterrupt, "SystemExit": SystemExit})
    for c in range(ctx.budget(2, 8)):
        sc = _base(rng)
        sc.update(mode=["subsets", "scan"][c % 2], splits={"0": 2} if c % 2 == 0 else {}, nrot=2, analyzer="max", memmap=False, sched=[1, 1])
        pts = _points(ctx, sc)
        first = {}
        for p in pts:
            first.setdefault(p[0], p)
        for ph, p in sorted(first.items()):
            if ph in ("subset", "outerMerge") and sc["mode"] == "scan":
                continue
            for k in BASE_KINDS:
                s2 = dict(sc, faults=[list(p)], exc=k)
                obs = run_real(s2)
                inp = {"scenario": {kk: v for kk, v in s2.items() if kk != "dseed"}, "dseed": s2.get("dseed")}
                fired = bool(obs.get("fired"))
                if not fired:
                    ctx.count("base-exception:point-not-reached")
                    continue
                ctx.spec("a returned result is the complete result", inp, obs["outcome"] == "raised",
                         {"outcome": obs["outcome"], "result": _brief(obs.get("result"))}, key="base-exception:returned")
                ctx.spec("no shared-memory segment of the call is left", inp, not obs["leaked"], {"left": obs["leaked"]},
                         key="base-exception:leak")
                ctx.count("base-exception:" + k)
                ctx.distinct(("base-exc", sc["mode"], ph, k))


def _exc_matrix(ctx, rng, tag, nconf):
    """every program-point kind x every kind of exception (what is raised must not decide whether the search fails).
    Quick: the full product for the usual kinds and the chameleons (pv.c16_hooks: a few classes that together are instances
    of every built-in exception class) on tile 0 (+ first / last allocation, both filters), a rotating share for the second
    tile's positions; thorough: every built-in class by itself as well, on both tiles."""
    _setup()
    main = list(dict.fromkeys(EXCS + EXCS_SEQ + sorted(_H.CHAMELEONS)))
    rare = _rare_kinds()
    for c in range(nconf):
        sc = _base(rng)
        sc.update(mode="subsets", splits={"0": 2}, nrot=2 if ctx.thorough else 1, analyzer=["max", "peak"][c % 2], memmap=False,
                  tfilter=True, gfilter=True, tsplits={}, layout="c", invert=False)
        if not ctx.thorough:
            sc.update(dim=2, n=20 + c, m=4)
        sc.pop("pad_template_filter", None)
        pts = _points(ctx, sc)
        first, second = {}, {}
        for p in pts:
            if p[1] == 0:
                first.setdefault(p[0], p)
            if p[1] == 1:
                second.setdefault(p[0] + "@tile1", p)
            if p[0] == "filter" and p[2] == 1:
                first.setdefault("filter:target", p)
            if p[0] == "alloc" and p[1] == 0:
                first["alloc:last"] = p       # the last allocation of tile 0's scan (post-processing for score maps)
        off = int(rng.integers(0, 1000))
        runs = []
        for i, (ph, p) in enumerate(first.items()):
            ks = list(main)
            if ctx.thorough and c == 0:
                ks += rare
            runs += [(p, k) for k in dict.fromkeys(ks)]
        allk = main + rare
        for i, (ph, p) in enumerate(second.items()):
            ks = main if ctx.thorough else [allk[(off + 3 * i + j * 11) % len(allk)] for j in range(2)]
            runs += [(p, k) for k in dict.fromkeys(ks)]
        for p, k in runs:
            check(ctx, dict(sc, faults=[list(p)], exc=k), tag)
            ctx.count(f"exc-matrix:{p[0]}")
            ctx.count(f"exc-kind:{k}")
        if not ctx.thorough and sc["analyzer"] == "max":
            # the quick tier has one configuration (score maps): the phases that run inside the analyzer once more with a
            # peak caller (its fault is raised from inside call_peaks), every usual kind of exception
            sc2 = dict(sc, analyzer="peak")
            for p in [q for q in _points(ctx, sc2) if q[0] in ("callback", "postprocess", "merge") and q[1] == 0][:3]:
                for k in main:
                    check(ctx, dict(sc2, faults=[list(p)], exc=k), tag)
                    ctx.count(f"exc-matrix:peak-caller:{p[0]}")
                    ctx.count(f"exc-kind:{k}")


def _inputs(ctx, rng, tag, reps):
    """the caller's arrays in every way a caller can hold them (memory order, views into larger buffers, read-only, other
    dtypes, memory maps, Density objects) x scan / scan_subsets x the scores that normalise or mask in place: the search
    succeeds, every byte behind the arrays (whole base buffer, file on disk) is what it was; one fault per layout as well"""
    inplace = ["FLC", "MCC", "CORR", "FLCSphericalMask", "CAM", "LCC", "CC"]
    n = 0
    for r in range(reps):
        for li, layout in enumerate(LAYOUTS):
            for mi, mode in enumerate(("scan", "subsets")):
                sc = _base(rng)
                sc.update(mode=mode, splits=({} if mode == "scan" else {"0": 2}), tsplits={}, layout=layout,
                          score=inplace[(li + 3 * mi + r) % (4 if r == 0 else len(inplace))], analyzer=["max", "peak", "max"][(li + mi + r) % 3],
                          memmap=False, invert=bool(mode == "subsets" and (li + r) % 2 == 0), nrot=int(rng.integers(1, 3)),
                          tfilter=bool((li + r) % 4 == 1), gfilter=bool((li + mi + r) % 4 == 2), faults=[])
                if sc["invert"]:
                    # without padded edges subset_array has nothing to pad (a view would do); single tile every other time
                    sc["pad_edges"] = bool((li // 2 + r) % 2)
                    if (li + r) % 4 == 0:
                        sc["splits"] = {}
                sc.pop("pad_template_filter", None)
                sc.pop("jpc", None)
                check(ctx, dict(sc), tag)
                n += 1
                if (li + mi + r) % 2 == 0:
                    pts = _points(ctx, sc)
                    check(ctx, dict(sc, faults=_pick_faults(rng, sc, pts, 1)), tag)
    return n


def _random_seq(ctx, rng, count, tag):
    for i in range(count):
        sc = _base(rng)
        pts = _points(ctx, sc)
        r = rng.random()
        if r < 0.25:
            sc["faults"] = _pick_faults(rng, sc, pts, 0, dead=int(rng.integers(0, 3)))
        elif r < 0.6:
            sc["faults"] = _pick_faults(rng, sc, pts, 1, dead=int(rng.random() < 0.2))
        else:
            sc["faults"] = _pick_faults(rng, sc, pts, int(rng.integers(2, 5)), dead=int(rng.random() < 0.2))
        check(ctx, sc, tag)


def _parallel(ctx, rng, count, tag):
    scheds = [[1, 2], [2, 1], [1, 3], [3, 1], [2, 2], [4, 1], [2, 1], [1, 2]]
    for i in range(count):
        sc = _base(rng, parallel=True)
        sc["sched"] = list(scheds[int(rng.integers(0, len(scheds)))]) if i >= len(scheds) else list(scheds[i])
        if sc["sched"][0] > 1:
            sc["mode"] = "subsets"
            if not sc["splits"]:
                sc["splits"] = {"0": 2, "1": 2}
        if sc["mode"] == "scan":
            sc["sched"][0] = 1
            if sc["sched"][1] == 1:
                sc["sched"][1] = 2
        if sc["sched"][1] > 1:
            sc["nrot"] = int(rng.integers(2, 7))
        pts = _points(ctx, sc)
        r = rng.random()
        k = 0 if r < 0.2 else (1 if r < 0.7 else 2)
        sc["faults"] = _pick_faults(rng, sc, pts, k, dead=int(rng.random() < 0.15))
        # vary the interleaving: hold some program points back
        delays = []
        for p in sc["faults"]:
            if rng.random() < 0.7:
                delays.append([p[0], p[1], p[2], round(float(rng.uniform(0.2, 1.2)), 2)])
        for _ in range(int(rng.integers(0, 3))):
            q = pts[int(rng.integers(0, len(pts)))]
            if q[0] not in ("subset", "outerMerge"):
                delays.append([q[0], q[1], q[2], round(float(rng.uniform(0.2, 1.5)), 2)])
        sc["delays"] = delays
        check_parallel(ctx, sc, tag)


def _picks_for(order, n):
    rem = list(range(n))
    picks = []
    for t in order:
        i = rem.index(t)
        picks.append(i)
        rem.pop(i)
    return picks


def check_parallel(ctx, sc, tag):
    """check() plus: when the outer pool was torn down, the ledger the model predicts for the observed progress of
    the tiles in flight (Policy.kill) against the segments really left"""
    obs, model = check(ctx, sc, tag)
    outer = sc["sched"][0] if sc["mode"] == "subsets" else 1
    if obs["outcome"] != "raised" or outer <= 1:
        return obs
    cfg = cfg_of(sc)
    nt = cfg["ntiles"]
    failing = sorted({p[1] for p in obs["fired"]})
    per_tile = {}
    for e in obs["events"]:
        if e[0] not in ("subset", "outerMerge"):
            per_tile.setdefault(e[1], []).append(e)
    done, flight = [], {}
    bounds, exiting = {}, set()
    for t, evs in per_tile.items():
        if t in failing:
            continue
        flat = ctx.driver.call("c16.flatSteps", cfg=cfg, tile=t)
        if len(evs) >= sum(1 for s_ in flat if isinstance(s_, list)) and not any(s_["tile"] == t for s_ in obs["leaked"]):
            done.append(t)      # reached its last point and released everything: it completed before the pool went down
            continue
        # the tile logged `ne` of its points before it was killed: it executed at least the steps up to its ne-th point
        # and at most those before its (ne+1)-th; allocations in between may or may not have happened
        ne, seen, lo_steps, allocs, hi = len(evs), 0, 0, 0, None
        for j, s_ in enumerate(flat):
            if isinstance(s_, list):
                if seen == ne:
                    hi = allocs
                    break
                seen += 1
                lo_steps = j + 1
            elif isinstance(s_, dict) and "alloc" in s_:
                allocs += s_["alloc"]
        flight[t] = lo_steps
        bounds[str(t)] = allocs if hi is None else hi
        if hi is None:
            exiting.add(str(t))     # it logged its last point: its manager may have been half-way through __exit__
    if not flight:
        return obs
    order = done + failing[:1] + sorted(flight) + [t for t in range(nt) if t not in done and t not in failing[:1] and t not in flight]
    sched = {"outerPicks": _picks_for(order, nt), "tiles": [],
             "progress": [{"steps": int(flight.get(t, 0)), "exited": False} for t in range(nt)]}
    m2 = run_model(ctx, dict(sc, faults=[list(p) for p in obs["fired"][:1]]), sched=sched, policy="kill")
    model_live = _hist(s[0] for s in m2["live"])
    real_live = _hist(s["tile"] for s in obs["leaked"])

    def within(a, b):
        # model (prefix through the last logged point) <= real <= allocations before the next point
        return all((0 if t in b["exiting"] else b["model"].get(t, 0)) <= a.get(t, 0) <= b["hi"].get(t, 0)
                   for t in set(a) | set(b["hi"]))
    ctx.agree("ledger(kill policy, tiles in flight)", {"scenario": sc, "in_flight": flight, "sched": sched}, real_live,
              {"hi": bounds, "model": model_live, "exiting": sorted(exiting)}, eq=within)
    ctx.count(f"{tag}:in-flight-siblings={len(flight)}")
    ctx.count(f"{tag}:leaked-after-kill={'yes' if obs['leaked'] else 'no'}")
    return obs


def _designed_known(ctx, tag):
    """the reproduced defect: a tile fails while a sibling tile (other worker) holds segments"""
    sc = {"mode": "subsets", "score": "CC", "analyzer": "max", "dim": 3, "n": 14, "m": 4, "dseed": 7, "nrot": 3,
          "splits": {"0": 2}, "sched": [2, 1], "faults": [["callback", 0, 2]],
          "delays": [["callback", 0, 2, 2.5], ["postprocess", 1, 0, 6.0]], "exc": "PvFault", "pad_edges": True, "pad_fourier": True}
    return check_parallel(ctx, sc, tag)


def _designed_complete(ctx, tag):
    """fault-free searches on real pools: rotations that do not divide evenly over the jobs; tiles on two workers"""
    base = {"score": "FLCSphericalMask", "analyzer": "max", "dim": 2, "n": 24, "m": 5, "dseed": 11, "faults": [], "delays": [],
            "exc": "PvFault", "pad_edges": True, "pad_fourier": True}
    check_parallel(ctx, dict(base, mode="scan", nrot=3, splits={}, sched=[1, 2]), tag)
    check_parallel(ctx, dict(base, mode="subsets", nrot=2, splits={"0": 2}, sched=[2, 1]), tag)
    # a user analyzer that is not shared: one instance per jobs_per_callback_class jobs (3 jobs, 1 instance; 2 rotations
    # over 3 jobs: the first two chunks are empty), filters on, Fortran-ordered caller arrays
    ns = dict(base, mode="scan", analyzer="nonshared", nrot=2, splits={}, sched=[1, 3], jpc=2, tfilter=True, gfilter=True,
              layout="f")
    check_parallel(ctx, ns, tag)
    # ... and its last post-processing allocation cannot be created (job 2 of 3): the search fails, nothing stays
    pts = _points(ctx, ns)
    last_alloc = [p for p in pts if p[0] == "alloc"][-1]
    check_parallel(ctx, dict(ns, faults=[list(last_alloc)], exc="OSError"), tag)
    # more outer jobs than tiles, the tiles coming from a split of the template alone (2 tiles on 3 workers), a failing
    # target filter in the second tile (gpu_index = 1: a device other than the first), raised without arguments
    tt = dict(base, mode="subsets", nrot=2, splits={}, tsplits={"0": 2}, sched=[3, 1], gfilter=True, m=6)
    check_parallel(ctx, dict(tt, faults=[["filter", 1, 1]], exc="PvNoArgs"), tag)


def _special(ctx, rng, tag, n_amb):
    # ambient exception on entry (observation kept in the model), malformed n_jobs
    for i in range(n_amb):
        sc = _base(rng)
        sc["ambient"] = True
        if i % 2 == 1:
            # a fault inside a tile's scan while the caller is handling another exception, both entry points
            sc["mode"] = ["subsets", "scan"][(i // 2) % 2]
            sc["splits"] = ({"0": 2} if sc["mode"] == "subsets" else {})
            sc.pop("tsplits", None)
            pts = [p for p in _points(ctx, sc) if p[0] not in ("subset", "outerMerge")]
            sc["faults"] = _pick_faults(rng, sc, pts, 1)
        check(ctx, sc, tag)
    for sched in ([0, 1], [1, 0]):
        sc = _base(rng)
        sc["mode"], sc["sched"] = "subsets", sched
        check(ctx, sc, tag)
    sc = _base(rng)
    sc["nrot"] = 0
    check(ctx, sc, tag)


def _obligations(ctx):
    F = _setup()
    tabs = _extract_tables()
    ctx.obligation("setup functions: segments allocated through the handler == SETUP_SEGS", tabs["setup"] == SETUP_SEGS,
                   {"extracted": tabs["setup"], "constant": SETUP_SEGS})
    an = tabs["analyzer"]
    ok = an.get("MaxScoreOverRotations") == list(ANALYZER_SEGS["max"]) and an.get("PeakCaller") == list(ANALYZER_SEGS["peak"]) \
        and an.get("MaxScoreOverRotations:other") == 0 and an.get("PeakCaller:other") == 0
    ctx.obligation("analyzers: segments allocated at construction/_postprocess == ANALYZER_SEGS", ok, an)
    ctx.obligation("scan is wrapped by device_memory_handler, scan_subsets is not",
                   tabs["decorators"] == {"scan": ["device_memory_handler"], "scan_subsets": []}, tabs["decorators"])
    # conversion to the backend copies the caller's arrays (Cfg.copies = true)
    from tme.matching_data import MatchingData
    from tme.analyzer import MaxScoreOverRotations, PeakCallerMaximumFilter
    a = np.ones((6, 6), np.float32)
    b = np.ones((3, 3), np.float32)
    md = MatchingData(a, b, rotations=np.eye(2, dtype=np.float32)[None])
    md.to_backend()
    ctx.obligation("to_backend copies (Cfg.copies)", not np.shares_memory(md._target, a) and not np.shares_memory(md._template, b))
    from tme.density import Density
    da, db = Density(a.copy()), Density(b.copy())
    mdd = MatchingData(da, db, template_mask=Density(b.copy()), rotations=np.eye(2, dtype=np.float32)[None])
    mdd.to_backend()
    ctx.obligation("to_backend copies the arrays of Density objects too",
                   all(isinstance(getattr(mdd, k), np.ndarray) for k in ("_target", "_template", "_template_mask"))
                   and not np.shares_memory(mdd._target, da.data) and not np.shares_memory(mdd._template, db.data))
    sub = MatchingData(a, b, rotations=np.eye(2, dtype=np.float32)[None]).subset_by_slice()
    ctx.obligation("subset_by_slice copies", not np.shares_memory(sub._target, a) and not np.shares_memory(sub._template, b))
    ctx.obligation("analyzers are 'shared' (Cfg.shared): one instance per job",
                   all(getattr(c, "shared", True) for c in (MaxScoreOverRotations, PeakCallerMaximumFilter)))
    # chunking of rotations == Pm.C16.chunk
    reqs, impl = [], []
    for R in range(0, 9):
        for n in range(1, 7):
            md._rotations = np.zeros((R, 2, 2), np.float32)
            md._rotations[:, 0, 0] = np.arange(R)
            impl.append([[int(x) for x in c[:, 0, 0]] for c in md._split_rotations_on_jobs(n)])
            reqs.append(("c16.chunks", {"nrot": R, "njobs": n}))
    ctx.agree("_split_rotations_on_jobs", {"R<9": True, "n<7": True}, impl, ctx.driver.batch(reqs))
    return F


class _Quiet:
    """pyTME prints the traceback of every captured exception to stderr (in workers too): keep the check's output
    for verdict lines, keep the text in the scratch directory"""

    def __enter__(self):
        import sys
        from pv import env
        sys.stderr.flush()
        sys.__stdout__.flush()
        self.saved = [os.dup(1), os.dup(2)]
        self.f = open(os.path.join(env.scratch(), "c16_output.log"), "ab")
        os.dup2(self.f.fileno(), 1)
        os.dup2(self.f.fileno(), 2)
        return self

    def __exit__(self, *a):
        import sys
        sys.stderr.flush()
        sys.__stdout__.flush()
        os.dup2(self.saved[0], 1)
        os.dup2(self.saved[1], 2)
        os.close(self.saved[0])
        os.close(self.saved[1])
        self.f.close()


def run(ctx):
    with _Quiet():
        try:
            _run(ctx)
        except _Abort as e:
            ctx.note(f"stopped early: {e}")


def _canary(ctx, tag):
    """first of all: plain fault-free `scan` calls whose result is inspected without being read (see _result_backing)"""
    base = {"mode": "scan", "score": "FLCSphericalMask", "dim": 2, "n": 24, "m": 5, "dseed": 3, "nrot": 2, "splits": {}, "sched": [1, 1],
            "faults": [], "delays": [], "exc": "PvFault", "pad_edges": True, "pad_fourier": True}
    for an, extra in (("max", {}), ("max", {"memmap": True}), ("peak", {}), ("nonshared", {"jpc": 2})):
        check(ctx, dict(base, analyzer=an, **extra), tag)
    # minimised inputs of past findings
    import glob
    from pv import env
    for fn in sorted(glob.glob(os.path.join(env.VERIF, "corpus", "C16_*.json"))):
        with open(fn) as f:
            rec = json.load(f)
        sc = rec.get("input")
        if isinstance(sc, dict) and "mode" in sc and _sequential(sc):
            check(ctx, dict(sc), "corpus")


def _run(ctx):
    _obligations(ctx)
    rng = ctx.rng("main")
    times = []

    def timed(name, fn, *a):
        t0 = time.time()
        fn(*a)
        times.append(f"{name} {time.time() - t0:.1f}s")
    t0 = time.time()
    _canary(ctx, "canary")
    timed("sweep", _sweep, ctx, rng, ctx.budget(4, 12), "sweep", not ctx.thorough)
    timed("exc-matrix", _exc_matrix, ctx, rng, "excmatrix", ctx.budget(1, 2))
    timed("base-exceptions", _base_exceptions, ctx, ctx.rng("baseexc"), "baseexc")
    timed("random", _random_seq, ctx, rng, ctx.budget(50, 500), "rand")
    timed("inputs", _inputs, ctx, ctx.rng("inputs"), "inputs", ctx.budget(1, 6))
    timed("special", _special, ctx, rng, "special", ctx.budget(4, 20))
    t1 = time.time()
    timed("designed-complete", _designed_complete, ctx, "par")
    timed("designed-known", _designed_known, ctx, "par")
    timed("parallel", _parallel, ctx, ctx.rng("parallel"), ctx.budget(4, 35), "par")
    ctx.note(f"sequential stream {t1 - t0:.1f}s, multi-process stream {time.time() - t1:.1f}s ({', '.join(times)})")


def search(ctx):
    """Correspondence / an obligation broke without a failing input in the main stream: every single fault position of
    more configurations (sequential and multi-process), repeated faults, other seeds."""
    rng = ctx.rng("search")
    with _Quiet():
        _setup()
        try:
            _search(ctx, rng)
        except _Abort as e:
            ctx.note(f"search stopped early: {e}")


def _search(ctx, rng):
    _canary(ctx, "search")
    _sweep(ctx, rng, 10, "search")
    _inputs(ctx, rng, "search", 2)
    _random_seq(ctx, rng, 150, "search")
    _special(ctx, rng, "search", 3)
    # fault-free searches whose rotations do not divide evenly over the jobs (real inner pools)
    for R, n in ((3, 2), (5, 3), (2, 3), (1, 2), (4, 3)):
        sc = _base(rng)
        sc.update(mode="scan", analyzer="max", nrot=R, sched=[1, n], splits={}, exc="PvFault")
        check_parallel(ctx, sc, "search")
    _parallel(ctx, rng, 10, "search")


def replay(ctx, rec):
    sc = rec.get("input")
    if isinstance(sc, dict) and "scenario" in sc:
        sc = sc["scenario"]
    if not isinstance(sc, dict) or "mode" not in sc:
        return run(ctx)
    with _Quiet():
        _setup()
        try:
            if sc["sched"][0] > 1 or sc["sched"][1] > 1:
                check_parallel(ctx, sc, "replay")
            else:
                check(ctx, sc, "replay")
        except _Abort:
            pass
