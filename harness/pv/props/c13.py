"""C13 — FFT shapes, padding and cropping helpers are exact for every shape.

Leg B: real helpers of /repo vs the Lean model (Model/C13.lean), plus the property's clauses
evaluated directly on the implementation's outputs."""
import itertools
import multiprocessing as mp
import os

import numpy as np

ID = "C13"
RULE = ("exhaustive small extents (1-3 axes) for shapes/crops; next_fast_len for every n below a bound; random integer "
        "arrays for padding; real rfftn/irfftn round trips; shared memory read back in a child process. "
        "Widened: extents up to several thousand, primes / non-fast lengths / extent-1 axes, shapes handed over as tuple, list, "
        "integer arrays or numpy scalars; plans built on the caller's buffers, with an explicit inverse shape and planner arguments, "
        "reused for several inputs at scales 1e-9..1e3 and offsets; padding of every dtype the library uses in every memory layout "
        "(Fortran, strided, reversed, read-only, memmap), fractional pad values, pad value left out after having been given; "
        "n-D centre extraction; crops out of an explicitly given convolution shape; masking form in every dtype/layout; unknown "
        "mode names; shared memory without a manager, many live blocks of equal size, special bit patterns, blocks beyond a page. "
        "Deepened: MatchingData._fourier_padding / fourier_padding / target_padding (every parity, rank 1-3, extents next to fast lengths, "
        "template larger than the target, batch axes, both paddings), roll by the returned shift + convolution-mode crop (directly and through "
        "MaxScoreOverRotations._postprocess) with the window clause t -> t + (m-1)//2 evaluated on the real output, topk_indices (ties, k=0, "
        "k=size, k>size), indices, max_filter_coordinates (negative scores, even/odd sizes), center_of_mass against the exact rational, "
        "_rigid_transform_matrix for integer rotations, the shapes/axes of the pyFFTW plans build_fft returns (explicit inverse shapes of "
        "either parity), the shared-memory (buffer, shape, dtype) triple. "
        "distinct = distinct (helper, shapes/parities) tuples; trivial cases (extent-1 axes only) are not counted")
ASSUMPTIONS = ["pyfftw.next_fast_len is compared with the model for every n below the bound, beyond that it is trusted "
               "(the model is the least FFTW-fast length; pyFFTW 0.15 returns the least one for requests up to 10000 - its table - and may "
               "return a larger fast length beyond, first at 10010: there only 'fast and at least the request' is checked)",
               "rfftn/irfftn numerics are pyFFTW's: the round trip is checked on the real code only (tolerance 1e-4 f32 / 1e-10 f64 for "
               "small integers; for scaled data the a-priori bound 8 eps (1+log2 N) sqrt(N) |x|_2 per forward coefficient and "
               "16 eps (1+log2 N) |x|_2 per round-trip sample)"]
TRUSTED = ["C13: pyFFTW transforms and OS shared memory are exercised, not modelled"]


def _child_read(args, q):
    from tme.backends import backend as be
    arr = be.from_sharedarr(args)
    q.put(np.array(arr).tolist())


def _child_read_many(args_list, q):
    from tme.backends import backend as be
    out = []
    for args in args_list:
        try:
            arr = np.ascontiguousarray(be.from_sharedarr(args))
            out.append((arr.tobytes(), tuple(arr.shape), arr.dtype.str))
        except Exception as e:  # noqa
            out.append(("raised:" + type(e).__name__ + ":" + str(e)[:80], None, None))
    q.put(out)


def _call(ctx, clause, inp, key, fn):
    """run a call into the library; an exception is a failure of the clause (with the input), never a crash of the check"""
    try:
        return True, fn()
    except Exception as e:  # noqa
        ctx.spec(clause, inp, False, {"raised": type(e).__name__ + ": " + str(e)[:160]}, key=key)
        return False, None


_CONTAINERS = ("tuple", "list", "int64-array", "int32-array", "numpy-scalars")


def _container(kind, s):
    s = [int(x) for x in s]
    if kind == "tuple":
        return tuple(s)
    if kind == "list":
        return list(s)
    if kind == "int64-array":
        return np.array(s, dtype=np.int64)
    if kind == "int32-array":
        return np.array(s, dtype=np.int32)
    return tuple(np.int32(x) for x in s)


def _layouts(a, rng=None, scratch_name=None):
    """the same values in every memory layout numpy hands out (the property speaks of arrays, not of C-ordered arrays)"""
    yield "C", np.ascontiguousarray(a)
    yield "F", np.asfortranarray(a)
    yield "transposed-view", np.ascontiguousarray(a.T).T
    big = np.zeros(tuple(2 * x + 1 for x in a.shape), dtype=a.dtype)
    sl = tuple(slice(1, 1 + 2 * x, 2) for x in a.shape)
    big[sl] = a
    yield "strided-offset-view", big[sl]
    yield "reversed-view", np.ascontiguousarray(a[::-1])[::-1]
    ro = np.array(a, copy=True)
    ro.setflags(write=False)
    yield "read-only", ro
    if scratch_name is not None:
        from pv import env
        path = os.path.join(env.scratch(), scratch_name)
        mm = np.memmap(path, dtype=a.dtype, mode="w+", shape=a.shape)
        mm[...] = a
        mm.flush()
        del mm
        yield "memmap-read-only", np.memmap(path, dtype=a.dtype, mode="r", shape=a.shape)


def _values(rng, shape, dt, kind):
    """integer-valued, or scaled / offset reals (and complex numbers with an imaginary part)"""
    dt = np.dtype(dt)
    if kind == "int" or dt.kind in "iu":
        re = rng.integers(-9, 10, size=shape).astype(np.float64)
        im = rng.integers(-9, 10, size=shape).astype(np.float64)
    else:
        scale = float(rng.choice([1e-9, 1e-3, 1.0, 1e3]))
        offset = float(rng.choice([0.0, 0.0, 10.0, 1000.0])) * scale
        re = offset + scale * rng.standard_normal(size=shape)
        im = scale * rng.standard_normal(size=shape)
    if dt.kind == "c":
        return (re + 1j * im).astype(dt)
    return re.astype(dt)


def _conv_shapes_case(ctx, be, tmem, inp, s1, s2, a1, a2, m):
    """both implementations of the shape planner on (a1, a2) (= s1, s2 in some container): model agreement and the clause"""
    kwcall = bool(inp.get("by-keyword"))
    for name, key, fn in (("compute_convolution_shapes", "convshapes",
                           (lambda: be.compute_convolution_shapes(arr1_shape=a1, arr2_shape=a2)) if kwcall else (lambda: be.compute_convolution_shapes(a1, a2))),
                          ("memory._compute_convolution_shapes", "convshapes:memory",
                           (lambda: tmem._compute_convolution_shapes(arr1_shape=a1, arr2_shape=a2)) if kwcall else (lambda: tmem._compute_convolution_shapes(a1, a2)))):
        clause = "planned>=linear-conv & half-spectrum shape"
        inp_ = dict(inp, function=name)
        okc, r = _call(ctx, clause, inp_, key, fn)
        if not okc:
            continue
        try:
            conv, fast, ft = r
            impl = {"conv": [int(x) for x in conv], "fast": [int(x) for x in fast], "ft": [int(x) for x in ft]}
        except Exception as e:  # noqa
            ctx.spec(clause, inp_, False, {"result": repr(r)[:200], "raised": type(e).__name__}, key=key)
            continue
        ctx.agree(name, inp, impl, m)
        ok = len(impl["fast"]) == len(s1) and len(impl["conv"]) == len(s1) and \
            all(f >= a + b - 1 for f, a, b in zip(impl["fast"], s1, s2)) and \
            impl["ft"] == impl["fast"][:-1] + [impl["fast"][-1] // 2 + 1] and \
            all(c == a + b - 1 for c, a, b in zip(impl["conv"], s1, s2))
        ctx.spec(clause, inp_, ok, impl, key=key)
        # what is returned belongs to the caller (the callers do modify these lists): scribbling on it must not change what the
        # next call with the same shapes returns
        try:
            for part in r:
                if isinstance(part, (list, np.ndarray)) and len(part):
                    part[0] = -7
        except Exception:  # noqa
            pass
        okc, r2 = _call(ctx, clause, dict(inp_, call="second call, after the first result was modified by the caller"), key, fn)
        if okc:
            try:
                impl2 = {"conv": [int(x) for x in r2[0]], "fast": [int(x) for x in r2[1]], "ft": [int(x) for x in r2[2]]}
            except Exception:  # noqa
                impl2 = repr(r2)[:200]
            ctx.spec(clause, dict(inp_, call="second call, after the first result was modified by the caller"), impl2 == impl,
                     {"first": impl, "second": impl2}, key=key + ":second-call")


def run(ctx):
    from tme.backends import backend as be
    from tme import memory as tmem
    from tme.matching_utils import _center_slice, centered, apply_convolution_mode
    from pyfftw import next_fast_len
    d = ctx.driver
    rng = ctx.rng("main")

    # ---- next_fast_len contract
    N = ctx.budget(2048, 10001)      # (pyFFTW's table of least fast lengths ends at 10000)
    model = d.call("c13.nextFastLenRange", n=N)
    impl = [int(next_fast_len(n)) for n in range(N)]
    ctx.agree("nextFastLen", {"range": N}, impl, model)
    for n in range(N):
        ctx.spec("fast>=n", {"n": n}, impl[n] >= n)
    ctx.distinct(("nextFastLen", N))

    # ---- convolution shapes: exhaustive small extents
    B = ctx.budget(7, 12)
    reqs, cases = [], []
    for nd in (1, 2, 3):
        if nd == 3:
            ext = list(range(1, min(B, 6) + 1))
        else:
            ext = list(range(1, B + 1))
        pairs = list(itertools.product(ext, repeat=2))
        if nd == 1:
            combos = [((a,), (b,)) for a, b in pairs]
        else:
            # all per-axis pairs appear on every axis; full product would be large, so sample rows exhaustively per axis
            combos = []
            for a, b in pairs:
                for ax in range(nd):
                    s1 = [int(rng.integers(1, B + 1)) for _ in range(nd)]
                    s2 = [int(rng.integers(1, B + 1)) for _ in range(nd)]
                    s1[ax], s2[ax] = a, b
                    combos.append((tuple(s1), tuple(s2)))
        for s1, s2 in combos:
            cases.append((s1, s2))
            reqs.append(("c13.convShapes", {"s1": list(s1), "s2": list(s2)}))
    models = d.batch(reqs)
    for (s1, s2), m in zip(cases, models):
        inp = {"s1": s1, "s2": s2}
        _conv_shapes_case(ctx, be, tmem, inp, s1, s2, s1, s2, m)
        if max(s1) > 1 or max(s2) > 1:
            ctx.distinct(("conv", s1, s2))
        ctx.count(f"conv:ndim={len(s1)}")
    ctx.sample({"helper": "compute_convolution_shapes", "s1": cases[-1][0], "s2": cases[-1][1], "model": models[-1]})

    # ---- FFT round trip through build_fft for odd/even extents
    shapes = [(5,), (6,), (15,), (16,), (25, 27), (6, 7), (7, 6), (8, 8), (5, 6, 7), (6, 6, 6), (7, 7, 9), (15, 4, 9)]
    if ctx.thorough:
        shapes += [tuple(int(x) for x in rng.integers(2, 20, size=nd)) for nd in (1, 2, 3) for _ in range(15)]
    for s1 in shapes:
        for dt, cdt, tol in ((np.float32, np.complex64, 1e-4), (np.float64, np.complex128, 1e-10)):
            s2 = tuple(int(x) for x in rng.integers(1, 6, size=len(s1)))

            def _rt():
                conv, fast, ft = be.compute_convolution_shapes(s1, s2)
                rfftn, irfftn = be.build_fft(fast_shape=tuple(fast), fast_ft_shape=tuple(ft), real_dtype=dt, complex_dtype=cdt)
                x = rng.integers(-4, 5, size=fast).astype(dt)
                xin = be.zeros(tuple(fast), dt)
                xin[:] = x
                spec_ = be.zeros(tuple(ft), cdt)
                out = be.zeros(tuple(fast), dt)
                rfftn(xin, spec_)
                irfftn(spec_, out)
                return fast, ft, float(np.max(np.abs(out - x)))
            okc, r = _call(ctx, "rfftn∘irfftn = id", {"s1": s1, "s2": s2, "dtype": dt.__name__}, "fft-roundtrip", _rt)
            if not okc:
                continue
            fast, ft, err = r
            ctx.spec("rfftn∘irfftn = id", {"fast": fast, "ft": ft, "dtype": dt.__name__}, err <= tol, {"err": err}, key="fft-roundtrip")
            ctx.count("fft:last-" + ("odd" if fast[-1] % 2 else "even"))
            ctx.distinct(("fft", tuple(fast), dt.__name__))

    # ---- plans requested one after the other in one process: shapes that share the half-spectrum shape (last axis 2k and
    # 2k+1 both have k+1 complex bins) must each get a transform pair of their own
    pairs = [((14,), (15,)), ((4, 14), (4, 15)), ((3, 5, 8), (3, 5, 9)), ((6, 20), (6, 21))]
    if ctx.thorough:
        pairs += [((int(a), 2 * int(k)), (int(a), 2 * int(k) + 1)) for a, k in zip(rng.integers(2, 9, size=10), rng.integers(2, 12, size=10))]
    for pa in pairs:
        for order_ in (pa, pa[::-1]):
            for dt, cdt, tol in ((np.float32, np.complex64, 1e-4), (np.float64, np.complex128, 1e-10)):
                plans = []
                errs = []
                try:
                    for fast in order_:
                        ft = tuple(fast[:-1]) + (fast[-1] // 2 + 1,)
                        plans.append((fast, ft, be.build_fft(fast_shape=tuple(fast), fast_ft_shape=ft, real_dtype=dt, complex_dtype=cdt)))
                    for fast, ft, (rf, irf) in plans:
                        x = rng.integers(-4, 5, size=fast).astype(dt)
                        xin = be.zeros(tuple(fast), dt)
                        xin[:] = x
                        spec_ = be.zeros(ft, cdt)
                        out = be.zeros(tuple(fast), dt)
                        rf(xin, spec_)
                        ref = np.fft.rfftn(x.astype(np.float64))
                        e_spec = float(np.max(np.abs(np.asarray(spec_) - ref))) / max(1.0, float(np.abs(ref).max()))
                        irf(spec_, out)          # (the complex-to-real transform may overwrite its input)
                        errs.append(max(float(np.max(np.abs(out - x))), e_spec))
                    okp = max(errs) <= tol * 10
                    det = {"err": max(errs)}
                except Exception as e:  # noqa
                    okp, det = False, type(e).__name__ + ":" + str(e)[:80]
                ctx.spec("rfftn∘irfftn = id", {"sequence": [list(f) for f in order_], "dtype": dt.__name__}, okp, det, key="fft-roundtrip")
                ctx.count("fft:plan-sequence")
                ctx.distinct(("fftseq", order_, dt.__name__))

    # ---- topleft_pad
    n_pad = ctx.budget(150, 1500)
    reqs, keep = [], []
    for i in range(n_pad):
        nd = int(rng.integers(1, 4))
        sh = [int(x) for x in rng.integers(1, 6, size=nd)]
        ns = [int(x) for x in rng.integers(1, 7, size=nd)]
        pad = int(rng.choice([0, 1, -1, 7]))
        dt = rng.choice([np.float32, np.float64, np.int32, np.complex64])
        a = rng.integers(-9, 10, size=sh)
        okc, out = _call(ctx, "corner pad", {"shape": sh, "newshape": ns, "pad": pad, "data": a.reshape(-1).tolist(), "dtype": np.dtype(dt).name},
                         "topleft_pad", lambda: np.asarray(be.topleft_pad(a.astype(dt), tuple(ns), pad)))
        if not okc:
            continue
        keep.append((sh, ns, pad, a, out, dt))
        reqs.append(("c13.topleftPad", {"shape": sh, "data": a.reshape(-1).tolist(), "newshape": ns, "pad": pad}))
    models = d.batch(reqs)
    for (sh, ns, pad, a, out, dt), m in zip(keep, models):
        inp = {"shape": sh, "newshape": ns, "pad": pad, "data": a.reshape(-1).tolist(), "dtype": np.dtype(dt).name}
        impl = np.real(out).astype(int).reshape(-1).tolist() if out.dtype.kind in "fiuc" else repr(out.dtype)
        ctx.agree("topleft_pad", inp, impl, m)
        # spec: leading corner = data (cropped), rest = pad, shape as requested
        ok = list(out.shape) == ns
        if ok:
            corner = tuple(slice(0, min(x, y)) for x, y in zip(sh, ns))
            mask = np.ones(ns, bool)
            mask[corner] = False
            ok = np.array_equal(np.real(out[corner]), a[corner]) and bool(np.all(np.real(out[mask]) == pad)) and out.dtype == np.dtype(dt)
        ctx.spec("corner pad", inp, ok, key="topleft_pad")
        ctx.distinct(("pad", tuple(sh), tuple(ns), pad))
        ctx.count("pad:" + ("grow" if all(y >= x for x, y in zip(sh, ns)) else "crop" if all(y <= x for x, y in zip(sh, ns)) else "mixed"))
    ctx.sample({"helper": "topleft_pad", **{k: v for k, v in inp.items() if k != "data"}, "model": models[-1]})

    # ---- centre extraction: every (cur, new)
    C = ctx.budget(16, 40)
    reqs, keep = [], []
    for cur in range(1, C + 1):
        for new in range(0, C + 3):
            reqs.append(("c13.centerSlice", {"cur": cur, "new": new}))
            reqs.append(("c13.centered", {"cur": cur, "new": new}))
            reqs.append(("c13.extractCenter", {"cur": cur, "new": new}))
            keep.append((cur, new))
    models = d.batch(reqs)
    for i, (cur, new) in enumerate(keep):
        arr = np.arange(cur)
        okc, r = _call(ctx, "centre extraction: extent and symmetry", {"cur": cur, "new": new}, "centered",
                       lambda: (_center_slice((cur,), (new,))[0], np.asarray(centered(arr, (new,))), np.asarray(be.extract_center(arr, (new,)))))
        if not okc:
            continue
        box, got, got2 = r
        ctx.agree("_center_slice", {"cur": cur, "new": new}, [int(box.start), int(box.stop)], models[3 * i])
        m = models[3 * i + 1]
        ctx.agree("centered", {"cur": cur, "new": new}, got.tolist(), list(range(m[0], m[1])))
        m2 = models[3 * i + 2]
        ctx.agree("extract_center", {"cur": cur, "new": new}, np.array(got2).tolist(), list(range(m2[0], m2[1])))
        if new <= cur:
            for name, g in (("centered", got), ("extract_center", np.array(got2))):
                ok = len(g) == new
                if ok and new > 0:
                    left, right = int(g[0]), cur - 1 - int(g[-1])
                    ok = left <= right <= left + 1 and np.array_equal(g, np.arange(g[0], g[0] + new))
                ctx.spec("centre extraction: extent and symmetry", {"helper": name, "cur": cur, "new": new}, ok,
                         g.tolist(), key=name)
            ctx.distinct(("center", cur % 2, new % 2, cur, new))
        ctx.count("center:" + ("shrink" if new <= cur else "grow"))

    # ---- centered_mask directly, 1-3 D, including axes whose extent is not reduced at all
    from tme.matching_utils import centered_mask
    for _ in range(ctx.budget(60, 400)):
        nd = int(rng.integers(1, 4))
        cur = [int(x) for x in rng.integers(1, 9, size=nd)]
        new = [int(c if rng.random() < 0.4 else rng.integers(1, c + 1)) for c in cur]
        vals = rng.integers(1, 9, size=cur).astype(np.float32)
        box = tuple(slice((c - n) // 2, (c - n) // 2 + n) for c, n in zip(cur, new))
        want = np.zeros_like(vals)
        want[box] = vals[box]
        try:
            got = np.asarray(centered_mask(vals.copy(), tuple(new)))
            okm = got.shape == vals.shape and np.array_equal(got, want)
        except Exception as e:  # noqa
            okm, got = False, type(e).__name__
        ctx.spec("masked centre extraction keeps the box and zeroes the rest", {"cur": cur, "new": new}, okm,
                 None if okm else {"kept": int(np.count_nonzero(got)) if not isinstance(got, str) else got, "expected": int(np.count_nonzero(want))},
                 key="centered_mask")
        ctx.distinct(("cmask", tuple(cur), tuple(new)))
    # ---- convolution-mode crops, 1-3 D, contents checked through an index array
    M = ctx.budget(9, 14)
    reqs, keep = [], []
    for s1 in range(1, M + 1):
        for s2 in range(1, M + 1):
            for mode in ("full", "same", "valid"):
                reqs.append(("c13.convCrop", {"mode": mode, "conv": s1 + s2 - 1, "s1": s1, "s2": s2}))
                keep.append((s1, s2, mode))
    models = d.batch(reqs)
    table = {k: m for k, m in zip(keep, models)}
    for (s1, s2, mode), m in table.items():
        fast = int(next_fast_len(s1 + s2 - 1))
        arr = np.arange(fast)
        inp = {"s1": s1, "s2": s2, "mode": mode}
        try:
            got = apply_convolution_mode(arr, mode, (s1,), (s2,))
            impl = [int(got[0]), len(got)] if len(got) else [None, 0]
        except Exception as e:
            impl = "raised:" + type(e).__name__
        if m == "err:NegativeExtent":
            ctx.count("crop:negative-extent")
            continue  # s1 < s2 in valid mode: undocumented, implementation-defined (python slicing); not compared
        mm = m if m[1] else [None, 0]
        ctx.agree("apply_convolution_mode", inp, impl, mm)
        if isinstance(impl, str):
            ctx.spec("full/same/valid extents, central", inp, False, impl, key="apply_convolution_mode")
        if (s2 <= s1 or mode != "valid") and isinstance(impl, list):
            want = {"full": s1 + s2 - 1, "same": s1, "valid": s1 - s2 + s2 % 2}[mode]
            ok = impl[1] == want
            if ok and want:
                left, right = impl[0], (s1 + s2 - 1) - (impl[0] + want)
                ok = left <= right <= left + 1
            ctx.spec("full/same/valid extents, central", inp, ok, impl, key="apply_convolution_mode")
            ctx.distinct(("crop", s1, s2, mode))
        ctx.count("crop:" + mode)
    # n-D product structure
    for _ in range(ctx.budget(60, 600)):
        nd = int(rng.integers(2, 4))
        s1 = [int(x) for x in rng.integers(1, M + 1, size=nd)]
        s2 = [int(min(a, b)) for a, b in zip(s1, rng.integers(1, M + 1, size=nd))]
        mode = str(rng.choice(["full", "same", "valid"]))
        fast = [int(next_fast_len(a + b - 1)) for a, b in zip(s1, s2)]
        idx = np.indices(fast)
        okc, got = _call(ctx, "full/same/valid extents, central", {"s1": s1, "s2": s2, "mode": mode}, "apply_convolution_mode",
                         lambda: [np.asarray(apply_convolution_mode(idx[ax], mode, s1, s2)) for ax in range(nd)])
        if not okc:
            continue
        impl = [[int(g.min()), int(g.max()) - int(g.min()) + 1] if g.size else [None, 0] for g in got]
        # the property's clause on the n-D result: extents as documented, every axis central in the convolution shape
        wantext = [{"full": a + b - 1, "same": a, "valid": a - b + b % 2}[mode] for a, b in zip(s1, s2)]
        okn = all(g.shape == tuple(wantext) for g in got)
        if okn and all(wantext):
            for ax in range(nd):
                lo = impl[ax][0]
                right = (s1[ax] + s2[ax] - 1) - (lo + wantext[ax])
                okn = okn and lo <= right <= lo + 1 and np.array_equal(
                    got[ax], np.broadcast_to(np.arange(lo, lo + wantext[ax]).reshape([-1 if k == ax else 1 for k in range(nd)]), wantext))
        ctx.spec("full/same/valid extents, central", {"s1": s1, "s2": s2, "mode": mode}, okn, impl, key="apply_convolution_mode")
        model = [table[(a, b, mode)] if table[(a, b, mode)][1] else [None, 0] for a, b in zip(s1, s2)]
        if any(m[1] == 0 for m in model):
            model = [[None, 0]] * nd
            impl = [[None, 0]] * nd if got[0].size == 0 else impl
        ctx.agree("apply_convolution_mode(nD)", {"s1": s1, "s2": s2, "mode": mode}, impl, model)
        ctx.distinct(("cropnd", tuple(s1), tuple(s2), mode))
        # the masking form keeps the array's shape, zeroes everything outside the same centre box and keeps the values inside
        if all(isinstance(x[0], int) for x in impl):
            vals = rng.integers(1, 9, size=fast).astype(np.float64)
            try:
                masked = np.asarray(apply_convolution_mode(vals.copy(), mode, s1, s2, mask_output=True))
                # (the FFT padding beyond the convolution shape is cut off first, then the centre box is kept inside it)
                conv = tuple(slice(0, a + b - 1) for a, b in zip(s1, s2))
                want = np.zeros_like(vals[conv])
                box = tuple(slice(a, a + e) for a, e in impl)
                want[box] = vals[conv][box]
                okm = masked.shape == want.shape and np.array_equal(masked, want)
            except Exception as e:  # noqa
                okm, masked = False, type(e).__name__
            ctx.spec("masked centre extraction keeps the box and zeroes the rest", {"s1": s1, "s2": s2, "mode": mode, "shape": fast}, okm,
                     None if okm else {"kept": int(np.count_nonzero(masked)) if not isinstance(masked, str) else masked,
                                       "expected": int(np.count_nonzero(want)) if not isinstance(masked, str) else None},
                     key="centered_mask")
            ctx.count("masked-crop:" + ("some-axis-without-margin" if any(e == a + b - 1 for (_, e), a, b in zip(impl, s1, s2)) else "all-axes-cropped"))
    ctx.sample({"helper": "apply_convolution_mode", "s1": s1, "s2": s2, "mode": mode, "impl(start,extent)": impl})

    # ---- shared memory read back in another process
    from multiprocessing.managers import SharedMemoryManager
    nshm = ctx.budget(3, 12)
    mpctx = mp.get_context("spawn")
    def layouts(a):
        """the same values in every memory layout numpy hands out (the property speaks of arrays, not of C-ordered arrays)"""
        yield "C", np.ascontiguousarray(a)
        yield "F", np.asfortranarray(a)
        yield "transposed-view", np.ascontiguousarray(a.T).T
        if a.ndim >= 2:
            yield "swapaxes-view", np.ascontiguousarray(np.swapaxes(a, 0, -1)).swapaxes(0, -1)
            yield "moveaxis-view", np.ascontiguousarray(np.moveaxis(a, 0, -1)).copy().transpose(
                [a.ndim - 1] + list(range(a.ndim - 1)))
        big = np.zeros(tuple(2 * x + 1 for x in a.shape), dtype=a.dtype)
        sl = tuple(slice(1, 1 + 2 * x, 2) for x in a.shape)
        big[sl] = a
        yield "strided-offset-view", big[sl]
        yield "reversed-view", np.ascontiguousarray(a[::-1])[::-1]

    with SharedMemoryManager() as smh:
        for i in range(nshm):
            sh = tuple(int(x) for x in rng.integers(1, 6, size=int(rng.integers(1, 4))))
            if i % 3 == 1:
                sh = tuple(int(x) for x in rng.integers(2, 6, size=int(rng.integers(2, 4))))
            dt = [np.float32, np.float64, np.int32][i % 3]
            a0 = rng.integers(-100, 100, size=sh).astype(dt)
            lay = list(layouts(a0))
            for li, (lname, a) in enumerate(lay):
                assert a.shape == a0.shape and np.array_equal(a, a0), lname
                inp_ = {"shape": sh, "dtype": np.dtype(dt).name, "layout": lname, "values": a0.tolist()}
                okc, args = _call(ctx, "shared memory reads back identical in another process", inp_, "sharedarr",
                                  lambda: be.to_sharedarr(a, smh))
                if not okc:
                    continue
                okc, here = _call(ctx, "shared memory reads back identical in another process", inp_, "sharedarr",
                                  lambda: np.array(be.from_sharedarr(args)))
                if not okc:
                    continue
                same_here = here.shape == a0.shape and here.dtype == a0.dtype and np.array_equal(here, a0)
                back = a0.tolist()
                if li == i % len(lay) or (li == 1 and i % 2 == 0):          # a child process for some of them (spawn is slow)
                    q = mpctx.Queue()
                    p = mpctx.Process(target=_child_read, args=(args, q))
                    p.start()
                    back = q.get(timeout=120)
                    p.join()
                ctx.spec("shared memory reads back identical in another process",
                         {"shape": sh, "dtype": np.dtype(dt).name, "layout": lname, "values": a0.tolist()},
                         same_here and back == a0.tolist(), key="sharedarr")
                ctx.distinct(("shm", sh, np.dtype(dt).name, lname))
                ctx.count("shm-layout:" + lname)

    # ---- widened generators (one function per clause of the property)
    # the helpers are methods of a backend object whose precision is chosen by constructor arguments: the default one and
    # instances of the same class built for double precision / 64-bit indices are all exercised
    from tme.backends.npfftw_backend import NumpyFFTWBackend
    bes = [("default", be)]
    for name, kw in (("float64/complex128/int64", dict(float_dtype=np.float64, complex_dtype=np.complex128, int_dtype=np.int64, overflow_safe_dtype=np.float64)),
                     ("float32/complex64/int64", dict(float_dtype=np.float32, complex_dtype=np.complex64, int_dtype=np.int64))):
        okc, b = _call(ctx, "backend object for another precision", {"arguments": {k: np.dtype(v).name for k, v in kw.items()}}, "backend-constructor",
                       lambda: NumpyFFTWBackend(**kw))
        if okc:
            bes.append((name, b))
    _conv_wide(ctx, bes, tmem, d)
    _fft_wide(ctx, bes)
    _pad_wide(ctx, bes, d)
    _center_wide(ctx, bes, d)
    _crop_wide(ctx, be, d)
    _shm_wide(ctx, bes)
    _deep(ctx, bes, d)


# =====================================================================================================================
def _conv_wide(ctx, bes, tmem, d):
    """shape planner: extents up to several thousand (beyond every table / threshold a planner might keep), primes and lengths
    next to fast lengths, template larger than target, shapes handed over in every container the callers use"""
    from pyfftw import next_fast_len
    rng = ctx.rng("conv-wide")
    specials = [1, 2, 3, 4, 5, 9, 13, 17, 29, 33, 64, 65, 97, 101, 127, 128, 129, 211, 257, 512, 1021, 1025, 2049, 4097]
    n = ctx.budget(480, 6000)
    reqs, keep = [], []
    for i in range(n):
        nd = 1 + i % 3
        kind = ("small", "medium", "large", "special", "next-to-fast")[(i // 3) % 5]
        if kind == "special":
            s1 = [int(x) for x in rng.choice(specials, size=nd)]
            s2 = [int(x) for x in rng.choice(specials, size=nd)]
        elif kind == "next-to-fast":
            # convolution extents that are a fast length, one more and one less than a fast length
            s1, s2 = [], []
            for _ in range(nd):
                f = int(next_fast_len(int(rng.integers(2, 3000))))
                c = max(1, f + int(rng.integers(-1, 2)))
                a = int(rng.integers(1, c + 1))
                s1.append(a)
                s2.append(c + 1 - a)
        else:
            hi = {"small": 13, "medium": 200, "large": 4000}[kind]
            s1 = [int(x) for x in rng.integers(1, hi + 1, size=nd)]
            s2 = [int(x) for x in rng.integers(1, hi + 1, size=nd)]
        cont = _CONTAINERS[int(rng.integers(len(_CONTAINERS)))]
        keep.append((s1, s2, cont, kind))
        reqs.append(("c13.convShapes", {"s1": s1, "s2": s2}))
    models = d.batch(reqs)
    for j, ((s1, s2, cont, kind), m) in enumerate(zip(keep, models)):
        a1, a2 = _container(cont, s1), _container(cont, s2)
        bname, be = bes[j % len(bes)]
        inp = {"s1": s1, "s2": s2, "given-as": cont, "backend": bname, "by-keyword": bool(j % 2)}
        _conv_shapes_case(ctx, be, tmem, inp, s1, s2, a1, a2, m)
        # the shapes handed in are the caller's: they are not modified
        ctx.spec("planned>=linear-conv & half-spectrum shape", dict(inp, what="arguments unchanged"),
                 [int(x) for x in a1] == s1 and [int(x) for x in a2] == s2, key="convshapes:arguments-modified")
        ctx.count("conv-wide:" + kind)
        ctx.count("conv-wide:given-as-" + cont)
        ctx.distinct(("convw", tuple(s1), tuple(s2)))


# =====================================================================================================================
def _fft_case(ctx, be, rng, fast, dt, cdt, variant):
    """one transform pair; returns nothing, records clauses.  variant = (buffers, inverse, fftargs)"""
    buffers, inverse, fftargs_kind = variant
    fast = tuple(int(x) for x in fast)
    ft = fast[:-1] + (fast[-1] // 2 + 1,)
    n = int(np.prod(fast))
    eps = float(np.finfo(dt).eps)
    inp = {"fast": list(fast), "ft": list(ft), "dtype": np.dtype(dt).name, "plan-buffers": buffers, "inverse-shape": inverse,
           "fftargs": fftargs_kind}
    kw = {}
    if buffers == "callers":
        kw["temp_real"] = be.zeros(fast, dt)
        kw["temp_fft"] = be.zeros(ft, cdt)
    if inverse == "explicit":
        kw["inverse_fast_shape"] = fast
    if fftargs_kind == "empty-dict":
        kw["fftargs"] = {}
    elif fftargs_kind == "estimate":
        kw["fftargs"] = {"planner_effort": "FFTW_ESTIMATE"}
    as_list = bool(rng.integers(2))
    inp["shapes-given-as"] = "list" if as_list else "tuple"
    if as_list and "inverse_fast_shape" in kw:
        kw["inverse_fast_shape"] = list(fast)
    okc, plans = _call(ctx, "rfftn∘irfftn = id", inp, "fft-roundtrip",
                       lambda: be.build_fft(fast_shape=list(fast) if as_list else fast, fast_ft_shape=list(ft) if as_list else ft,
                                            real_dtype=dt, complex_dtype=cdt, **kw))
    if not okc:
        return
    try:
        rf, irf = plans
    except Exception:  # noqa
        ctx.spec("rfftn∘irfftn = id", inp, False, {"result": repr(plans)[:120]}, key="fft-roundtrip")
        return
    # several inputs through the same pair of plans: first in the buffers the plan was built on (when they are the caller's),
    # then in fresh buffers; scales and offsets vary; output buffers hold garbage before the call
    for rep_ in range(3):
        scale = float(rng.choice([1e-9, 1e-3, 1.0, 1e3]))
        offset = float(rng.choice([0.0, 10.0, 1000.0])) * scale
        x = (offset + scale * rng.standard_normal(size=fast)).astype(dt)
        if rep_ == 0 and buffers == "callers":
            xin, spec_ = kw["temp_real"], kw["temp_fft"]
        else:
            xin, spec_ = be.zeros(fast, dt), be.zeros(ft, cdt)
        out = be.zeros(fast, dt)
        xin[...] = x
        spec_[...] = 7.0 + 3.0j
        out[...] = 5.0
        inp_ = dict(inp, scale=scale, offset=offset, use=rep_)
        x64 = x.astype(np.float64)
        l2 = float(np.sqrt(np.sum(x64 * x64)))
        ref = np.fft.rfftn(x64, s=fast, axes=tuple(range(len(fast))))
        tol_f = 8.0 * eps * (1.0 + np.log2(n)) * np.sqrt(n) * l2
        tol_r = 16.0 * eps * (1.0 + np.log2(n)) * l2

        def _go():
            r1 = rf(xin, spec_)
            sp = np.array(spec_, copy=True)      # (the complex-to-real transform may overwrite its input)
            same1 = r1 is spec_ or (np.shares_memory(r1, spec_) and r1.shape == spec_.shape)
            r2 = irf(spec_, out)
            same2 = r2 is out or (np.shares_memory(r2, out) and r2.shape == out.shape)
            return sp, same1, np.array(out, copy=True), same2
        okc, r = _call(ctx, "rfftn∘irfftn = id", inp_, "fft-roundtrip", _go)
        if not okc:
            return
        sp, same1, back, same2 = r
        e_f = float(np.max(np.abs(sp - ref))) if sp.shape == ref.shape else float("inf")
        e_r = float(np.max(np.abs(back.astype(np.float64) - x64))) if back.shape == x64.shape else float("inf")
        ctx.spec("forward real transform = DFT of the input (half spectrum)", inp_, e_f <= tol_f and same1,
                 {"err": e_f, "allowed": tol_f, "result-in-given-buffer": bool(same1)}, key="fft-forward")
        ctx.spec("rfftn∘irfftn = id", inp_, e_r <= tol_r and same2,
                 {"err": e_r, "allowed": tol_r, "result-in-given-buffer": bool(same2)}, key="fft-roundtrip")
    ctx.count("fftw:" + "/".join(variant))
    ctx.count("fftw:last-" + ("1" if fast[-1] == 1 else "odd" if fast[-1] % 2 else "even"))
    ctx.distinct(("fftw", fast, np.dtype(dt).name, variant))


def _fft_wide(ctx, bes):
    """transform pairs for extent-1 axes, primes and other non-fast lengths (the template filter is planned on the template's own
    shape), non-cubic shapes; plans built on the caller's buffers / with an explicit inverse shape / with planner arguments"""
    rng = ctx.rng("fft-wide")
    shapes = [(1,), (2,), (3,), (17,), (31,), (1, 9), (9, 1), (1, 1, 5), (13, 11), (23, 4), (3, 19), (2, 2, 2), (4, 1, 7),
              (11, 13, 3), (6, 10, 15), (5, 5, 1), (37,), (12, 18)]
    if ctx.thorough:
        shapes += [tuple(int(x) for x in rng.integers(1, 26, size=nd)) for nd in (1, 2, 3) for _ in range(40)]
    variants = list(itertools.product(("fresh", "callers"), ("default", "explicit"), ("default", "empty-dict", "estimate")))
    k = int(rng.integers(len(variants)))
    for fast in shapes:
        for dt, cdt in ((np.float32, np.complex64), (np.float64, np.complex128)):
            _fft_case(ctx, bes[k % len(bes)][1], rng, fast, dt, cdt, variants[k % len(variants)])
            k += 1
    be = bes[0][1]
    # the argument left out after having been given: planner arguments of one call must not stick to the next one
    for fast in ((9,), (4, 7)):
        _fft_case(ctx, be, rng, fast, np.float32, np.complex64, ("callers", "explicit", "estimate"))
        _fft_case(ctx, be, rng, fast, np.float32, np.complex64, ("fresh", "default", "default"))


# =====================================================================================================================
def _pad_wide(ctx, bes, d):
    """corner padding for every dtype the library pads (real, integer, complex with an imaginary part), scaled / offset values,
    fractional pad values, the pad value left out / given by keyword, inputs in every memory layout, axes that stay as they are,
    and the padded array handed straight to a planned transform (as the scoring set-ups do)"""
    rng = ctx.rng("pad-wide")
    n = ctx.budget(300, 4000)
    dts = [np.float32, np.float64, np.int32, np.int64, np.complex64, np.complex128]
    reqs, keep = [], []
    last_pad = {}
    for i in range(n):
        nd = 1 + i % 3
        hi = (14, 9, 6)[nd - 1]
        bname, be = bes[i % len(bes)] if i % 2 else bes[0]
        sh = [int(x) for x in rng.integers(1, hi + 1, size=nd)]
        ns = [int(x) for x in rng.integers(1, hi + 3, size=nd)]
        if i % 29 == 3:
            # more than 10 000 elements (beyond any size at which an implementation might switch its method)
            sh = [[12000], [110, 100], [24, 22, 21]][nd - 1]
            ns = [x + int(rng.integers(-2, 4)) for x in sh]
        for ax in range(nd):
            r = rng.random()
            if r < 0.25:
                ns[ax] = sh[ax]                      # this axis stays as it is
            elif r < 0.35:
                ns[ax] = sh[ax] + 1
        dt = np.dtype(dts[int(rng.integers(len(dts)))])
        vkind = "int" if rng.random() < 0.5 else "real"
        a0 = _values(rng, sh, dt, vkind)
        pads = [0, 1, -1, 7] + ([0.5, -2.25, 1e-9, 1e3] if dt.kind in "fc" else [])
        pad = pads[int(rng.integers(len(pads)))]
        how = ("positional", "keyword", "left-out")[int(rng.integers(3))]
        if how == "left-out":
            pad_eff = 0
        else:
            pad_eff = pad
        lays = list(_layouts(a0, scratch_name="c13_pad_%d.dat" % i if i % 7 == 0 else None))
        lname, a = lays[int(rng.integers(len(lays)))]
        assert a.shape == a0.shape and np.array_equal(a, a0)
        inp = {"shape": sh, "newshape": ns, "pad": pad, "pad-given": how, "dtype": dt.name, "layout": lname, "backend": bname,
               "data": a0.reshape(-1).tolist() if a0.size <= 64 else "seeded (%d values)" % a0.size,
               "pad-given-in-the-call-before": last_pad.get(bname)}
        before = np.array(a, copy=True)
        nsg = tuple(ns) if i % 2 else list(ns)      # (the callers hand over the list that compute_convolution_shapes returned)
        inp["newshape-given-as"] = type(nsg).__name__
        if how == "positional":
            fn = lambda: be.topleft_pad(a, nsg, pad)                # noqa
        elif how == "keyword":
            fn = lambda: be.topleft_pad(arr=a, shape=nsg, padval=pad)   # noqa
        else:
            fn = lambda: be.topleft_pad(a, nsg)                     # noqa
        okc, out = _call(ctx, "corner pad", inp, "topleft_pad", fn)
        last_pad[bname] = pad_eff
        if not okc:
            continue
        out = np.asarray(out)
        ok = list(out.shape) == ns and out.dtype == dt
        det = {"shape": list(out.shape), "dtype": str(out.dtype)}
        if ok:
            corner = tuple(slice(0, min(x, y)) for x, y in zip(sh, ns))
            mask = np.ones(ns, bool)
            mask[corner] = False
            padv = np.asarray(pad_eff).astype(dt)
            ok_c = out[corner].tobytes() == np.ascontiguousarray(a0[corner]).tobytes() or np.array_equal(out[corner], a0[corner])
            ok_p = bool(np.all(out[mask] == padv))
            ok_i = np.array_equal(np.asarray(a), before) and np.asarray(a).tobytes() == before.tobytes()
            ok = ok_c and ok_p and ok_i
            det = {"corner-is-data": bool(ok_c), "rest-is-pad": ok_p, "input-unchanged": bool(ok_i)}
        ctx.spec("corner pad", inp, ok, det, key="topleft_pad", size=int(a0.size) * 1000 + int(np.prod(ns)))
        if ok and i % 3 == 0:
            # a result stays what it was when the helper is used again for the same target shape and dtype with other data
            snapshot = out.copy()
            other = _values(rng, sh, dt, vkind)
            okc, out2 = _call(ctx, "corner pad", dict(inp, call="again, same shapes, other data and pad value"), "topleft_pad",
                              lambda: be.topleft_pad(other, tuple(ns), 3))
            if okc:
                ctx.spec("corner pad", dict(inp, what="the result of a call is still intact after the next call with the same shapes"),
                         out.tobytes() == snapshot.tobytes(), key="topleft_pad:result-overwritten-by-next-call",
                         size=int(a0.size) * 1000 + int(np.prod(ns)))
                last_pad[bname] = 3
        ctx.count("padw:" + ("more-than-10000-elements" if a0.size > 10000 else "small"))
        ctx.count("padw:backend-" + bname)
        ctx.count("padw:" + lname)
        ctx.count("padw:" + dt.name)
        ctx.count("padw:pad-" + how)
        ctx.count("padw:" + ("no-axis-changes" if sh == ns else "some-axis-unchanged" if any(x == y for x, y in zip(sh, ns)) else "all-axes-change"))
        ctx.distinct(("padw", tuple(sh), tuple(ns), str(pad), dt.name, lname))
        if vkind == "int" or dt.kind in "i":
            if float(pad_eff) == int(pad_eff) and ok and a0.size <= 4000:
                keep.append((inp, np.real(out).astype(np.int64).reshape(-1).tolist()))
                reqs.append(("c13.topleftPad", {"shape": sh, "data": np.real(a0).astype(np.int64).reshape(-1).tolist(),
                                                "newshape": ns, "pad": int(pad_eff)}))
    for (inp, impl), m in zip(keep, d.batch(reqs)):
        ctx.agree("topleft_pad(wide)", inp, impl, m)

    # padded array -> planned forward transform, exactly as the scoring set-ups do: rfftn(be.topleft_pad(target, fast_shape), buffer)
    from pyfftw import next_fast_len
    be = bes[0][1]
    for i in range(ctx.budget(10, 60)):
        nd = 1 + i % 3
        sh = [int(x) for x in rng.integers(1, (20, 10, 6)[nd - 1], size=nd)]
        s2 = [int(x) for x in rng.integers(1, 6, size=nd)]
        fast = tuple(int(next_fast_len(a + b - 1)) for a, b in zip(sh, s2))
        ft = fast[:-1] + (fast[-1] // 2 + 1,)
        dt, cdt = ((np.float32, np.complex64), (np.float64, np.complex128))[i % 2]
        a0 = _values(rng, sh, dt, "real")
        lays = list(_layouts(a0))
        lname, a = lays[i % len(lays)]
        inp = {"shape": sh, "fast": list(fast), "dtype": np.dtype(dt).name, "layout": lname}

        def _go():
            rf, irf = be.build_fft(fast_shape=fast, fast_ft_shape=ft, real_dtype=dt, complex_dtype=cdt)
            buf = be.zeros(ft, cdt)
            buf[...] = 1.0 - 2.0j
            r = rf(be.topleft_pad(a, fast), buf)
            return np.array(r, copy=True)
        okc, sp = _call(ctx, "corner pad", dict(inp, what="padded array handed to the planned transform"), "topleft_pad:into-fft", _go)
        if not okc:
            continue
        want = np.zeros(fast, np.float64)
        want[tuple(slice(0, x) for x in sh)] = a0.astype(np.float64)
        ref = np.fft.rfftn(want, s=fast, axes=tuple(range(nd)))
        nn = int(np.prod(fast))
        tol = 8.0 * float(np.finfo(dt).eps) * (1.0 + np.log2(nn)) * np.sqrt(nn) * float(np.sqrt(np.sum(want * want)))
        e = float(np.max(np.abs(sp - ref))) if sp.shape == ref.shape else float("inf")
        ctx.spec("corner pad", dict(inp, what="padded array handed to the planned transform"), e <= tol, {"err": e, "allowed": tol},
                 key="topleft_pad:into-fft")
        ctx.distinct(("pad-fft", tuple(sh), fast, np.dtype(dt).name, lname))


# =====================================================================================================================
def _center_wide(ctx, bes, d):
    """centre extraction in 1-3 dimensions with a different extent / parity on every axis, axes that are not reduced, extents far
    beyond the exhaustive range; target shape given in every container; arrays in several layouts and dtypes"""
    from tme.matching_utils import _center_slice, centered
    rng = ctx.rng("center-wide")
    n = ctx.budget(320, 4000)
    reqs, keep = [], []
    for i in range(n):
        nd = 1 + i % 3
        if nd == 1 and i % 2 == 0:
            cur = [int(rng.integers(17, 6000))]
        elif i % 31 == 4:
            cur = [[20011], [130, 101], [30, 23, 21]][nd - 1]          # more than 10 000 elements
        else:
            cur = [int(x) for x in rng.integers(1, (40, 14, 9)[nd - 1] + 1, size=nd)]
        new = []
        for c in cur:
            r = rng.random()
            new.append(c if r < 0.25 else max(1, c - 1) if r < 0.4 else 1 if r < 0.5 else 0 if r < 0.52 else int(rng.integers(1, c + 1)))
        cont = _CONTAINERS[int(rng.integers(len(_CONTAINERS)))]
        dt = np.dtype([np.float32, np.float64, np.int32][i % 3])
        base = np.arange(int(np.prod(cur))).reshape(cur).astype(dt)
        lays = [l for l in _layouts(base) if l[0] in ("C", "F", "strided-offset-view", "read-only")]
        lname, arr = lays[int(rng.integers(len(lays)))]
        keep.append((cur, new, cont, dt, lname, arr, base))
        reqs.append(("c13.centerBox", {"cur": cur, "new": new, "kind": "floor"}))
        reqs.append(("c13.centerBox", {"cur": cur, "new": new, "kind": "trunc"}))
    models = d.batch(reqs)
    for j, (cur, new, cont, dt, lname, arr, base) in enumerate(keep):
        nw = _container(cont, new)
        bname, be = bes[j % len(bes)]
        inp = {"cur": cur, "new": new, "given-as": cont, "dtype": dt.name, "layout": lname, "backend": bname}
        ctx.count("centerw:backend-" + bname)
        ctx.count("centerw:" + ("more-than-10000-elements" if base.size > 10000 else "small"))
        if 0 in new:
            ctx.count("centerw:empty-result")
        okc, box = _call(ctx, "centre extraction: extent and symmetry", dict(inp, helper="_center_slice"), "_center_slice",
                         lambda: _center_slice(tuple(cur), nw))
        if okc:
            try:
                implb = [[int(b.start), int(b.stop)] for b in box]
            except Exception:  # noqa
                implb = repr(box)[:120]
            ctx.agree("_center_slice(nD)", inp, implb, models[2 * j])
        for name, fn, m in (("centered", (lambda: centered(arr=arr, new_shape=nw)) if j % 2 else (lambda: centered(arr, nw)), models[2 * j]),
                            ("extract_center", (lambda: be.extract_center(arr=arr, newshape=nw)) if j % 2 else (lambda: be.extract_center(arr, nw)),
                             models[2 * j + 1])):
            inp_ = dict(inp, helper=name)
            okc, got = _call(ctx, "centre extraction: extent and symmetry", inp_, name, fn)
            if not okc:
                continue
            got = np.asarray(got)
            ok = got.shape == tuple(new) and got.dtype == dt
            det = {"shape": list(got.shape)}
            starts = None
            if ok and got.size:
                starts = [int(x) for x in np.unravel_index(int(round(float(got[(0,) * len(cur)]))), cur)]
                for st, c, k in zip(starts, cur, new):
                    right = c - st - k
                    ok = ok and st <= right <= st + 1
                ok = ok and np.array_equal(got, base[tuple(slice(st, st + k) for st, k in zip(starts, new))])
                det = {"starts": starts}
            ctx.spec("centre extraction: extent and symmetry", inp_, ok, det, key=name)
            if starts is not None:
                ctx.agree(name + "(nD)", inp_, [[st, st + k] for st, k in zip(starts, new)], m)
        ctx.count("centerw:ndim=%d" % len(cur))
        ctx.count("centerw:" + ("no-axis-reduced" if cur == new else "some-axis-not-reduced" if any(a == b for a, b in zip(cur, new)) else "all-reduced"))
        ctx.count("centerw:given-as-" + cont)
        ctx.distinct(("centerw", tuple(cur), tuple(new)))


# =====================================================================================================================
def _crop_wide(ctx, be, d):
    """full / same / valid crops: longer extents, template larger than the target (full, same), the array with and without the
    FFT padding, the convolution shape given explicitly (equal to the default, the whole array, something in between), shapes in
    every container, the masking form in every dtype and layout with negative values, names that are not a mode"""
    from pyfftw import next_fast_len
    from tme.matching_utils import apply_convolution_mode
    rng = ctx.rng("crop-wide")
    n = ctx.budget(360, 4500)
    cases, reqs = [], []
    for i in range(n):
        nd = 1 + i % 3
        mode = ("full", "same", "valid")[(i // 3) % 3]
        if nd == 1 and rng.random() < 0.4:
            s1 = [int(rng.integers(10, 400))]
            s2 = [int(rng.integers(1, 400))]
        else:
            hi = (24, 10, 6)[nd - 1]
            s1 = [int(x) for x in rng.integers(1, hi + 1, size=nd)]
            s2 = [int(x) for x in rng.integers(1, hi + 1, size=nd)]
        if mode == "valid" or rng.random() < 0.5:
            s2 = [min(a, b) for a, b in zip(s1, s2)]
        conv0 = [a + b - 1 for a, b in zip(s1, s2)]
        fast = [int(next_fast_len(c)) for c in conv0]
        akind = ("fft-padded", "exact", "larger")[int(rng.integers(3))]
        ashape = fast if akind == "fft-padded" else conv0 if akind == "exact" else [f + int(rng.integers(1, 4)) for f in fast]
        ckind = ("default", "default", "explicit-default", "whole-array", "between")[int(rng.integers(5))]
        if ckind in ("default", "explicit-default"):
            conv = conv0
        elif ckind == "whole-array":
            conv = list(ashape)
        else:
            conv = [int(rng.integers(a, b + 1)) for a, b in zip(s1, ashape)]      # at least the target extent on every axis
        ext = [{"full": c, "same": a, "valid": a - b + b % 2}[mode] for a, b, c in zip(s1, s2, conv)]
        cont = _CONTAINERS[int(rng.integers(len(_CONTAINERS)))]
        masked = bool(i % 2)
        dt = np.dtype([np.float64, np.float32, np.int32, np.complex64][int(rng.integers(4))])
        cases.append((s1, s2, mode, ashape, akind, ckind, conv, ext, cont, masked, dt))
        for a, b, c in zip(s1, s2, conv):
            reqs.append(("c13.convCrop", {"mode": mode, "conv": c, "s1": a, "s2": b}))
    models = d.batch(reqs)
    pos = 0
    mreqs, mkeep = [], []
    for (s1, s2, mode, ashape, akind, ckind, conv, ext, cont, masked, dt) in cases:
        nd = len(s1)
        model = models[pos:pos + nd]
        pos += nd
        kw = {} if ckind == "default" else {"convolution_shape": _container(cont, conv)}
        a1, a2 = _container(cont, s1), _container(cont, s2)
        inp = {"s1": s1, "s2": s2, "mode": mode, "array-shape": ashape, "convolution_shape": ckind if ckind == "default" else conv,
               "given-as": cont}
        lo = [(c - e) // 2 for c, e in zip(conv, ext)]
        ctx.count("cropw:" + mode)
        ctx.count("cropw:array-" + akind)
        ctx.count("cropw:convolution_shape-" + ckind)
        ctx.distinct(("cropw", tuple(s1), tuple(s2), mode, tuple(conv), tuple(ashape), masked))
        if not masked:
            idx = np.indices(ashape)
            okc, got = _call(ctx, "full/same/valid extents, central", inp, "apply_convolution_mode",
                             lambda: [np.asarray(apply_convolution_mode(idx[ax], mode, a1, a2, **kw)) for ax in range(nd)])
            if not okc:
                continue
            ok = all(g.shape == tuple(ext) for g in got)
            impl = None
            if ok and all(ext):
                impl = [[int(g.min()), int(g.max()) - int(g.min()) + 1] for g in got]
                for ax in range(nd):
                    l_ = impl[ax][0]
                    right = conv[ax] - (l_ + ext[ax])
                    ok = ok and l_ <= right <= l_ + 1 and np.array_equal(
                        got[ax], np.broadcast_to(np.arange(l_, l_ + ext[ax]).reshape([-1 if k == ax else 1 for k in range(nd)]), ext))
                ctx.agree("apply_convolution_mode(wide)", inp, impl, [list(m) for m in model])
            ctx.spec("full/same/valid extents, central", inp, ok, {"shapes": [list(g.shape) for g in got], "start,extent": impl},
                     key="apply_convolution_mode")
        else:
            base = _values(rng, ashape, dt, "int")
            base[base == 0] = 3
            lays = [l for l in _layouts(base) if l[0] in ("C", "F", "strided-offset-view")]
            lname, vals = lays[int(rng.integers(len(lays)))]
            vals = vals if lname == "strided-offset-view" else vals.copy(order="K")
            inp_ = dict(inp, dtype=dt.name, layout=lname, mask_output=True)
            cut = tuple(slice(0, c) for c in conv)
            want = np.zeros_like(base[cut])
            box = tuple(slice(l_, l_ + e) for l_, e in zip(lo, ext))
            want[box] = base[cut][box]
            okc, got = _call(ctx, "masked centre extraction keeps the box and zeroes the rest", inp_, "centered_mask",
                             lambda: apply_convolution_mode(vals, mode, a1, a2, mask_output=True, **kw))
            if not okc:
                continue
            got = np.asarray(got)
            ok = got.shape == want.shape and got.dtype == dt and np.array_equal(got, want)
            ctx.spec("masked centre extraction keeps the box and zeroes the rest", inp_, ok,
                     None if ok else {"shape": list(got.shape), "kept": int(np.count_nonzero(got)), "expected": int(np.count_nonzero(want))},
                     key="centered_mask")
            ctx.count("cropw:masked-" + lname)
            if base.size <= 2000 and got.shape == want.shape:
                mkeep.append((inp_, {"shape": list(got.shape), "data": np.real(got).astype(np.int64).reshape(-1).tolist()}))
                mreqs.append(("c13.convMask", {"mode": mode, "shape": list(ashape), "data": np.real(base).astype(np.int64).reshape(-1).tolist(),
                                               "conv": conv, "s1": s1, "s2": s2}))
    for (inp_, impl), m in zip(mkeep, d.batch(mreqs)):
        ctx.agree("apply_convolution_mode(mask_output)", inp_, impl, m)

    # names that are not one of the three modes are rejected - never silently treated as some mode (or as none: returning None)
    arr = np.arange(12.0)
    for name in ("Same", "FULL", "Valid", "valid ", " full", "sam", "fulll", "", "circular", "wrap"):
        try:
            r = apply_convolution_mode(arr.copy(), name, (8,), (5,))
            okm, det = False, {"returned": repr(r)[:80]}
        except ValueError:
            okm, det = True, None
        except Exception as e:  # noqa
            okm, det = False, {"raised": type(e).__name__}
        ctx.spec("only 'full', 'same', 'valid' are modes", {"mode": name}, okm, det, key="apply_convolution_mode:unknown-mode")


# =====================================================================================================================
_SPECIAL = {"f": [0.0, -0.0, float("inf"), float("-inf"), float("nan"), 1e-40, -1e-40, 1e-9, 1e3, 16777217.0, 0.1]}


def _shm_wide(ctx, bes):
    """shared memory: every dtype the library shares (scores, rotations, spectra, masks), bit patterns that do not survive a
    conversion (nan, -0.0, subnormal, 2^24+1, 0.1), one-element arrays and blocks beyond a page, all layouts incl. read-only and
    memmap, blocks made without a manager; many blocks of equal size alive at once, all read back (here and in ONE other process)
    only after the last one was written"""
    from multiprocessing.managers import SharedMemoryManager
    rng = ctx.rng("shm-wide")
    clause = "shared memory reads back identical in another process"
    dts = [np.float32, np.float64, np.int32, np.int64, np.complex64, np.complex128, np.uint8, np.bool_, np.float16]
    n = ctx.budget(36, 300)
    entries, raw = [], []
    be0 = bes[0][1]
    try:
        with SharedMemoryManager() as smh:
            same_shape = (3, 4)
            for i in range(n):
                dt = np.dtype(dts[i % len(dts)])
                kind = ("small", "same-size", "one-element", "beyond-a-page")[i % 4] if i >= 4 else ("beyond-a-page", "small", "same-size", "one-element")[i]
                if kind == "small":
                    sh = tuple(int(x) for x in rng.integers(1, 7, size=int(rng.integers(1, 4))))
                elif kind == "same-size":
                    sh = same_shape
                    dt = np.dtype([np.float32, np.int32][(i // 4) % 2])
                elif kind == "one-element":
                    sh = (1,) * int(rng.integers(1, 4))
                else:
                    sh = (int(rng.integers(1100, 1400)), 3) if i % 8 else (int(rng.integers(66000, 70000)),)
                if dt.kind == "b":
                    a0 = rng.integers(0, 2, size=sh).astype(dt)
                elif dt.kind == "u":
                    a0 = rng.integers(0, 256, size=sh).astype(dt)
                elif dt.kind == "i":
                    a0 = rng.integers(-2 ** 31, 2 ** 31, size=sh).astype(dt)
                else:
                    a0 = _values(rng, sh, dt, "real")
                    flat = a0.reshape(-1)
                    with np.errstate(all="ignore"):
                        for v in _SPECIAL["f"]:
                            if rng.random() < 0.5:
                                flat[int(rng.integers(flat.size))] = v
                lays = list(_layouts(a0, scratch_name="c13_shm_%d.dat" % i if i % 5 == 0 else None))
                lname, a = lays[-1] if i % 5 == 0 else lays[i % len(lays)]
                handler = None if i % 6 == 5 else smh
                bname, be = bes[(i // 2) % len(bes)]
                inp = {"shape": list(sh), "dtype": dt.name, "layout": lname, "manager": handler is not None, "order-written": i, "backend": bname,
                       "values": a0.reshape(-1).tolist() if a0.size <= 24 and dt.kind != "c" else "seeded (%d values)" % a0.size}
                okc, args = _call(ctx, clause, inp, "sharedarr", lambda: (be.to_sharedarr(arr=a, shared_memory_handler=handler) if i % 2 else be.to_sharedarr(a, handler)) if handler is not None else be.to_sharedarr(a))
                if not okc:
                    continue
                try:
                    if handler is None:
                        raw.append(args[0])
                    meta_ok = tuple(args[1]) == tuple(a0.shape) and np.dtype(args[2]) == dt
                except Exception:  # noqa
                    meta_ok = False
                if not meta_ok:
                    ctx.spec(clause, inp, False, {"returned": repr(args)[:160]}, key="sharedarr")
                    continue
                entries.append((inp, a0, args))
                ctx.count("shmw:" + kind)
                ctx.count("shmw:" + dt.name)
                ctx.count("shmw:layout-" + lname)
                ctx.count("shmw:" + ("manager" if handler is not None else "no-manager"))
                ctx.distinct(("shmw", sh, dt.name, lname, handler is None))
            # all written; now read every block back, here ...
            here = []
            for inp, a0, args in entries:
                okc, r = _call(ctx, clause, inp, "sharedarr", lambda: np.ascontiguousarray(be0.from_sharedarr(args)))
                here.append(r if okc else None)
            # ... and in one other process
            other = [None] * len(entries)
            if entries:
                mpctx = mp.get_context("spawn")
                q = mpctx.Queue()
                p = mpctx.Process(target=_child_read_many, args=([e[2] for e in entries], q))
                p.start()
                try:
                    other = q.get(timeout=300)
                except Exception as e:  # noqa
                    other = [("raised:" + type(e).__name__, None, None)] * len(entries)
                p.join(60)
            for (inp, a0, args), h, o in zip(entries, here, other):
                want = np.ascontiguousarray(a0).tobytes()
                ok_h = h is not None and h.shape == a0.shape and h.dtype == a0.dtype and h.tobytes() == want
                ok_o = o is not None and o[1] == tuple(a0.shape) and o[2] == a0.dtype.str and o[0] == want
                ctx.spec(clause, inp, ok_h and ok_o,
                         {"same-process": bool(ok_h), "other-process": bool(ok_o) if not (o and isinstance(o[0], str)) else o[0]}, key="sharedarr",
                         size=int(a0.size))
    finally:
        for shm in raw:
            try:
                shm.close()
                shm.unlink()
            except Exception:  # noqa
                pass


# =====================================================================================================================
def _extents_around_fast(rng, n, lo=1):
    """extents 1..8 (every parity), extents next to FFTW-fast lengths, a few larger ones"""
    from pyfftw import next_fast_len
    out = []
    for _ in range(n):
        r = rng.random()
        if r < 0.5:
            out.append(int(rng.integers(lo, 9)))
        elif r < 0.85:
            f = int(next_fast_len(int(rng.integers(6, 70))))
            out.append(max(lo, f + int(rng.integers(-1, 2))))
        elif r < 0.95:
            out.append(int(rng.integers(lo, 200)))
        else:
            out.append(int(rng.integers(200, 6000)))      # beyond any table a planner might keep
    return out


def _deep(ctx, bes, d):
    """the remaining pure helpers the searches rely on: MatchingData._fourier_padding (all four results, every branch), roll by
    the Fourier shift + convolution-mode crop (what the analyzers' _postprocess does), topk_indices, indices,
    max_filter_coordinates, center_of_mass, _rigid_transform_matrix, build_fft plumbing, the shared-memory triple"""
    import warnings
    from tme.matching_data import MatchingData
    from tme.matching_utils import apply_convolution_mode
    rng = ctx.rng("deep")
    be = bes[0][1]

    # ---- _fourier_padding: every parity, rank 1-3, extents around fast lengths, template larger than target, batch axes
    n = ctx.budget(500, 6000)
    cases, reqs = [], []
    for a in range(1, 7):              # exhaustive 1-D, both paddings
        for b in range(1, 7):
            for pad in (False, True):
                cases.append(([a], [b], [0], pad, "exhaustive-1d"))
    for i in range(n):
        nd = 1 + i % 3
        kind = ("template-smaller", "any", "template-larger-somewhere", "batch-axis")[(i // 3) % 4]
        tg = _extents_around_fast(rng, nd)
        tp = _extents_around_fast(rng, nd)
        bm = [0] * nd
        if kind == "template-smaller":
            tp = [min(x, y) for x, y in zip(tg, tp)]
        elif kind == "template-larger-somewhere":
            ax = int(rng.integers(nd))
            tp[ax] = tg[ax] + int(rng.integers(1, 6))
        elif kind == "batch-axis":
            bm[int(rng.integers(nd))] = 1
            if rng.random() < 0.5:
                bm[int(rng.integers(nd))] = 1
        cases.append((tg, tp, bm, bool(i % 2), kind))
    for tg, tp, bm, pad, kind in cases:
        reqs.append(("c13.fourierPadding", {"target": tg, "template": tp, "batch": bm, "pad": pad}))
    models = d.batch(reqs)
    clause = "fourier padding: shapes cover the convolution, shift puts the template centre at the reported voxel"
    post_cases = []
    for j, ((tg, tp, bm, pad, kind), m) in enumerate(zip(cases, models)):
        cont = ("int64-array", "int32-array")[j % 2]
        inp = {"target": tg, "template": tp, "batch_mask": bm, "pad_fourier": pad, "given-as": cont}

        def _fp():
            with warnings.catch_warnings():
                warnings.simplefilter("ignore")
                return MatchingData._fourier_padding(target_shape=_container(cont, tg), template_shape=_container(cont, tp),
                                                     batch_mask=None if (not any(bm) and j % 3 == 0) else _container(cont, bm),
                                                     pad_fourier=pad)
        okc, r = _call(ctx, clause, inp, "fourier_padding", _fp)
        if not okc:
            continue
        try:
            impl = {"conv": [int(x) for x in r[0]], "fast": [int(x) for x in r[1]], "ft": [int(x) for x in r[2]],
                    "shift": [int(x) for x in r[3]]}
        except Exception as e:  # noqa
            ctx.spec(clause, inp, False, {"result": repr(r)[:200], "raised": type(e).__name__}, key="fourier_padding")
            continue
        if isinstance(m, dict) and any(c > 10000 for c in impl["conv"]):
            # pyFFTW's next_fast_len is the *least* fast length only for requests up to 10000 (its table); beyond that its search may
            # return a larger fast length (first at 10010).  The model is the least one, so on such axes the planned extent is
            # checked against the contract (fast, at least the request) instead of the model's number; everything else is compared
            def _isfast(v):
                for p_ in (2, 3, 5, 7):
                    while v % p_ == 0:
                        v //= p_
                return v in (1, 11, 13)
            m = dict(m)
            m["fast"] = [f if c > 10000 else mf for f, c, mf in zip(impl["fast"], impl["conv"], m["fast"])]
            m["ft"] = m["fast"][:-1] + [m["fast"][-1] // 2 + 1]
            ctx.spec(clause, dict(inp, what="planned extent beyond pyFFTW's table is a fast length"),
                     all(_isfast(f) and f >= c for f, c in zip(impl["fast"], impl["conv"])), impl, key="fourier_padding")
            ctx.count("fpad:request-beyond-10000")
        ctx.agree("_fourier_padding", inp, impl, m)
        # the clause, on the implementation's output alone: conv = max(n, m) (+ m - 1 with padding) off batch axes, planned >= conv,
        # half spectrum; shift = 0 / 1 - m//2 - m%2 when the template fits
        ok = True
        for ax in range(len(tg)):
            big = max(tg[ax], tp[ax])
            wantc = big if (bm[ax] or not pad) else big + tp[ax] - 1
            ok = ok and impl["conv"][ax] == wantc and impl["fast"][ax] >= wantc
            if tp[ax] <= tg[ax] or bm[ax]:
                ok = ok and impl["shift"][ax] == (0 if pad else 1 - tp[ax] // 2 - tp[ax] % 2)
        ok = ok and impl["ft"] == impl["fast"][:-1] + [impl["fast"][-1] // 2 + 1]
        ctx.spec(clause, inp, ok, impl, key="fourier_padding")
        ctx.count("fpad:" + kind)
        ctx.count("fpad:pad-" + str(pad))
        ctx.count("fpad:ndim=%d" % len(tg))
        ctx.distinct(("fpad", tuple(tg), tuple(tp), tuple(bm), pad))
        if not any(bm) and int(np.prod(impl["fast"])) <= 4000:
            post_cases.append((tg, tp, pad, impl))
    ctx.sample({"helper": "_fourier_padding", "target": tg, "template": tp, "batch_mask": bm, "pad_fourier": pad, "model": m})

    # through a MatchingData object (fourier_padding reads the shapes and the batch mask the object derived)
    for i in range(ctx.budget(12, 80)):
        nd = 1 + i % 3
        tg = [int(x) for x in rng.integers(1, 8, size=nd)]
        tp = [int(x) for x in rng.integers(1, 8, size=nd)]
        pad = bool(i % 2)
        inp = {"target": tg, "template": tp, "pad_fourier": pad, "through": "MatchingData.fourier_padding"}

        def _obj():
            with warnings.catch_warnings():
                warnings.simplefilter("ignore")
                md = MatchingData(np.zeros(tg, np.float32), np.zeros(tp, np.float32))
                return md.fourier_padding(pad_fourier=pad) if i % 4 < 2 else md.fourier_padding(pad)
        okc, r = _call(ctx, clause, inp, "fourier_padding", _obj)
        if not okc:
            continue
        m = d.call("c13.fourierPadding", target=tg, template=tp, batch=[0] * nd, pad=pad)
        impl = {"conv": [int(x) for x in r[0]], "fast": [int(x) for x in r[1]], "ft": [int(x) for x in r[2]], "shift": [int(x) for x in r[3]]}
        ctx.agree("MatchingData.fourier_padding", inp, impl, m)
        ctx.distinct(("fpad-obj", tuple(tg), tuple(tp), pad))

        # target_padding of the same object: template - template % 2 per axis; with it the 'valid' output of the padded target
        # has the target's own extent again
        def _tpad():
            with warnings.catch_warnings():
                warnings.simplefilter("ignore")
                md = MatchingData(np.zeros(tg, np.float32), np.zeros(tp, np.float32))
                return [int(x) for x in (md.target_padding(pad_target=pad) if i % 4 < 2 else md.target_padding(pad))]
        okc, tpd = _call(ctx, "target padding restores the target extent in valid mode", inp, "target_padding", _tpad)
        if okc:
            ctx.agree("MatchingData.target_padding", inp, tpd, d.call("c13.targetPadding", template=tp, batch=[0] * nd, pad=pad))
            if pad:
                ctx.spec("target padding restores the target extent in valid mode", inp,
                         all((n_ + p_) - m_ + m_ % 2 == n_ for n_, m_, p_ in zip(tg, tp, tpd)), tpd, key="target_padding")

    # ---- _set_matching_dimension: the shapes and the batch mask the object hands to _fourier_padding, with batch axes on either side
    clause_d = "matching dimensions: target shape, template shape and batch mask have one entry per matching dimension"
    reqs, keep = [], []
    combos = []
    for tnd in (1, 2, 3, 4):
        for pnd in (1, 2, 3, 4):
            for tdims in [()] + [(a_,) for a_ in range(tnd + 1)] + [(0, 1)] * (tnd >= 2):
                for pdims in [()] + [(a_,) for a_ in range(pnd + 1)]:
                    combos.append((tnd, pnd, tdims, pdims))
    rng.shuffle(combos)
    for ci, (tnd, pnd, tdims, pdims) in enumerate(combos[:ctx.budget(160, len(combos))]):
        tg = [int(x) for x in rng.integers(2, 7, size=tnd)]
        tp = [int(x) for x in rng.integers(2, 7, size=pnd)]
        pad = bool(ci % 2)
        inp = {"target": tg, "template": tp, "target_dims": list(tdims), "template_dims": list(pdims), "pad_fourier": pad}

        def _dims():
            with warnings.catch_warnings():
                warnings.simplefilter("ignore")
                md = MatchingData(np.zeros(tg, np.float32), np.zeros(tp, np.float32))
                td_ = None if not tdims else (tdims[0] if len(tdims) == 1 and ci % 3 == 0 else tuple(tdims))
                pd_ = None if not pdims else (pdims[0] if len(pdims) == 1 and ci % 3 == 1 else tuple(pdims))
                try:
                    md._set_matching_dimension(target_dims=td_, template_dims=pd_)
                except ValueError:
                    return "err:ValueError"
                except IndexError:
                    return "err:IndexError"
                out = {"target": [int(x) for x in md._output_target_shape], "template": [int(x) for x in md._output_template_shape],
                       "batch": [int(x) for x in md._batch_mask]}
                fp = md.fourier_padding(pad_fourier=pad)
                return out, {"conv": [int(x) for x in fp[0]], "fast": [int(x) for x in fp[1]], "ft": [int(x) for x in fp[2]], "shift": [int(x) for x in fp[3]]}
        okc, r = _call(ctx, clause_d, inp, "set_matching_dimension", _dims)
        if not okc:
            continue
        keep.append((inp, r, tg, tp, tdims, pdims, pad))
        reqs.append(("c13.matchingDims", {"target": tg, "template": tp, "tdims": list(tdims), "pdims": list(pdims)}))
    fp_reqs, fp_keep = [], []
    for (inp, r, tg, tp, tdims, pdims, pad), m in zip(keep, d.batch(reqs)):
        impl = r if isinstance(r, str) else r[0]
        ctx.agree("_set_matching_dimension", inp, impl, m)
        ctx.count("dims:" + ("rejected" if isinstance(impl, str) else "target-batch=%d,template-batch=%d" % (len(tdims), len(pdims))))
        ctx.distinct(("dims", len(tg), len(tp), tdims, pdims))
        if isinstance(impl, dict):
            # (what the bookkeeping should yield for unusual combinations of batch axes is not part of this property: the three
            # vectors are compared with the model, and the clause is only that they have one entry per matching dimension)
            ctx.spec(clause_d, inp, len(impl["target"]) == len(impl["template"]) == len(impl["batch"]), impl, key="set_matching_dimension")
            fp_keep.append((inp, r[1]))
            fp_reqs.append(("c13.fourierPadding", {"target": impl["target"], "template": impl["template"], "batch": impl["batch"], "pad": pad}))
    for (inp, fpi), m in zip(fp_keep, d.batch(fp_reqs)):
        ctx.agree("MatchingData.fourier_padding(batch axes)", inp, fpi, m)

    # ---- roll by that shift, then the convolution-mode crop: exactly what MaxScoreOverRotations._postprocess does to its maps
    clause_w = "roll by the Fourier shift + crop reads the raw map at t + (m-1)//2"
    reqs, keep = [], []
    rng.shuffle(post_cases)
    for (tg, tp, pad, fp) in post_cases[:ctx.budget(220, 2500)]:
        mode = ("same", "valid", "full")[len(keep) % 3]
        fast = fp["fast"]
        nd = len(tg)
        raw = np.arange(int(np.prod(fast)), dtype=np.int64).reshape(fast)
        inp = {"target": tg, "template": tp, "pad_fourier": pad, "mode": mode, "fast": fast, "conv": fp["conv"], "shift": fp["shift"]}

        def _pp():
            x = be.roll(raw, shift=tuple(fp["shift"]), axis=tuple(range(nd)))
            return np.asarray(apply_convolution_mode(x, convolution_mode=mode, s1=tuple(tg), s2=tuple(tp), convolution_shape=tuple(fp["conv"])))
        if mode == "valid" and any(b > a for a, b in zip(tg, tp)):
            ctx.count("post:valid-negative-extent")
            continue
        okc, got = _call(ctx, clause_w, inp, "postprocess-window", _pp)
        if not okc:
            continue
        keep.append((inp, got, tg, tp, pad, mode, fast))
        reqs.append(("c13.postMap", {"mode": mode, "shape": fast, "data": raw.reshape(-1).tolist(), "shift": fp["shift"],
                                     "conv": fp["conv"], "s1": tg, "s2": tp}))
    post_models = d.batch(reqs)
    # the same through the analyzer object itself (scores and rotations both carry the raw index)
    from multiprocessing.managers import SharedMemoryManager
    from tme.analyzer import MaxScoreOverRotations
    with SharedMemoryManager() as smh:
        for k_, ((inp, got, tg, tp, pad, mode, fast), m) in enumerate(zip(keep, post_models)):
            if k_ % 4 and not ctx.thorough:
                continue
            if got.size == 0:
                ctx.count("post:empty-output-not-sent-through-shared-memory")     # (a block of size 0 cannot be created)
                continue
            raw = np.arange(int(np.prod(fast)), dtype=np.int64).reshape(fast)

            def _an():
                an = MaxScoreOverRotations(scores=raw.astype(np.float32), rotations=raw.astype(np.int32), shared_memory_handler=smh,
                                           thread_safe=False)
                an._postprocess(targetshape=tuple(tg), templateshape=tuple(tp), convolution_shape=tuple(inp["conv"]),
                                fourier_shift=tuple(inp["shift"]), convolution_mode=mode, shared_memory_handler=smh,
                                fast_shape=tuple(fast))
                sc = np.array(be.from_sharedarr(an.scores))
                ro = np.array(be.from_sharedarr(an.rotations))
                return tuple(an.shape), sc, ro
            okc, r = _call(ctx, clause_w, dict(inp, through="MaxScoreOverRotations._postprocess"), "postprocess-window", _an)
            if not okc:
                continue
            shp, sc, ro = r
            for nm, arr_ in (("scores", sc), ("rotations", ro)):
                ctx.agree("MaxScoreOverRotations._postprocess(" + nm + ")", inp,
                          {"shape": list(arr_.shape), "data": [int(x) for x in arr_.reshape(-1)]}, m)
            ctx.spec(clause_w, dict(inp, what="shape attribute"), list(shp) == list(sc.shape), key="postprocess-window")
            ctx.count("post:through-analyzer")
    for (inp, got, tg, tp, pad, mode, fast), m in zip(keep, post_models):
        ctx.agree("roll+apply_convolution_mode", inp, {"shape": list(got.shape), "data": got.reshape(-1).tolist()}, m)
        ctx.count("post:" + mode)
        ctx.distinct(("post", tuple(tg), tuple(tp), pad, mode))
        if mode == "same" and got.size and got.shape == tuple(tg):
            # independent of the model: output voxel t shows raw voxel t + (m-1)//2 -- for every t with full padding (any template
            # extent), and for every t whose window lies inside the target without it
            pos = np.stack(np.unravel_index(got.reshape(-1), fast), axis=-1).reshape(tuple(tg) + (len(tg),))
            t = np.stack(np.indices(tg), axis=-1)
            want = t + (np.asarray(tp) - 1) // 2
            if pad:
                sel = np.ones(tg, bool)
            else:
                sel = np.all((t >= np.asarray(tp) // 2) & (t <= np.asarray(tg) - 1 - (np.asarray(tp) - 1) // 2), axis=-1)
                if any(b > a for a, b in zip(tg, tp)):
                    sel[...] = False
            okw = bool(np.array_equal(pos[sel], want[sel]))
            ctx.spec(clause_w, inp, okw, None if okw else {"first-bad": [int(x) for x in np.argwhere(sel & np.any(pos != want, axis=-1))[0]]},
                     key="postprocess-window")

    # ---- topk_indices
    clause_k = "topk_indices: k distinct positions holding the k largest values, largest first"
    reqs, keep = [], []
    for i in range(ctx.budget(200, 2500)):
        nd = 1 + i % 3
        sh = [int(x) for x in rng.integers(1, (14, 6, 4)[nd - 1] + 1, size=nd)]
        size = int(np.prod(sh))
        kind = ("distinct", "ties", "all-equal", "negative")[(i // 3) % 4]
        if kind == "distinct":
            vals = rng.permutation(size).astype(np.int64) - size // 2
        elif kind == "ties":
            vals = rng.integers(-2, 3, size=size)
        elif kind == "all-equal":
            vals = np.full(size, int(rng.integers(-3, 4)))
        else:
            vals = -rng.permutation(size).astype(np.int64) - 1
        kk = [0, 1, size, size + 1, size + 3, max(1, size // 2), int(rng.integers(0, size + 1))][i % 7]
        dt = np.dtype([np.float32, np.float64, np.int32][i % 3])
        arr = vals.reshape(sh).astype(dt)
        inp = {"shape": sh, "k": kk, "values": vals.tolist(), "dtype": dt.name, "kind": kind}
        try:
            r = be.topk_indices(arr, kk)
            impl = {"idx": [[int(x) for x in ax] for ax in r], "vals": [int(v) for v in arr[tuple(r)]]}
        except ValueError:
            impl = "err:KthOutOfBounds"
        except Exception as e:  # noqa
            ctx.spec(clause_k, inp, False, {"raised": type(e).__name__ + ": " + str(e)[:120]}, key="topk_indices")
            continue
        keep.append((inp, impl, kind, vals, sh, kk))
        reqs.append(("c13.topk", {"shape": sh, "data": vals.tolist(), "k": kk}))
    for (inp, impl, kind, vals, sh, kk), m in zip(keep, d.batch(reqs)):
        distinct_vals = len(set(vals.tolist())) == len(vals)
        if isinstance(impl, str) or isinstance(m, str) or distinct_vals:
            ctx.agree("topk_indices", inp, impl, m)
        else:
            # ties: which of the equal voxels is returned is the sort's business; the values are not
            ctx.agree("topk_indices(values)", inp, impl["vals"], m["vals"])
        if isinstance(impl, dict):
            flat = [int(np.ravel_multi_index(p, sh)) for p in zip(*impl["idx"])] if kk else []
            okk = len(flat) == kk and len(set(flat)) == kk and impl["vals"] == sorted(impl["vals"], reverse=True)
            if okk and 0 < kk < len(vals):
                rest = np.delete(vals, flat)
                okk = int(rest.max()) <= impl["vals"][-1]
            ctx.spec(clause_k, inp, okk, impl, key="topk_indices")
        else:
            ctx.spec(clause_k, inp, kk > len(vals), impl, key="topk_indices:rejected")
        ctx.count("topk:" + kind)
        ctx.count("topk:" + ("k=0" if kk == 0 else "k=size" if kk == len(vals) else "k>size" if kk > len(vals) else "0<k<size"))
        ctx.distinct(("topk", tuple(sh), kk, kind))

    # ---- indices
    for sh in [(1,), (4,), (2, 3), (3, 1), (2, 2, 3), (1, 4, 2), (5, 2)]:
        okc, r = _call(ctx, "indices: entry [a, i...] is i_a", {"shape": sh}, "indices", lambda: np.asarray(be.indices(sh)))
        if okc:
            ctx.agree("indices", {"shape": sh}, {"shape": list(r.shape), "data": [int(x) for x in r.reshape(-1)]}, d.call("c13.indices", shape=list(sh)))
            ctx.distinct(("indices", sh))

    # ---- max_filter_coordinates (integer scores; plateaus and border voxels included)
    clause_f = "max_filter_coordinates: reported voxels are those no voxel of their window exceeds"
    reqs, keep = [], []
    for i in range(ctx.budget(150, 1500)):
        nd = 1 + i % 3
        sh = [int(x) for x in rng.integers(1, (12, 6, 4)[nd - 1] + 1, size=nd)]
        size_ = int(rng.integers(1, 6))
        vals = rng.integers((0, -4, -100, -9)[(i // 3) % 4], (3, 5, 100, -2)[(i // 3) % 4], size=sh)     # (negative scores: the border rule matters)
        dt = np.dtype([np.float32, np.float64][i % 2])
        inp = {"shape": sh, "min_distance": size_, "values": vals.reshape(-1).tolist(), "dtype": dt.name}
        okc, r = _call(ctx, clause_f, inp, "max_filter_coordinates", lambda: np.asarray(be.max_filter_coordinates(vals.astype(dt), size_)))
        if not okc:
            continue
        keep.append((inp, [[int(x) for x in row] for row in r]))
        reqs.append(("c13.maxFilter", {"shape": sh, "data": vals.reshape(-1).tolist(), "size": size_}))
        ctx.count("maxfilter:size-" + ("even" if size_ % 2 == 0 else "odd"))
        ctx.distinct(("maxfilter", tuple(sh), size_))
    for (inp, impl), m in zip(keep, d.batch(reqs)):
        ctx.agree("max_filter_coordinates", inp, impl, m)
        vals = np.asarray(inp["values"]).reshape(inp["shape"])
        gmax = [list(map(int, p)) for p in np.argwhere(vals == vals.max())]
        ctx.spec(clause_f, inp, all(p in impl for p in gmax), None, key="max_filter_coordinates")

    # ---- center_of_mass with integer weights against the exact rational value
    clause_c = "center_of_mass = sum(w x) / sum(w) over the voxels above the cutoff"
    reqs, keep = [], []
    for i in range(ctx.budget(150, 1500)):
        nd = 1 + i % 3
        sh = [int(x) for x in rng.integers(1, (12, 6, 4)[nd - 1] + 1, size=nd)]
        kind = ("positive", "signed", "single-voxel", "sparse")[(i // 3) % 4]
        if kind == "positive":
            vals = rng.integers(1, 9, size=sh)
        elif kind == "signed":
            vals = rng.integers(-4, 9, size=sh)
        elif kind == "single-voxel":
            vals = np.zeros(sh, np.int64)
            vals.reshape(-1)[int(rng.integers(vals.size))] = int(rng.integers(1, 9))
        else:
            vals = rng.integers(0, 9, size=sh) * (rng.random(sh) < 0.3)
        cut = [None, 0, 2, -1, 0][i % 5]
        dt = np.dtype([np.float64, np.float32, np.float64][i % 3])
        inp = {"shape": sh, "values": vals.reshape(-1).tolist(), "cutoff": cut, "dtype": dt.name, "kind": kind}
        fn = (lambda: be.center_of_mass(vals.astype(dt))) if cut is None else (lambda: be.center_of_mass(vals.astype(dt), cutoff=cut)) if i % 2 else (lambda: be.center_of_mass(vals.astype(dt), cut))
        with np.errstate(all="ignore"):
            okc, r = _call(ctx, clause_c, inp, "center_of_mass", lambda: [float(x) for x in np.asarray(fn())])
        if not okc:
            continue
        keep.append((inp, r, dt))
        reqs.append(("c13.centerOfMass", {"shape": sh, "data": vals.reshape(-1).tolist(), "hasCut": cut is not None, "cut": 0 if cut is None else cut}))
        ctx.count("com:" + kind)
        ctx.count("com:cutoff-" + str(cut))
    for (inp, r, dt), m in zip(keep, d.batch(reqs)):
        if any(den == 0 for _, den in m):
            ctx.count("com:zero-mass")          # 0/0: not a number in the implementation, no rational value in the model
            continue
        tol = 1e-9 if dt == np.float64 else 2e-4
        exact = [num / den for num, den in m]
        ctx.agree("center_of_mass", inp, r, exact,
                  eq=lambda a, b: len(a) == len(b) and all(abs(x - y) <= tol * (1.0 + abs(y)) * max(1.0, sum(abs(v) for v in inp["values"]) / max(1, abs(m[0][1]))) for x, y in zip(a, b)))
        ctx.distinct(("com", tuple(inp["shape"]), inp["cutoff"], inp["kind"]))

    # ---- _rigid_transform_matrix: integer inverse rotations (signed permutations, shears), integer centre and translation
    clause_r = "rigid transform matrix = T(-t) C(c) R^-1 C(-c)"
    reqs, keep = [], []
    for i in range(ctx.budget(60, 600)):
        nd = 2 + i % 2
        if i % 3 == 2:
            R = np.eye(nd, dtype=np.int64)
            R[0, 1] = int(rng.integers(-2, 3))
        else:
            perm = rng.permutation(nd)
            R = np.zeros((nd, nd), np.int64)
            for a_, b_ in enumerate(perm):
                R[a_, b_] = int(rng.choice([-1, 1]))
        rinv = np.rint(np.linalg.inv(R.astype(np.float64))).astype(np.int64)
        c = rng.integers(-6, 7, size=nd)
        t = rng.integers(-6, 7, size=nd)
        inp = {"rotation": R.tolist(), "center": c.tolist(), "translation": t.tolist()}
        okc, M = _call(ctx, clause_r, inp, "rigid_transform_matrix",
                       lambda: np.asarray(be._rigid_transform_matrix(rotation_matrix=R.astype(np.float32), translation=t.astype(np.float32), center=c.astype(np.float32))))
        if not okc:
            continue
        Mi = np.rint(M).astype(np.int64)
        ctx.spec(clause_r, inp, bool(np.max(np.abs(M - Mi)) <= 1e-4), None, key="rigid_transform_matrix")
        keep.append((inp, {"matrix": Mi.tolist(), "offset": Mi[:nd, nd].tolist()}, rinv, c, t))
        reqs.append(("c13.rigidMatrix", {"rinv": rinv.tolist(), "center": c.tolist(), "translation": t.tolist()}))
        ctx.distinct(("rigid", tuple(R.reshape(-1).tolist()), tuple(c.tolist()), tuple(t.tolist())))
    for (inp, impl, rinv, c, t), m in zip(keep, d.batch(reqs)):
        ctx.agree("_rigid_transform_matrix", inp, impl, m)
        ctx.spec(clause_r, inp, impl["offset"] == (-t + c - rinv @ c).tolist(), impl, key="rigid_transform_matrix")

    # ---- build_fft plumbing: shapes / axes of the two plans, explicit inverse shape (same half length, other parity)
    clause_b = "build_fft: forward plan fast -> half spectrum, inverse plan half spectrum -> inverse shape, all axes"
    for i, fast in enumerate([(5,), (6,), (6, 7), (7, 6), (4, 5, 6), (3, 4, 9), (1, 8), (8, 1, 3)]):
        ft = fast[:-1] + (fast[-1] // 2 + 1,)
        flip = fast[:-1] + (fast[-1] + 1 if fast[-1] % 2 == 0 else max(1, fast[-1] - 1),)
        for inv in (None, fast, flip, fast[:-1] + (fast[-1] + 2,)):
            for dt, cdt in ((np.float32, np.complex64), (np.float64, np.complex128))[i % 2:i % 2 + 1]:
                inp = {"fast": list(fast), "ft": list(ft), "inverse": None if inv is None else list(inv), "dtype": np.dtype(dt).name}
                try:
                    kw = {} if inv is None else {"inverse_fast_shape": inv}
                    rf, irf = be.build_fft(fast_shape=fast, fast_ft_shape=ft, real_dtype=dt, complex_dtype=cdt, **kw)
                    impl = {"fwdIn": list(rf.input_shape), "fwdOut": list(rf.output_shape), "fwdAxes": [int(x) for x in rf.axes],
                            "invIn": list(irf.input_shape), "invOut": list(irf.output_shape), "invAxes": [int(x) for x in irf.axes]}
                except ValueError:
                    impl = "err:CannotAvoidCopy"
                except Exception as e:  # noqa
                    ctx.spec(clause_b, inp, False, {"raised": type(e).__name__ + ": " + str(e)[:120]}, key="build_fft")
                    continue
                m = d.call("c13.buildFft", fast=list(fast), ft=list(ft), hasInverse=inv is not None, inverse=list(inv or ()))
                ctx.agree("build_fft(plumbing)", inp, impl, m)
                if inv is None or tuple(inv) == tuple(fast):
                    ctx.spec(clause_b, inp, isinstance(impl, dict) and impl["fwdIn"] == list(fast) and impl["fwdOut"] == list(ft)
                             and impl["invIn"] == list(ft) and impl["invOut"] == list(fast)
                             and impl["fwdAxes"] == list(range(len(fast))) and impl["invAxes"] == list(range(len(fast))), impl, key="build_fft")
                ctx.distinct(("buildfft", fast, inv))

    # ---- to_sharedarr / from_sharedarr as (buffer, shape, item size) triples
    for i in range(ctx.budget(8, 40)):
        sh = [int(x) for x in rng.integers(1, 5, size=1 + i % 3)]
        dt = np.dtype([np.int32, np.float64, np.uint8, np.complex64][i % 4])
        arr = rng.integers(0, 200, size=sh).astype(dt)
        shm = None
        try:
            shm, shp, sdt = be.to_sharedarr(arr)
            back = np.ascontiguousarray(be.from_sharedarr((shm, shp, sdt)))
            impl = {"size": int(shm.size), "shape": [int(x) for x in shp], "read": list(back.tobytes())}
            m = d.call("c13.shared", shape=sh, itemsize=int(dt.itemsize), bytes=list(arr.tobytes()), slack=int(shm.size) - int(arr.nbytes))
            del back
            ctx.agree("to_sharedarr/from_sharedarr(triple)", {"shape": sh, "dtype": dt.name}, impl, m)
            ctx.distinct(("shm-triple", tuple(sh), dt.name))
        except Exception as e:  # noqa
            ctx.spec("shared memory reads back identical in another process", {"shape": sh, "dtype": dt.name}, False,
                     {"raised": type(e).__name__ + ": " + str(e)[:120]}, key="sharedarr")
        finally:
            if shm is not None:
                try:
                    shm.close()
                    shm.unlink()
                except Exception:  # noqa
                    pass
