"""C13 — FFT shapes, padding and cropping helpers are exact for every shape.

Leg B: real helpers of /repo vs the Lean model (Model/C13.lean), plus the property's clauses
evaluated directly on the implementation's outputs."""
import itertools
import multiprocessing as mp

import numpy as np

ID = "C13"
RULE = ("exhaustive small extents (1-3 axes) for shapes/crops; next_fast_len for every n below a bound; random integer "
        "arrays for padding; real rfftn/irfftn round trips; shared memory read back in a child process. "
        "distinct = distinct (helper, shapes/parities) tuples; trivial cases (extent-1 axes only) are not counted")
ASSUMPTIONS = ["pyfftw.next_fast_len is compared with the model for every n below the bound, beyond that it is trusted",
               "rfftn/irfftn numerics are pyFFTW's: the round trip is checked on the real code only (tolerance 1e-4 f32 / 1e-10 f64)"]
TRUSTED = ["C13: pyFFTW transforms and OS shared memory are exercised, not modelled"]


def _child_read(args, q):
    from tme.backends import backend as be
    arr = be.from_sharedarr(args)
    q.put(np.array(arr).tolist())


def run(ctx):
    from tme.backends import backend as be
    from tme import memory as tmem
    from tme.matching_utils import _center_slice, centered, apply_convolution_mode
    from pyfftw import next_fast_len
    d = ctx.driver
    rng = ctx.rng("main")

    # ---- next_fast_len contract
    N = ctx.budget(2048, 8192)
    model = d.call("c13.nextFastLenRange", n=N)
    impl = [int(next_fast_len(n)) for n in range(N)]
    ctx.agree("nextFastLen", {"range": N}, impl, model)
    for n in range(N):
        ctx.spec("fast>=n", {"n": n}, impl[n] >= n)
    ctx.distinct(("nextFastLen", N))

    # ---- convolution shapes: exhaustive small extents
    B = ctx.budget(7, 12)
    reqs, cases = [], []
    for nd in (1, 2, 3):
        if nd == 3:
            ext = list(range(1, min(B, 6) + 1))
        else:
            ext = list(range(1, B + 1))
        pairs = list(itertools.product(ext, repeat=2))
        if nd == 1:
            combos = [((a,), (b,)) for a, b in pairs]
        else:
            # all per-axis pairs appear on every axis; full product would be large, so sample rows exhaustively per axis
            combos = []
            for a, b in pairs:
                for ax in range(nd):
                    s1 = [int(rng.integers(1, B + 1)) for _ in range(nd)]
                    s2 = [int(rng.integers(1, B + 1)) for _ in range(nd)]
                    s1[ax], s2[ax] = a, b
                    combos.append((tuple(s1), tuple(s2)))
        for s1, s2 in combos:
            cases.append((s1, s2))
            reqs.append(("c13.convShapes", {"s1": list(s1), "s2": list(s2)}))
    models = d.batch(reqs)
    for (s1, s2), m in zip(cases, models):
        conv, fast, ft = be.compute_convolution_shapes(s1, s2)
        conv2, fast2, ft2 = tmem._compute_convolution_shapes(s1, s2)
        impl = {"conv": [int(x) for x in conv], "fast": [int(x) for x in fast], "ft": [int(x) for x in ft]}
        impl2 = {"conv": [int(x) for x in conv2], "fast": [int(x) for x in fast2], "ft": [int(x) for x in ft2]}
        inp = {"s1": s1, "s2": s2}
        ctx.agree("compute_convolution_shapes", inp, impl, m)
        ctx.agree("memory._compute_convolution_shapes", inp, impl2, m)
        ok = all(f >= a + b - 1 for f, a, b in zip(impl["fast"], s1, s2)) and \
            impl["ft"] == impl["fast"][:-1] + [impl["fast"][-1] // 2 + 1] and \
            all(c == a + b - 1 for c, a, b in zip(impl["conv"], s1, s2))
        ctx.spec("planned>=linear-conv & half-spectrum shape", inp, ok, impl, key="convshapes")
        if max(s1) > 1 or max(s2) > 1:
            ctx.distinct(("conv", s1, s2))
        ctx.count(f"conv:ndim={len(s1)}")
    ctx.sample({"helper": "compute_convolution_shapes", "s1": cases[-1][0], "s2": cases[-1][1], "model": models[-1]})

    # ---- FFT round trip through build_fft for odd/even extents
    shapes = [(5,), (6,), (15,), (16,), (25, 27), (6, 7), (7, 6), (8, 8), (5, 6, 7), (6, 6, 6), (7, 7, 9), (15, 4, 9)]
    if ctx.thorough:
        shapes += [tuple(int(x) for x in rng.integers(2, 20, size=nd)) for nd in (1, 2, 3) for _ in range(15)]
    for s1 in shapes:
        for dt, cdt, tol in ((np.float32, np.complex64, 1e-4), (np.float64, np.complex128, 1e-10)):
            s2 = tuple(int(x) for x in rng.integers(1, 6, size=len(s1)))
            conv, fast, ft = be.compute_convolution_shapes(s1, s2)
            rfftn, irfftn = be.build_fft(fast_shape=tuple(fast), fast_ft_shape=tuple(ft), real_dtype=dt, complex_dtype=cdt)
            x = rng.integers(-4, 5, size=fast).astype(dt)
            xin = be.zeros(tuple(fast), dt)
            xin[:] = x
            spec_ = be.zeros(tuple(ft), cdt)
            out = be.zeros(tuple(fast), dt)
            rfftn(xin, spec_)
            irfftn(spec_, out)
            err = float(np.max(np.abs(out - x)))
            ctx.spec("rfftn∘irfftn = id", {"fast": fast, "ft": ft, "dtype": dt.__name__}, err <= tol, {"err": err}, key="fft-roundtrip")
            ctx.count("fft:last-" + ("odd" if fast[-1] % 2 else "even"))
            ctx.distinct(("fft", tuple(fast), dt.__name__))

    # ---- plans requested one after the other in one process: shapes that share the half-spectrum shape (last axis 2k and
    # 2k+1 both have k+1 complex bins) must each get a transform pair of their own
    pairs = [((14,), (15,)), ((4, 14), (4, 15)), ((3, 5, 8), (3, 5, 9)), ((6, 20), (6, 21))]
    if ctx.thorough:
        pairs += [((int(a), 2 * int(k)), (int(a), 2 * int(k) + 1)) for a, k in zip(rng.integers(2, 9, size=10), rng.integers(2, 12, size=10))]
    for pa in pairs:
        for order_ in (pa, pa[::-1]):
            for dt, cdt, tol in ((np.float32, np.complex64, 1e-4), (np.float64, np.complex128, 1e-10)):
                plans = []
                errs = []
                try:
                    for fast in order_:
                        ft = tuple(fast[:-1]) + (fast[-1] // 2 + 1,)
                        plans.append((fast, ft, be.build_fft(fast_shape=tuple(fast), fast_ft_shape=ft, real_dtype=dt, complex_dtype=cdt)))
                    for fast, ft, (rf, irf) in plans:
                        x = rng.integers(-4, 5, size=fast).astype(dt)
                        xin = be.zeros(tuple(fast), dt)
                        xin[:] = x
                        spec_ = be.zeros(ft, cdt)
                        out = be.zeros(tuple(fast), dt)
                        rf(xin, spec_)
                        ref = np.fft.rfftn(x.astype(np.float64))
                        e_spec = float(np.max(np.abs(np.asarray(spec_) - ref))) / max(1.0, float(np.abs(ref).max()))
                        irf(spec_, out)          # (the complex-to-real transform may overwrite its input)
                        errs.append(max(float(np.max(np.abs(out - x))), e_spec))
                    okp = max(errs) <= tol * 10
                    det = {"err": max(errs)}
                except Exception as e:  # noqa
                    okp, det = False, type(e).__name__ + ":" + str(e)[:80]
                ctx.spec("rfftn∘irfftn = id", {"sequence": [list(f) for f in order_], "dtype": dt.__name__}, okp, det, key="fft-roundtrip")
                ctx.count("fft:plan-sequence")
                ctx.distinct(("fftseq", order_, dt.__name__))

    # ---- topleft_pad
    n_pad = ctx.budget(150, 1500)
    reqs, keep = [], []
    for i in range(n_pad):
        nd = int(rng.integers(1, 4))
        sh = [int(x) for x in rng.integers(1, 6, size=nd)]
        ns = [int(x) for x in rng.integers(1, 7, size=nd)]
        pad = int(rng.choice([0, 1, -1, 7]))
        dt = rng.choice([np.float32, np.float64, np.int32, np.complex64])
        a = rng.integers(-9, 10, size=sh)
        out = be.topleft_pad(a.astype(dt), tuple(ns), pad)
        keep.append((sh, ns, pad, a, out, dt))
        reqs.append(("c13.topleftPad", {"shape": sh, "data": a.reshape(-1).tolist(), "newshape": ns, "pad": pad}))
    models = d.batch(reqs)
    for (sh, ns, pad, a, out, dt), m in zip(keep, models):
        inp = {"shape": sh, "newshape": ns, "pad": pad, "data": a.reshape(-1).tolist(), "dtype": np.dtype(dt).name}
        impl = np.real(out).astype(int).reshape(-1).tolist()
        ctx.agree("topleft_pad", inp, impl, m)
        # spec: leading corner = data (cropped), rest = pad, shape as requested
        ok = list(out.shape) == ns
        if ok:
            corner = tuple(slice(0, min(x, y)) for x, y in zip(sh, ns))
            mask = np.ones(ns, bool)
            mask[corner] = False
            ok = np.array_equal(np.real(out[corner]), a[corner]) and bool(np.all(np.real(out[mask]) == pad)) and out.dtype == np.dtype(dt)
        ctx.spec("corner pad", inp, ok, key="topleft_pad")
        ctx.distinct(("pad", tuple(sh), tuple(ns), pad))
        ctx.count("pad:" + ("grow" if all(y >= x for x, y in zip(sh, ns)) else "crop" if all(y <= x for x, y in zip(sh, ns)) else "mixed"))
    ctx.sample({"helper": "topleft_pad", **{k: v for k, v in inp.items() if k != "data"}, "model": models[-1]})

    # ---- centre extraction: every (cur, new)
    C = ctx.budget(16, 40)
    reqs, keep = [], []
    for cur in range(1, C + 1):
        for new in range(0, C + 3):
            reqs.append(("c13.centerSlice", {"cur": cur, "new": new}))
            reqs.append(("c13.centered", {"cur": cur, "new": new}))
            reqs.append(("c13.extractCenter", {"cur": cur, "new": new}))
            keep.append((cur, new))
    models = d.batch(reqs)
    for i, (cur, new) in enumerate(keep):
        box = _center_slice((cur,), (new,))[0]
        arr = np.arange(cur)
        ctx.agree("_center_slice", {"cur": cur, "new": new}, [int(box.start), int(box.stop)], models[3 * i])
        got = centered(arr, (new,))
        m = models[3 * i + 1]
        ctx.agree("centered", {"cur": cur, "new": new}, got.tolist(), list(range(m[0], m[1])))
        got2 = be.extract_center(arr, (new,))
        m2 = models[3 * i + 2]
        ctx.agree("extract_center", {"cur": cur, "new": new}, np.array(got2).tolist(), list(range(m2[0], m2[1])))
        if new <= cur:
            for name, g in (("centered", got), ("extract_center", np.array(got2))):
                ok = len(g) == new
                if ok and new > 0:
                    left, right = int(g[0]), cur - 1 - int(g[-1])
                    ok = left <= right <= left + 1 and np.array_equal(g, np.arange(g[0], g[0] + new))
                ctx.spec("centre extraction: extent and symmetry", {"helper": name, "cur": cur, "new": new}, ok,
                         g.tolist(), key=name)
            ctx.distinct(("center", cur % 2, new % 2, cur, new))
        ctx.count("center:" + ("shrink" if new <= cur else "grow"))

    # ---- centered_mask directly, 1-3 D, including axes whose extent is not reduced at all
    from tme.matching_utils import centered_mask
    for _ in range(ctx.budget(60, 400)):
        nd = int(rng.integers(1, 4))
        cur = [int(x) for x in rng.integers(1, 9, size=nd)]
        new = [int(c if rng.random() < 0.4 else rng.integers(1, c + 1)) for c in cur]
        vals = rng.integers(1, 9, size=cur).astype(np.float32)
        box = _center_slice(tuple(cur), tuple(new))
        want = np.zeros_like(vals)
        want[box] = vals[box]
        try:
            got = np.asarray(centered_mask(vals.copy(), tuple(new)))
            okm = got.shape == vals.shape and np.array_equal(got, want)
        except Exception as e:  # noqa
            okm, got = False, type(e).__name__
        ctx.spec("masked centre extraction keeps the box and zeroes the rest", {"cur": cur, "new": new}, okm,
                 None if okm else {"kept": int(np.count_nonzero(got)) if not isinstance(got, str) else got, "expected": int(np.count_nonzero(want))},
                 key="centered_mask")
        ctx.distinct(("cmask", tuple(cur), tuple(new)))
    # ---- convolution-mode crops, 1-3 D, contents checked through an index array
    M = ctx.budget(9, 14)
    reqs, keep = [], []
    for s1 in range(1, M + 1):
        for s2 in range(1, M + 1):
            for mode in ("full", "same", "valid"):
                reqs.append(("c13.convCrop", {"mode": mode, "conv": s1 + s2 - 1, "s1": s1, "s2": s2}))
                keep.append((s1, s2, mode))
    models = d.batch(reqs)
    table = {k: m for k, m in zip(keep, models)}
    for (s1, s2, mode), m in table.items():
        fast = int(next_fast_len(s1 + s2 - 1))
        arr = np.arange(fast)
        inp = {"s1": s1, "s2": s2, "mode": mode}
        try:
            got = apply_convolution_mode(arr, mode, (s1,), (s2,))
            impl = [int(got[0]), len(got)] if len(got) else [None, 0]
        except Exception as e:
            impl = "raised:" + type(e).__name__
        if m == "err:NegativeExtent":
            ctx.count("crop:negative-extent")
            continue  # s1 < s2 in valid mode: undocumented, implementation-defined (python slicing); not compared
        mm = m if m[1] else [None, 0]
        ctx.agree("apply_convolution_mode", inp, impl, mm)
        if s2 <= s1 and isinstance(impl, list):
            want = {"full": s1 + s2 - 1, "same": s1, "valid": s1 - s2 + s2 % 2}[mode]
            ok = impl[1] == want
            if ok and want:
                left, right = impl[0], (s1 + s2 - 1) - (impl[0] + want)
                ok = left <= right <= left + 1
            ctx.spec("full/same/valid extents, central", inp, ok, impl, key="apply_convolution_mode")
            ctx.distinct(("crop", s1, s2, mode))
        ctx.count("crop:" + mode)
    # n-D product structure
    for _ in range(ctx.budget(60, 600)):
        nd = int(rng.integers(2, 4))
        s1 = [int(x) for x in rng.integers(1, M + 1, size=nd)]
        s2 = [int(min(a, b)) for a, b in zip(s1, rng.integers(1, M + 1, size=nd))]
        mode = str(rng.choice(["full", "same", "valid"]))
        fast = [int(next_fast_len(a + b - 1)) for a, b in zip(s1, s2)]
        idx = np.indices(fast)
        got = [apply_convolution_mode(idx[ax], mode, s1, s2) for ax in range(nd)]
        impl = [[int(g.min()), int(g.max()) - int(g.min()) + 1] if g.size else [None, 0] for g in got]
        model = [table[(a, b, mode)] if table[(a, b, mode)][1] else [None, 0] for a, b in zip(s1, s2)]
        if any(m[1] == 0 for m in model):
            model = [[None, 0]] * nd
            impl = [[None, 0]] * nd if got[0].size == 0 else impl
        ctx.agree("apply_convolution_mode(nD)", {"s1": s1, "s2": s2, "mode": mode}, impl, model)
        ctx.distinct(("cropnd", tuple(s1), tuple(s2), mode))
        # the masking form keeps the array's shape, zeroes everything outside the same centre box and keeps the values inside
        if all(isinstance(x[0], int) for x in impl):
            vals = rng.integers(1, 9, size=fast).astype(np.float64)
            try:
                masked = np.asarray(apply_convolution_mode(vals.copy(), mode, s1, s2, mask_output=True))
                # (the FFT padding beyond the convolution shape is cut off first, then the centre box is kept inside it)
                conv = tuple(slice(0, a + b - 1) for a, b in zip(s1, s2))
                want = np.zeros_like(vals[conv])
                box = tuple(slice(a, a + e) for a, e in impl)
                want[box] = vals[conv][box]
                okm = masked.shape == want.shape and np.array_equal(masked, want)
            except Exception as e:  # noqa
                okm, masked = False, type(e).__name__
            ctx.spec("masked centre extraction keeps the box and zeroes the rest", {"s1": s1, "s2": s2, "mode": mode, "shape": fast}, okm,
                     None if okm else {"kept": int(np.count_nonzero(masked)) if not isinstance(masked, str) else masked,
                                       "expected": int(np.count_nonzero(want)) if not isinstance(masked, str) else None},
                     key="centered_mask")
            ctx.count("masked-crop:" + ("some-axis-without-margin" if any(e == a + b - 1 for (_, e), a, b in zip(impl, s1, s2)) else "all-axes-cropped"))
    ctx.sample({"helper": "apply_convolution_mode", "s1": s1, "s2": s2, "mode": mode, "impl(start,extent)": impl})

    # ---- shared memory read back in another process
    from multiprocessing.managers import SharedMemoryManager
    nshm = ctx.budget(3, 12)
    mpctx = mp.get_context("spawn")
    def layouts(a):
        """the same values in every memory layout numpy hands out (the property speaks of arrays, not of C-ordered arrays)"""
        yield "C", np.ascontiguousarray(a)
        yield "F", np.asfortranarray(a)
        yield "transposed-view", np.ascontiguousarray(a.T).T
        if a.ndim >= 2:
            yield "swapaxes-view", np.ascontiguousarray(np.swapaxes(a, 0, -1)).swapaxes(0, -1)
            yield "moveaxis-view", np.ascontiguousarray(np.moveaxis(a, 0, -1)).copy().transpose(
                [a.ndim - 1] + list(range(a.ndim - 1)))
        big = np.zeros(tuple(2 * x + 1 for x in a.shape), dtype=a.dtype)
        sl = tuple(slice(1, 1 + 2 * x, 2) for x in a.shape)
        big[sl] = a
        yield "strided-offset-view", big[sl]
        yield "reversed-view", np.ascontiguousarray(a[::-1])[::-1]

    with SharedMemoryManager() as smh:
        for i in range(nshm):
            sh = tuple(int(x) for x in rng.integers(1, 6, size=int(rng.integers(1, 4))))
            if i % 3 == 1:
                sh = tuple(int(x) for x in rng.integers(2, 6, size=int(rng.integers(2, 4))))
            dt = [np.float32, np.float64, np.int32][i % 3]
            a0 = rng.integers(-100, 100, size=sh).astype(dt)
            lay = list(layouts(a0))
            for li, (lname, a) in enumerate(lay):
                assert a.shape == a0.shape and np.array_equal(a, a0), lname
                args = be.to_sharedarr(a, smh)
                same_here = np.array_equal(be.from_sharedarr(args), a0)
                back = a0.tolist()
                if li == i % len(lay) or (li == 1 and i % 2 == 0):          # a child process for some of them (spawn is slow)
                    q = mpctx.Queue()
                    p = mpctx.Process(target=_child_read, args=(args, q))
                    p.start()
                    back = q.get(timeout=120)
                    p.join()
                ctx.spec("shared memory reads back identical in another process",
                         {"shape": sh, "dtype": np.dtype(dt).name, "layout": lname, "values": a0.tolist()},
                         same_here and back == a0.tolist(), key="sharedarr")
                ctx.distinct(("shm", sh, np.dtype(dt).name, lname))
                ctx.count("shm-layout:" + lname)
