"""C06 — rigid transforms move data forward about the centre, exactly on the grid group.

Leg B: the real NumpyFFTWBackend.rigid_transform / _rigid_transform_matrix / center_of_mass,
matching_utils.rigid_transform, Density.rigid_transform and Structure.rigid_transform of the worktree
against the Lean model (Model/C06.lean), plus the clauses of the property evaluated directly (plain numpy,
independent of the model) on the implementation's outputs.

Every generated case is a JSON-able dict with a "kind"; `_CASES[kind](ctx, inp, model)` runs the real code on
it, compares with the model when `model` is true and evaluates the property's clauses — so run(), search()
and replay() share the same code."""
import inspect
import itertools
from fractions import Fraction

import numpy as np

ID = "C06"
RULE = ("arrays: 2-D/3-D, odd/even extents, all 4/24 proper grid rotations of every shape they leave invariant (+ mirrors, "
        "+ same-parity non-invariant shapes), integer translations incl. ones that push content out, orders 0-3, "
        "with/without mask, with/without caller-supplied output buffers; exact rational rotations (Pythagorean / "
        "integer-quaternion) with dyadic translations at order 1 (compared voxel by voxel with the exact model) and at "
        "orders 0-3 (centre of mass of a blob); all signed permutations (also ones that do not fix the shape: half-integer "
        "sources) with translations in quarters of a voxel at order 1, where matrix, sources and weights are exactly "
        "representable: every voxel incl. the faces of the box compared with the exact model, random / constant / affine "
        "/ compactly supported data; coordinate sets / Structure with dyadic coordinates. "
        "Presentation of the arguments (a dimension of 'all arrays'): memory layouts C / Fortran / axis-permuted / strided / "
        "reversed / offset views, read-only arrays and numpy.memmap; dtypes float32 / float64 / int8..int64 / uint8; "
        "intensity scales 2^-30 .. 2^10 (exact powers of two) and offsets up to 1000; rotation matrices as float64 / "
        "float32 / int, Fortran-ordered and sliced out of larger arrays; translations as float64 / float32 / int64 or "
        "left out; out / out_mask given together, singly or not at all, in any layout, same-size or larger; a float64 "
        "backend instance; Density with non-trivial origin and anisotropic sampling rate.  Call sequences on persistent "
        "objects (array objects, output buffers, Density, Structure) with shapes, translations, orders, masks and centre "
        "modes changing between calls.  Small-angle rotations (2-6 degrees) next to the Pythagorean ones. "
        "distinct = distinct (kind, shape, rotation, translation, order, mask, centre, presentation) tuples; identity with "
        "zero translation is trivial and not counted")
ASSUMPTIONS = [
    "linalg.inv(R) enters the model as a parameter (the exact inverse); its contract inv(R)·R = 1 is checked on every case",
    "scipy.ndimage.affine_transform's coordinate contract (out[o] = interp(in, M[:d,:d]·o + M[:d,d]), zero outside "
    "[0, n-1]) is validated on every run through an index ramp; spline orders 2/3 are not modelled (property clauses "
    "are evaluated on them directly)",
    "real matrices are float32 (backend default): order-1 voxel comparisons skip voxels whose exact source lies within "
    "1e-3 of a face of the box or of a grid plane's kink is irrelevant (linear), tolerance 2e-3*max|data|; the dyadic stream "
    "(signed permutations, translations k/4, geometric centre) needs no such exclusion: tolerance 1e-6*max|data| on every voxel",
    "coordinate version: same dtype for coordinates and out, except in the dedicated dtype-mismatch stream",
    "grid clauses are evaluated in units of the data's scale 2^k with tolerance max(1e-4, 1e-5 * max|value|): the transform is "
    "linear, the error of spline interpolation and of float32 storage is relative to the largest value; integer / bool masks "
    "are compared at orders 0 and 1 only (at orders 2, 3 the un-prefiltered smoothing is cast back to the integer type)",
    "Density.rigid_transform's clean-up (voxels below eps * max|out| set to 0) is mirrored by cleanNoise; it is within the "
    "tolerance above by construction (cleanNoise_error)",
    "call sequences: the backend's default centre (centre of mass) is only used with the identity and no translation "
    "(T(-t)C(c)C(-c) is exactly the identity matrix there); with a translation the float32 product c - t - c may be off by an "
    "ulp, which moves sources across the zero-fill boundary",
]
TRUSTED = ["C06: scipy spline interpolation (orders 2, 3) and prefilter are exercised, not modelled; order 1 and the "
           "grid group are modelled exactly"]

TOL_GRID = 1e-4      # |out - integer| on the grid group (measured 1e-15; DESIGN keeps 1e-5 for order 3)
TOL_LIN = 2e-3       # order-1 voxel comparison, relative to max|data| (float32 matrix + float32 data)
TOL_COM = {0: 0.75, 1: 0.08, 2: 0.08, 3: 0.08}   # centre-of-mass rule, arbitrary rotations (DESIGN §6: 0.05); order 0 rounds half-voxel
# sources all in one direction, so nearest neighbour is only good to half a voxel
TOL_CO = 1e-9        # coordinate version, float64


# ----------------------------------------------------------------------------------------------
# generators
# ----------------------------------------------------------------------------------------------
def signed_perms(d, proper=None):
    out = []
    for p in itertools.permutations(range(d)):
        for s in itertools.product([1, -1], repeat=d):
            M = [[0] * d for _ in range(d)]
            for i in range(d):
                M[i][p[i]] = s[i]
            det = int(round(np.linalg.det(np.array(M, float))))
            if proper is None or (det == 1) == proper:
                out.append(M)
    return out


def leaves_invariant(R, shape):
    return [sum(abs(R[i][j]) * shape[j] for j in range(len(shape))) for i in range(len(shape))] == list(shape)


def rational_rotation(rng, d, small=False):
    """exact rotation matrix with rational entries (rows of Fractions); small=True: an angle of about 2-6 degrees
    (a rotation that a loose `allclose(R, identity)` shortcut would mistake for the identity)"""
    if d == 2:
        if small == "tiny":        # 0.04 .. 0.25 degrees: inside every default `isclose` tolerance, still a rotation
            a, b = int(rng.integers(450, 3000)), int(rng.choice([-1, 1]))
        elif small:
            a, b = int(rng.integers(20, 61)), int(rng.choice([-1, 1]))
        else:
            a, b = (int(x) for x in rng.integers(-6, 7, size=2))
            if a * a + b * b == 0:
                a = 1
        n = a * a + b * b
        return [[Fraction(a * a - b * b, n), Fraction(-2 * a * b, n)], [Fraction(2 * a * b, n), Fraction(a * a - b * b, n)]]
    if small:
        w = int(rng.integers(800, 3000)) if small == "tiny" else int(rng.integers(20, 41))
        x, y, z = (int(v) for v in rng.integers(-1, 2, size=3))
        if x == y == z == 0:
            z = 1
    else:
        w, x, y, z = (int(v) for v in rng.integers(-4, 5, size=4))
        if w == x == y == z == 0:
            w = 1
    n = w * w + x * x + y * y + z * z
    F = Fraction
    return [[F(w * w + x * x - y * y - z * z, n), F(2 * (x * y - w * z), n), F(2 * (x * z + w * y), n)],
            [F(2 * (x * y + w * z), n), F(w * w - x * x + y * y - z * z, n), F(2 * (y * z - w * x), n)],
            [F(2 * (x * z - w * y), n), F(2 * (y * z + w * x), n), F(w * w - x * x - y * y + z * z, n)]]


def fr(x):
    f = Fraction(x)
    return [f.numerator, f.denominator]


def frs(v):
    return [fr(x) for x in v]


def frm(M):
    return [frs(r) for r in M]


def unfr(q):
    return q[0] / q[1]


def transpose(M):
    return [list(r) for r in zip(*M)]


def fl(M):
    return np.array([[float(x) for x in r] for r in M], dtype=float)


def unrat_rows(M):
    """recorded case -> Fractions (cases store rationals as [num, den])"""
    return [[Fraction(x[0], x[1]) if isinstance(x, (list, tuple)) else Fraction(x) for x in r] for r in M]


def unrat_vec(v):
    return [Fraction(x[0], x[1]) if isinstance(x, (list, tuple)) else Fraction(x) for x in v]


# ----------------------------------------------------------------------------------------------
# presentation of arguments: the same values handed over in another memory layout / dtype / container
# ----------------------------------------------------------------------------------------------
IN_LAYOUTS = ("C", "F", "moved", "strided", "reversed", "offset", "readonly", "memmap")
OUT_LAYOUTS = ("C", "F", "moved", "strided", "reversed", "offset")
_mm_count = [0]


def present(a, layout):
    """an array with the values, shape and dtype of `a` in the requested memory layout"""
    a = np.asarray(a)
    nd = a.ndim
    if layout in (None, "C"):
        return np.array(a, order="C", copy=True)
    if layout == "F":
        return np.array(a, order="F", copy=True)
    if layout == "moved":       # axis-permuted view of a C-ordered block: neither C- nor F-contiguous in 3-D
        return np.moveaxis(np.array(np.moveaxis(a, 0, -1), order="C", copy=True), -1, 0)
    if layout == "strided":     # every second element of a larger block
        big = np.full(tuple(2 * s + 1 for s in a.shape), 99, dtype=a.dtype)
        v = big[tuple(slice(1, 2 * s + 1, 2) for s in a.shape)]
        v[...] = a
        return v
    if layout == "reversed":    # negative strides
        sl = (slice(None, None, -1),) * nd
        return np.array(a[sl], order="C", copy=True)[sl]
    if layout == "offset":      # interior window of a larger block
        big = np.full(tuple(s + 3 for s in a.shape), 99, dtype=a.dtype)
        v = big[tuple(slice(1 + (i % 2), 1 + (i % 2) + s) for i, s in enumerate(a.shape))]
        v[...] = a
        return v
    if layout == "readonly":
        b = np.array(a, order="C", copy=True)
        b.setflags(write=False)
        return b
    if layout == "memmap":      # read-only memory map, as Density.from_file(use_memmap=True) hands out
        import os
        from pv import env
        _mm_count[0] += 1
        path = os.path.join(env.scratch(), f"c06_mm_{os.getpid()}_{_mm_count[0]}.bin")
        w = np.memmap(path, dtype=a.dtype, mode="w+", shape=a.shape)
        w[...] = a
        w.flush()
        del w
        r = np.memmap(path, dtype=a.dtype, mode="r", shape=a.shape)
        os.unlink(path)         # the mapping stays valid; nothing accumulates in the scratch directory
        return r
    raise ValueError(layout)


def present_small(v, dtype="float64", layout="C"):
    """rotation matrices / translation vectors: dtype and layout (a window of a larger array for 'offset')"""
    v = np.array(v, dtype=np.dtype(dtype))
    if layout == "F":
        return np.array(v, order="F", copy=True)
    if layout == "offset":
        big = np.full(tuple(s + 2 for s in v.shape), 9, dtype=v.dtype)
        w = big[tuple(slice(1, 1 + s) for s in v.shape)]
        w[...] = v
        return w
    if layout == "strided":
        big = np.full(tuple(2 * s for s in v.shape), 9, dtype=v.dtype)
        w = big[tuple(slice(0, 2 * s, 2) for s in v.shape)]
        w[...] = v
        return w
    return v


_B64 = []


def _backend(via):
    if via == "backend64":      # precision selected through the backend's constructor arguments
        if not _B64:
            from tme.backends.npfftw_backend import NumpyFFTWBackend
            _B64.append(NumpyFFTWBackend(float_dtype=np.float64, complex_dtype=np.complex128))
        return _B64[0]
    return _be()


# ----------------------------------------------------------------------------------------------
# independent statement of the property (plain numpy; nothing from the model)
# ----------------------------------------------------------------------------------------------
def spec_forward_grid(a, R, t, after=False):
    """value at x moves to R(x + t - c) + c, c = (n-1)/2 (after=True: R(x - c) + c + t); content leaving the box is
    dropped, the rest is 0.  (t = 0: R(x - c) + c; R = 1: x + t.)  Returns None if some image is not a grid point."""
    a = np.asarray(a)
    n = np.array(a.shape)
    R = np.array(R, dtype=np.int64)
    out = np.zeros_like(a)
    c2 = n - 1
    for x in np.ndindex(*a.shape):
        y2 = (R @ (2 * np.array(x) - c2) + c2 + 2 * np.array(t)) if after else (R @ (2 * np.array(x) + 2 * np.array(t) - c2) + c2)
        if np.any(y2 % 2):
            return None
        y = y2 // 2
        if np.all(y >= 0) and np.all(y < n):
            out[tuple(y)] = a[x]
    return out


def com(a):
    a = np.asarray(a, float)
    g = np.indices(a.shape).reshape(a.ndim, -1)
    w = a.reshape(-1)
    return (g * w).sum(axis=1) / w.sum()


# ----------------------------------------------------------------------------------------------
# cases
# ----------------------------------------------------------------------------------------------
def _be():
    from tme.backends import backend as be
    return be


def _grid_values(inp):
    """integer voxel values of a grid case (data + offset), its scale 2^k and the dtype handed to the API"""
    form = inp.get("form") or {}
    shape = tuple(inp["shape"])
    ints = np.array(inp["data"], dtype=np.int64).reshape(shape) + int(form.get("offset", 0))
    dt = np.dtype(form.get("dtype", "float32"))
    scale = float(2.0 ** int(form.get("scale_exp", 0))) if dt.kind == "f" else 1.0
    return form, ints, scale, dt


def case_grid(ctx, inp, model=True):
    """grid group through NumpyFFTWBackend.rigid_transform(use_geometric_center=True) (or Density.rigid_transform).
    inp["form"] (optional) says how the arguments are presented: dtype / scale / offset of the data, memory layouts of
    data, mask, rotation matrix and buffers, dtype of rotation and translation, translation left out."""
    shape, R, t, order = tuple(inp["shape"]), inp["R"], inp["t"], inp["order"]
    d = len(shape)
    form, ints, scale, dt = _grid_values(inp)
    a = (ints * scale).astype(dt)                    # exact: integers times a power of two
    a_ref = ints.astype(float)                       # everything below is compared in units of `scale`
    vmax = max(1.0, float(np.abs(ints).max()))
    tolg = max(TOL_GRID, 1e-5 * vmax)                # float32 resolution of the largest value (1e-5 = 170 ulp)
    mdt = np.dtype(form.get("mask_dtype", "float32"))
    m = None if inp.get("mask") is None else np.array(inp["mask"], dtype=np.int64).reshape(shape).astype(mdt)
    m_ref = None if m is None else np.array(inp["mask"], dtype=float).reshape(shape)
    mask_exact = m is None or mdt.kind == "f" or order <= 1     # integer / bool masks: smoothed values get cast
    Rf = present_small(R, form.get("R_dtype", "float64"), form.get("R_layout", "C"))
    R0 = np.array(Rf, copy=True)
    t_form = form.get("t_form", "float64")
    tf = None if t_form == "omit" else np.array(t, dtype=np.dtype(t_form))
    t0 = None if tf is None else tf.copy()
    via = inp.get("via", "backend")
    bk = _backend(via)
    a_in = present(a, form.get("layout", "C"))
    m_in = None if m is None else present(m, form.get("mask_layout", "C"))
    full_out = full_om = None
    bufshape = tuple(inp.get("bufshape") or shape)
    corner = tuple(slice(0, s_) for s_ in shape)
    if via == "density":
        from tme import Density
        kw = {} if inp.get("defaults") else {"use_geometric_center": True}
        if not inp.get("defaults") or order != 3:
            kw["order"] = order
        if tf is not None:
            kw["translation"] = tf
        origin = np.array(inp.get("origin") or [0.0] * d, dtype=float)
        rate = np.array(inp.get("sampling_rate") or [1.0] * d, dtype=float)
        dens = Density(a_in, origin=origin.copy(), sampling_rate=rate.copy())
        res = dens.rigid_transform(rotation_matrix=Rf, **kw)
        out, om = res.data, None
        ok_meta = np.allclose(res.origin, origin) and np.allclose(res.sampling_rate, rate) \
            and np.allclose(dens.origin, origin) and np.allclose(dens.sampling_rate, rate)
        ctx.spec("Density.rigid_transform keeps origin and sampling rate", inp, bool(ok_meta),
                 {"origin": np.asarray(res.origin).tolist(), "sampling_rate": np.asarray(res.sampling_rate).tolist()},
                 key="density:metadata")
        ctx.spec("inputs are not modified", inp, res is not dens and np.array_equal(np.asarray(dens.data), a),
                 key="density:input-mutated")
    else:
        kw = {}
        which = inp.get("buffers")
        which = "both" if which is True else which
        oform = inp.get("out_form") or {}
        if which in ("both", "out"):
            # caller-supplied buffers (possibly larger, as the padded template buffers of the scoring loops),
            # deliberately dirty: every voxel of the leading corner must be overwritten
            kw["out"] = present(np.full(bufshape, 77, dtype=np.dtype(oform.get("dtype", dt.name))), oform.get("layout", "C"))
        if m is not None and which in ("both", "mask"):
            kw["out_mask"] = present(np.full(bufshape if which == "both" else shape, 55,
                                         dtype=np.dtype(oform.get("mask_dtype", mdt.name if mdt.kind == "f" else "float32"))),
                                     oform.get("mask_layout", "C"))
        if tf is not None:
            kw["translation"] = tf
        out, om = bk.rigid_transform(a_in, Rf, arr_mask=m_in, use_geometric_center=True, order=order, **kw)
        ctx.spec("inputs are not modified", inp, np.array_equal(np.asarray(a_in), a) and (m is None or np.array_equal(np.asarray(m_in), m))
                 and np.array_equal(Rf, R0) and (tf is None or np.array_equal(tf, t0)), key="array:input-mutated")
        if "out" in kw or "out_mask" in kw:
            ctx.spec("result is written into the supplied buffers", inp,
                     ("out" not in kw or out is kw["out"]) and ("out_mask" not in kw or om is kw["out_mask"]), key="array:buffers")
        ctx.spec("a mask is returned exactly when one is passed", inp, (om is None) == (m is None), key="array:mask-returned")
        for nm, full, fillv in (("out", out if "out" in kw else None, 77), ("out_mask", om if "out_mask" in kw else None, 55)):
            if full is None or tuple(full.shape) == shape:
                continue
            rest = np.array(full, dtype=float)
            rest[corner] = fillv
            ctx.spec("larger buffer: only the leading corner [0, shape) is written", inp, bool(np.all(rest == fillv)),
                     {"buffer": nm}, key="array:buffer-corner")
            if nm == "out":
                full_out = np.array(full, dtype=float)
                full_out[corner] /= scale
        out = out[corner]
        om = None if om is None else om[corner]
    out = np.asarray(out, dtype=float) / scale
    rinv = transpose(R)
    contract = np.allclose(np.linalg.inv(np.array(R, float)), np.array(rinv, float), atol=1e-12)
    ctx.agree("linalg.inv contract (signed permutation: inverse = transpose)", inp, bool(contract), True)
    if model:
        mo = ctx.driver.call("c06.grid", shape=list(shape), data=[int(v) for v in ints.reshape(-1)], rinv=rinv,
                             t=[int(v) for v in t], mask=None if m is None else [int(v) for v in m_ref.reshape(-1)])
        if full_out is not None:
            mob = ctx.driver.call("c06.grid", shape=list(shape), data=[int(v) for v in ints.reshape(-1)], rinv=rinv,
                                  t=[int(v) for v in t], mask=None, bufshape=list(bufshape), fill=77)
            fb = full_out.reshape(-1)
            ctx.agree("rigid_transform(out=larger buffer) == rigidGridInto", inp,
                      [None if mv is None else int(np.rint(v)) for v, mv in zip(fb, mob["out"])], mob["out"])
        if via == "density" and dt.kind == "f" and None not in mo["out"]:
            # the wrapper's tail: voxels below eps * max|out| are set to 0 (model: cleanNoise; a no-op unless the data's
            # dynamic range exceeds 1/eps - the high-dynamic-range stream)
            e = np.finfo(dt)
            cl = ctx.driver.call("c06.clean", eps=[1, 2 ** int(-np.log2(float(e.eps)))], data=mo["out"])
            cleaned = [int(unfr(q)) for q in cl]
            if cleaned != mo["out"]:
                ctx.count("grid:density:clean-up-active")
            mo["out"] = cleaned
        flat = out.reshape(-1)
        impl = [None if mv is None else int(np.rint(v)) for v, mv in zip(flat, mo["out"])]
        near = all(mv is None or abs(v - np.rint(v)) <= tolg for v, mv in zip(flat, mo["out"]))
        ctx.agree("rigid_transform(grid) == gridTransform", inp, {"out": impl, "integral": bool(near)},
                  {"out": mo["out"], "integral": True})
        if om is not None and order <= 1:
            fm = np.asarray(om, float).reshape(-1)
            implm = [None if mv is None else int(np.rint(v)) for v, mv in zip(fm, mo["mask"])]
            nearm = all(mv is None or abs(v - np.rint(v)) <= TOL_GRID for v, mv in zip(fm, mo["mask"]))
            ctx.agree("rigid_transform(grid, mask) == gridTransform", inp, {"mask": implm, "integral": bool(nearm)},
                      {"mask": mo["mask"], "integral": True})
        if om is not None and order >= 2 and mask_exact:
            # "data prefiltered, mask not": the mask output is the B-spline smoothing of the mask, moved by the same map
            mm = ctx.driver.call("c06.gridmask", shape=list(shape), mask=[int(v) for v in m_ref.reshape(-1)], rinv=rinv,
                                 t=[int(v) for v in t], order=order)
            fm = np.asarray(om, float).reshape(-1)
            bad = [i for i, (v, q) in enumerate(zip(fm, mm)) if q is not None and abs(v - unfr(q)) > 1e-5]
            ctx.agree("rigid_transform(grid, mask, order>=2) == maskGrid (unprefiltered spline)", inp, bad[:3], [])
        ctx.count("grid:model-" + ("exact" if None not in mo["out"] else "partly-off-grid"))
    # ---- property clauses on the implementation's output
    want = spec_forward_grid(a_ref, R, t)
    is_id = np.array(R).tolist() == np.eye(d, dtype=int).tolist()
    zero_t = not any(t)
    if want is not None:
        err = float(np.abs(out - want).max())
        if is_id and zero_t:
            ctx.spec("identity leaves the array unchanged", inp, err <= tolg, {"maxerr": err, "in units of": scale}, key="array:identity")
        elif is_id:
            ctx.spec("integer translation with the identity is an exact shift with zero fill", inp, err <= tolg,
                     {"maxerr": err, "first_bad": _first_bad(out, want, tolg)}, key="array:int-translation")
        elif zero_t:
            ctx.spec("axis-aligned rotation is an exact permutation of voxels: value at x lands at R(x-c)+c", inp,
                     err <= tolg, {"maxerr": err, "first_bad": _first_bad(out, want, tolg)}, key="array:grid-rotation")
            if leaves_invariant(R, shape):
                same = np.allclose(np.sort(out.reshape(-1)), np.sort(a_ref.reshape(-1)), rtol=0, atol=tolg)
                ctx.spec("grid rotation preserves the multiset of voxel values", inp, bool(same), key="array:grid-rotation")
        else:
            # the property fixes the rule for t = 0 and for R = 1 only; composed, today's code translates in the input
            # frame (R(x+t-c)+c, what the model mirrors).  Translating after the rotation (R(x-c)+c+t, the coordinate
            # version's convention) would also satisfy the text, so the clause accepts either.
            want2 = spec_forward_grid(a_ref, R, t, after=True)
            err2 = float("inf") if want2 is None else float(np.abs(out - want2).max())
            ctx.spec("grid rotation with integer translation is an exact permutation + shift", inp, min(err, err2) <= tolg,
                     {"maxerr": min(err, err2), "first_bad": _first_bad(out, want, tolg)}, key="array:grid-rotation+translation")
            ctx.count("grid:composed:" + ("translate-then-rotate" if err <= tolg else "rotate-then-translate" if err2 <= tolg else "neither"))
    if om is not None and not mask_exact:
        ctx.count("grid:mask-clause-skipped(integer mask at order>=2)")
    elif om is not None:
        om = np.asarray(om, float)
        if order <= 1:
            wm = spec_forward_grid(m_ref, R, t)
            if wm is not None:
                errm = float(np.abs(om - wm).max())
                wm2 = spec_forward_grid(m_ref, R, t, after=True)
                if wm2 is not None and float(np.abs(om - wm2).max()) < errm and want is not None \
                        and float(np.abs(out - spec_forward_grid(a_ref, R, t, after=True)).max()) <= tolg:
                    errm, wm = float(np.abs(om - wm2).max()), wm2     # data follows the other composition: so must the mask
                ctx.spec("mask is moved by the same map as the data", inp, errm <= TOL_GRID,
                         {"maxerr": errm, "first_bad": _first_bad(om, wm)}, key="array:mask")
        else:
            # no prefilter on the mask: it is the B-spline smoothing of the moved mask; the smoothing kernel is
            # symmetric and the same on every axis, so it commutes with the grid group and with integer shifts
            _, om0 = bk.rigid_transform(a.copy(), np.eye(d), arr_mask=m.copy(), translation=np.zeros(d),
                                        use_geometric_center=True, order=order)
            wm = spec_forward_grid(np.asarray(om0, float), R, t)
            if wm is not None and zero_t and leaves_invariant(R, shape):
                errm = float(np.abs(om - wm).max())
                ctx.spec("mask is moved by the same map as the data", inp, errm <= TOL_GRID,
                         {"maxerr": errm, "first_bad": _first_bad(om, wm)}, key="array:mask")
    if not (is_id and zero_t):
        ctx.distinct(("grid", shape, R, t, order, m is not None, via, inp.get("buffers") or False, sorted(form.items()),
                      sorted((inp.get("out_form") or {}).items())))
    ctx.count(f"grid:{d}D:" + "".join("o" if s % 2 else "e" for s in shape))
    ctx.count(f"grid:order={order}")
    ctx.count("grid:" + ("mask" if m is not None else "nomask"))
    ctx.count("grid:via=" + via)
    if bufshape != shape:
        ctx.count("grid:larger-buffer")
    if form:
        ctx.count("grid:layout=" + form.get("layout", "C"))
        ctx.count("grid:dtype=" + dt.name)
        ctx.count(f"grid:scale=2^{form.get('scale_exp', 0)}:offset={form.get('offset', 0)}")
        ctx.count("grid:R=" + form.get("R_dtype", "float64") + "/" + form.get("R_layout", "C"))
        ctx.count("grid:t=" + t_form)
    if inp.get("out_form"):
        ctx.count("grid:out-layout=" + inp["out_form"].get("layout", "C"))
    if inp.get("buffers") in ("out", "mask"):
        ctx.count("grid:buffers=" + inp["buffers"] + "-only")


def _first_bad(out, want, tol=TOL_GRID):
    bad = np.argwhere(np.abs(np.asarray(out, float) - want) > tol)
    if len(bad) == 0:
        return None
    i = tuple(int(v) for v in bad[0])
    return {"index": i, "got": float(np.asarray(out)[i]), "want": float(want[i])}


def case_matrix(ctx, inp, model=True):
    """_rigid_transform_matrix against the model's homogeneous product, and against the pull-back formula"""
    be = _be()
    Rq = unrat_rows(inp["R"])
    rinvq = unrat_rows(inp["rinv"])
    d = len(Rq)
    t = None if inp["t"] is None else unrat_vec(inp["t"])
    c = None if inp["c"] is None else unrat_vec(inp["c"])
    Rf = fl(Rq)
    tf = None if t is None else np.array([float(x) for x in t])
    cf = None if c is None else np.array([float(x) for x in c])
    M = np.asarray(be._rigid_transform_matrix(rotation_matrix=Rf, translation=tf, center=cf), dtype=float)
    contract = np.allclose(np.linalg.inv(Rf) @ Rf, np.eye(d), atol=1e-9) and np.allclose(np.linalg.inv(Rf), fl(rinvq), atol=1e-9)
    ctx.agree("linalg.inv contract", inp, bool(contract), True)
    scale = 1.0 + max([abs(float(x)) for x in (t or [0])] + [abs(float(x)) for x in (c or [0])]) * d
    if model:
        mo = ctx.driver.call("c06.matrix", rinv=frm(rinvq), t=None if t is None else frs(t), c=None if c is None else frs(c))
        Mm = np.array([[unfr(x) for x in r] for r in mo])
        err = float(np.abs(M - Mm).max())
        ctx.agree("_rigid_transform_matrix == rigidMatrix", inp, err <= 2e-6 * scale, True)
    # clause: the matrix is the pull-back o -> R^-1 (o - c) + c - t
    t0 = np.zeros(d) if tf is None else tf
    c0 = np.zeros(d) if cf is None else cf
    rinvf = fl(rinvq)
    worst, worst_alt = 0.0, 0.0
    for o in inp["pts"]:
        o = np.array(o, float)
        got = (M @ np.append(o, 1.0))
        want = rinvf @ (o - c0) + c0 - t0
        e1 = float(np.abs(got[:d] - want).max())
        if worst_alt is not None:
            # the other composition (translate in the output frame) also satisfies the property's text
            worst_alt = max(worst_alt, float(np.abs(got[:d] - (rinvf @ (o - t0 - c0) + c0)).max()), abs(got[d] - 1.0))
        worst = max(worst, e1, abs(got[d] - 1.0))
    if worst_alt is not None and worst_alt < worst:
        worst = worst_alt
    ctx.spec("matrix fed to the resampler is the pull-back R^-1(o-c)+c-t", inp, worst <= 2e-5 * scale * (1 + np.abs(inp["pts"]).max()),
             {"maxerr": worst}, key="matrix:pullback")
    ctx.count(f"matrix:{d}D:t={'none' if t is None else 'some'}:c={'none' if c is None else 'some'}")
    ctx.distinct(("matrix", inp["R"], inp["t"], inp["c"]))


def _scipy_linear(arr, rinvf, c, t):
    """plain statement of the pull-back at order 1 in float64: out[o] = lin-interp(arr, R^-1(o-c)+c-t), 0 outside"""
    from scipy.ndimage import affine_transform
    off = c - rinvf @ c - t
    return affine_transform(np.asarray(arr, dtype=np.float64), rinvf, offset=off, order=1, mode="constant", cval=0.0, prefilter=False)


def case_linear(ctx, inp, model=True):
    """arbitrary exact rotation + dyadic translation at order 1: voxel-by-voxel against the exact model.
    centre: geometric (use_geometric_center=True) or centre of mass (the backend's default); optionally with a mask
    (moved by the same map: same centre as the data), other layouts / dtypes / scales, through Density."""
    shape = tuple(inp["shape"])
    d = len(shape)
    form, ints, scale, dt = _grid_values(inp)
    a = (ints * scale).astype(dt)
    a_ref = ints.astype(float)
    Rq, t = unrat_rows(inp["R"]), unrat_vec(inp["t"])
    rinvq = transpose(Rq)
    Rf = present_small(fl(Rq), form.get("R_dtype", "float64"), form.get("R_layout", "C"))
    tf = np.array([float(x) for x in t])
    geo = inp["geo"]
    via = inp.get("via", "backend")
    bk = _backend(via)
    m = None if inp.get("mask") is None else np.array(inp["mask"], dtype=np.float32).reshape(shape)
    a_in = present(a, form.get("layout", "C"))
    om = None
    if via == "density":
        from tme import Density
        dens = Density(a_in, origin=np.arange(1, d + 1, dtype=float), sampling_rate=np.full(d, 1.5))
        res = dens.rigid_transform(rotation_matrix=Rf, translation=tf, order=1, use_geometric_center=geo)
        out = res.data
        ctx.spec("inputs are not modified", inp, res is not dens and np.array_equal(np.asarray(dens.data), a), key="density:input-mutated")
    else:
        kw = {"use_geometric_center": True} if geo else ({} if inp.get("defaults") else {"use_geometric_center": False})
        out, om = bk.rigid_transform(a_in, Rf, arr_mask=None if m is None else m.copy(), translation=tf, order=1, **kw)
        ctx.spec("inputs are not modified", inp, np.array_equal(np.asarray(a_in), a), key="array:input-mutated")
    out = np.asarray(out, float) / scale
    contract = np.allclose(np.linalg.inv(fl(Rq)), fl(rinvq), atol=1e-9)
    ctx.agree("linalg.inv contract (rotation: inverse = transpose)", inp, bool(contract), True)
    n1 = np.array(shape) - 1
    vmax = max(1.0, float(np.abs(ints).max()))
    tol = TOL_LIN * vmax * (1 if geo else 4)
    eband = 1e-3 if geo else 2e-3 * max(shape)

    def faces(src):
        # float32 matrix (and, for the centre of mass, a float32 centre): a source on a face of the box can fall on either
        # side of the zero-fill discontinuity; those voxels are skipped (and counted)
        return np.any((np.abs(src) < eband) | (np.abs(src - n1) < eband), axis=-1)
    if model:
        cgeo = [Fraction(s - 1, 2) for s in shape]
        mo = ctx.driver.call("c06.linear", shape=list(shape), data=[int(v) for v in ints.reshape(-1)], rinv=frm(rinvq),
                             t=frs(t), c=frs(cgeo) if geo else None)
        if not geo:
            cm = np.array([unfr(x) for x in mo["c"]])
            ci = np.asarray(bk.center_of_mass(a, cutoff=0), float)
            # float32 accumulation of n voxels: eps32 * n * max coordinate (error model), at least the historic 1e-4
            ctol = max(1e-4, 6e-8 * a.size * max(shape))
            ctx.agree("center_of_mass(cutoff=0) == centerOfMass", inp, bool(np.abs(cm - ci).max() <= ctol), True)
        want = np.array([unfr(x) for x in mo["out"]]).reshape(shape)
        src = np.array([[unfr(x) for x in r] for r in mo["src"]]).reshape(shape + (d,))
        edge = faces(src)
        diff = np.abs(out - want)
        diff[edge] = 0
        ctx.agree("rigid_transform(order=1) == linInterp∘affineSrc∘rigidMatrix", inp,
                  bool(diff.max() <= tol), True)
        if om is not None:
            mm = ctx.driver.call("c06.linear", shape=list(shape), data=[int(v) for v in m.reshape(-1)], rinv=frm(rinvq),
                                 t=frs(t), c=mo["c"])
            wantm = np.array([unfr(x) for x in mm["out"]]).reshape(shape)
            dm = np.abs(np.asarray(om, float) - wantm)
            dm[edge] = 0
            ctx.agree("rigid_transform(order=1, mask) == linInterp at the data's sources", inp, bool(dm.max() <= TOL_LIN * (1 if geo else 4)), True)
        ctx.count("linear:skipped-edge-voxels", int(edge.sum()))
        ctx.count("linear:compared-voxels", int((~edge).sum()))
    # ---- property clauses (plain numpy / scipy in float64, nothing from the model): the value at x moves to R(x+t-c)+c,
    # c the geometric centre or - backend default - the centre of mass of the positive voxels; the mask follows the data
    c = n1 / 2.0 if geo else com(np.where(a_ref > 0, a_ref, 0.0))
    rinvf = fl(rinvq)
    g = np.indices(shape).reshape(d, -1).astype(float)
    srcf = (rinvf @ (g - c[:, None]) + (c - tf)[:, None]).T.reshape(shape + (d,))
    edge = faces(srcf)
    wantf = _scipy_linear(a_ref, rinvf, c, tf)
    df = np.abs(out - wantf)
    df[edge] = 0
    ctx.spec("arbitrary rotation at order 1: every voxel is the linear interpolation at R^-1(o-c)+c-t", inp, bool(df.max() <= tol),
             {"maxerr": float(df.max()), "tol": tol, "at": [int(v) for v in np.unravel_index(int(df.argmax()), shape)]},
             key="array:linear")
    if om is not None:
        wm = _scipy_linear(m, rinvf, c, tf)
        dm = np.abs(np.asarray(om, float) - wm)
        dm[edge] = 0
        ctx.spec("mask is moved by the same map as the data (arbitrary rotation, order 1)", inp, bool(dm.max() <= TOL_LIN * (1 if geo else 4)),
                 {"maxerr": float(dm.max()), "at": [int(v) for v in np.unravel_index(int(dm.argmax()), shape)]}, key="array:mask-linear")
    ctx.count(f"linear:{d}D:" + ("geometric" if geo else "mass"))
    ctx.count("linear:via=" + via)
    if m is not None:
        ctx.count("linear:mask")
    if inp.get("small"):
        ctx.count("linear:small-angle")
    if form:
        ctx.count("linear:layout=" + form.get("layout", "C"))
        ctx.count("linear:dtype=" + dt.name + f":scale=2^{form.get('scale_exp', 0)}")
    ctx.distinct(("linear", shape, inp["R"], inp["t"], geo, via, m is not None, sorted(form.items())))


def _suppok(n, t, x):
    """Lean `SuppOK n t x`: both grid neighbours of x + t are output voxels and their sources o - t lie in [0, n-1]"""
    import math
    fl_, ce_ = math.floor(t), math.ceil(t)
    return 0 <= x + fl_ and x + ce_ <= n - 1 and 0 <= x + fl_ - t and x + ce_ - t <= n - 1


def case_linexact(ctx, inp, model=True):
    """order 1 on exactly representable inputs: a signed permutation (any, also one that does not fix the shape: half-integer
    sources) with a translation in quarters of a voxel about the geometric centre.  Matrix, sources and weights are dyadic,
    so float32 / float64 arithmetic is exact: *every* voxel (faces of the box included) is compared with the exact model
    `rigidLinearArr`, and the consequences proved in Lean for it (range, constants, grid points, affine exactness, mass and
    first moment under a pure translation) are evaluated on the real output with plain Fractions."""
    shape = tuple(inp["shape"])
    d = len(shape)
    ints = np.array(inp["data"], dtype=np.int64).reshape(shape)
    R = [[int(v) for v in r] for r in inp["R"]]
    t = unrat_vec(inp["t"])
    rinv = transpose(R)
    via = inp.get("via", "backend")
    bk = _backend(via)
    a = ints.astype(np.float32 if via == "backend" else np.float64)
    Rf = np.array(R, dtype=float)
    tf = np.array([float(x) for x in t])
    a_in = a.copy()
    out, _ = bk.rigid_transform(a_in, Rf, translation=tf, order=1, use_geometric_center=True)
    ctx.spec("inputs are not modified", inp, bool(np.array_equal(a_in, a)), key="array:input-mutated")
    out = np.asarray(out, dtype=np.float64)
    vmax = max(1.0, float(np.abs(ints).max()))
    tol = 1e-6 * vmax          # float32 rounding of the stored result (measured: exact)
    c = [Fraction(n - 1, 2) for n in shape]
    if model:
        mo = ctx.driver.call("c06.lineararr", shape=list(shape), data=[int(v) for v in ints.reshape(-1)], rinv=frm(rinv),
                             t=frs(t), c=frs(c))
        want = np.array([unfr(x) for x in mo["out"]]).reshape(shape)
        diff = np.abs(out - want)
        ctx.agree("rigid_transform(order=1) == rigidLinearArr on dyadic inputs, every voxel incl. faces", inp,
                  bool(diff.max() <= tol), True)
        ctx.count("linexact:voxels", int(diff.size))
        ctx.count("linexact:voxels-bit-exact", int((diff == 0).sum()))
        g = np.indices(shape).reshape(d, -1).astype(float)
        w = out.reshape(-1)
        mtol = 1e-5 * vmax * out.size * max(shape)
        ok = abs(float(w.sum()) - unfr(mo["mass_out"])) <= mtol and all(
            abs(float((g[k] * w).sum()) - unfr(mo["moment_out"][k])) <= mtol for k in range(d))
        ctx.agree("mass / first moments of the real output == mass, moment (rigidLinearArr)", inp, bool(ok), True)
    # ---- clauses (Fractions; nothing from the model): sources R^-1(o-c)+c-t, inside iff 0 <= src <= n-1 on every axis
    bad_range = bad_zero = bad_grid = bad_aff = None
    lo, hi = float(ints.min()), float(ints.max())
    aff = inp.get("affine")         # [alpha, beta...] when the data is that affine function of the index
    n_inside = n_grid = 0
    for o in np.ndindex(*shape):
        src = [sum(rinv[i][j] * (o[j] - c[j]) for j in range(d)) + c[i] - t[i] for i in range(d)]
        inside = all(0 <= src[i] <= shape[i] - 1 for i in range(d))
        v = float(out[o])
        if not inside:
            if v != 0.0 and bad_zero is None:
                bad_zero = {"at": list(map(int, o)), "got": v}
            continue
        n_inside += 1
        if not (lo - tol <= v <= hi + tol) and bad_range is None:
            bad_range = {"at": list(map(int, o)), "got": v, "range": [lo, hi]}
        if all(x.denominator == 1 for x in src):
            n_grid += 1
            if abs(v - float(ints[tuple(int(x) for x in src)])) > tol and bad_grid is None:
                bad_grid = {"at": list(map(int, o)), "got": v, "src": [int(x) for x in src]}
        if aff is not None:
            wantv = float(aff[0] + sum(aff[1 + i] * src[i] for i in range(d)))
            if abs(v - wantv) > tol and bad_aff is None:
                bad_aff = {"at": list(map(int, o)), "got": v, "want": wantv}
    ctx.spec("order 1: a voxel whose source lies outside the array is 0 (zero fill)", inp, bad_zero is None, bad_zero,
             key="array:linear-exact:zero-fill")
    ctx.spec("order 1: inside the array min <= out <= max (partition of unity)", inp, bad_range is None, bad_range,
             key="array:linear-exact:range")
    ctx.spec("order 1: a voxel whose source is a grid point holds exactly that voxel", inp, bad_grid is None, bad_grid,
             key="array:linear-exact:grid-point")
    if aff is not None:
        ctx.spec("order 1: affine data (constants included) is reproduced exactly inside the array", inp, bad_aff is None, bad_aff,
                 key="array:linear-exact:affine")
        ctx.count("linexact:affine" if any(aff[1:]) else "linexact:constant")
    ident = all(R[i][j] == (1 if i == j else 0) for i in range(d) for j in range(d))
    if ident:
        supp_ok = all(all(_suppok(shape[i], t[i], x[i]) for i in range(d)) for x in np.ndindex(*shape) if ints[x] != 0)
        if supp_ok:
            g = np.indices(shape).reshape(d, -1)
            w_in = ints.reshape(-1)
            m_in = int(w_in.sum())
            mtol = 1e-5 * vmax * out.size * max(shape)
            w = out.reshape(-1)
            bad = None
            if abs(float(w.sum()) - m_in) > mtol:
                bad = {"mass_in": m_in, "mass_out": float(w.sum())}
            for k in range(d):
                wantm = float(int((g[k] * w_in).sum()) + t[k] * m_in)
                if abs(float((g[k] * w).sum()) - wantm) > mtol and bad is None:
                    bad = {"axis": k, "moment_out": float((g[k] * w).sum()), "want": wantm}
            ctx.spec("order 1, pure translation with the shifted support inside: mass kept, first moment moves by exactly t*mass",
                     inp, bad is None, bad, key="array:linear-exact:first-moment")
            ctx.count("linexact:first-moment")
    ctx.count(f"linexact:{d}D:" + ("identity" if ident else ("invariant" if leaves_invariant(R, shape) else "non-invariant")))
    ctx.count("linexact:inside-voxels", n_inside)
    ctx.count("linexact:grid-point-voxels", n_grid)
    ctx.distinct(("linexact", shape, inp["R"], inp["t"], inp.get("mode"), via))


def case_com(ctx, inp, model=True):
    """arbitrary proper rotation, any order: the centre of mass of a blob follows R(x + t - c) + c (data and mask).
    Optional: absolute intensity scale (any float), float64 data, memory layout, Density.rigid_transform, and the
    backend's default centre (centre of mass: c = x0, so the blob's centre moves by R t resp. t)."""
    shape = tuple(inp["shape"])
    d = len(shape)
    Rq, t = unrat_rows(inp["R"]), unrat_vec(inp["t"])
    Rf, tf = fl(Rq), np.array([float(x) for x in t])
    order = inp["order"]
    form = inp.get("form") or {}
    dt = np.dtype(form.get("dtype", "float32"))
    amp = float(form.get("amp", 1.0))
    geo = inp.get("geo", True)
    via = inp.get("via", "backend")
    bk = _backend(via)
    g = np.indices(shape).astype(float)
    p = np.array(inp["blob"], float)
    a = np.exp(-sum((g[i] - p[i]) ** 2 for i in range(d)) / (2 * inp["sigma"] ** 2))
    q = np.array(inp["blob2"], float)
    a = a + 0.5 * np.exp(-sum((g[i] - q[i]) ** 2 for i in range(d)) / (2 * inp["sigma"] ** 2))
    a = (a * amp).astype(dt)
    m = (a > 0.05 * amp).astype(np.float32) if inp["mask"] else None
    a_in = present(a, form.get("layout", "C"))
    if via == "density":
        from tme import Density
        res = Density(a_in, origin=np.zeros(d), sampling_rate=np.full(d, 2.0)).rigid_transform(
            rotation_matrix=Rf, translation=tf, order=order, use_geometric_center=geo)
        out, om, m = res.data, None, None
    else:
        out, om = bk.rigid_transform(a_in, Rf, arr_mask=None if m is None else m.copy(), translation=tf,
                                     use_geometric_center=geo, order=order)
    x0 = com(a)
    c = (np.array(shape) - 1) / 2 if geo else x0      # default centre: the centre of mass itself (all values positive)
    want = Rf @ (x0 + tf - c) + c
    got = com(np.asarray(out, float))
    err = min(float(np.abs(got - want).max()), float(np.abs(got - (Rf @ (x0 - c) + c + tf)).max()))   # either composition
    mass = float(np.asarray(out, float).sum() / np.asarray(a, float).sum())
    ctx.spec("arbitrary rotation: centre of mass moves by R(x-c)+c within interpolation error", inp,
             err <= TOL_COM[order] and abs(mass - 1) <= (0.2 if order == 0 else 0.05), {"err": err, "mass_ratio": mass, "got": got.tolist(), "want": want.tolist()},
             key="array:com")
    if m is not None:
        gm = com(np.asarray(om, float))
        wm = Rf @ (com(m) + tf - c) + c
        errm = min(float(np.abs(gm - wm).max()), float(np.abs(gm - (Rf @ (com(m) - c) + c + tf)).max()))
        ctx.spec("arbitrary rotation: the mask's centre of mass moves by the same rule", inp, errm <= (0.75 if order == 0 else 0.25),
                 {"err": errm}, key="array:mask-com")
    if model:
        # the transposed (inverse) rotation or the translation-after-rotation convention would land elsewhere:
        # count how discriminating the case is
        alt = Rf.T @ (x0 + tf - c) + c
        ctx.count("com:discriminates-inverse" if np.abs(alt - want).max() > 4 * TOL_COM[order] else "com:symmetric")
        ctx.count("com:discriminates-identity" if np.abs(x0 + tf - want).max() > 2 * TOL_COM[order] else "com:near-identity")
    ctx.count(f"com:{d}D:order={order}")
    ctx.count("com:centre=" + ("geometric" if geo else "mass") + ":via=" + via)
    if form:
        ctx.count(f"com:amp={amp:g}")
        ctx.count(f"com:dtype={dt.name}")
        ctx.count(f"com:layout={form.get('layout', 'C')}")
    ctx.distinct(("com", shape, inp["R"], inp["t"], order, inp["blob"], geo, via, sorted(form.items())))


def _structure(coords):
    from tme import Structure
    n = len(coords)
    el = ["C", "N", "O", "S"]
    return Structure(record_type=["ATOM"] * n, atom_serial_number=list(range(n)), atom_name=["CA"] * n,
                     atom_coordinate=np.array(coords), alternate_location_indicator=["."] * n,
                     residue_name=["GLY"] * n, chain_identifier=["A"] * n, residue_sequence_number=list(range(n)),
                     code_for_residue_insertion=["?"] * n, occupancy=[1.0] * n, temperature_factor=[0.0] * n,
                     segment_identifier=["1"] * n, element_symbol=[el[i % 4] for i in range(n)], charge=["?"] * n, metadata={})


def _coords_points(inp):
    """points of a coordinate case as exact rationals (quarters); large sets are regenerated from a recorded seed"""
    if inp.get("xgen"):
        g = inp["xgen"]
        r = np.random.default_rng(int(g["seed"]))
        raw = r.integers(-80, 81, size=(int(g["N"]), int(g["d"])))
        return [[Fraction(int(v), 4) for v in row] for row in raw]
    return [unrat_vec(p) for p in inp["x"]]


def case_coords(ctx, inp, model=True):
    """matching_utils.rigid_transform / Structure.rigid_transform.  inp["form"] (optional): dtype of coordinates and out
    (same dtype), memory layouts of coordinates / out / mask buffers / rotation matrix, kind of the translation argument."""
    from tme.matching_utils import rigid_transform as crt
    X = _coords_points(inp)
    Mk = [unrat_vec(p) for p in inp.get("maskpts") or []]
    Rq, t = unrat_rows(inp["R"]), unrat_vec(inp["t"])
    center = None if inp.get("center") is None else unrat_vec(inp["center"])
    geo, via = inp["geo"], inp.get("via", "function")
    mismatch = bool(inp.get("dtypeMismatch"))
    form = inp.get("form") or {}
    cdt = np.dtype(form.get("dtype", "float64"))
    d = len(Rq)
    Rf = present_small(fl(Rq), form.get("R_dtype", "float64"), form.get("R_layout", "C"))
    R0 = Rf.copy()
    Rf64 = fl(Rq)
    tf = np.array([float(v) for v in t])
    tk = form.get("t_kind", "ndarray")
    targ = tf.copy() if tk == "ndarray" else tf.astype(np.float32) if tk == "float32" else tf.tolist() if tk == "list" else tuple(tf.tolist())
    xs = np.array([[float(v) for v in p] for p in X], dtype=np.float64).T      # (d, N)
    ms = np.array([[float(v) for v in p] for p in Mk], dtype=np.float64).reshape(len(Mk), d).T
    N = xs.shape[1]
    om = None
    if via == "structure":
        st = _structure(xs.T.astype(cdt))
        kw = {} if inp.get("defaults") else {"use_geometric_center": geo}
        res = st.rigid_transform(rotation_matrix=Rf, translation=targ, **kw)
        out = np.asarray(res.atom_coordinate, float).T
        ok = res is not st and np.array_equal(st.atom_coordinate, xs.T) and list(res.element_symbol) == list(st.element_symbol) \
            and list(res.atom_name) == list(st.atom_name) and len(res.atom_coordinate) == N
        ctx.spec("Structure.rigid_transform returns a new structure and leaves the original alone", inp, bool(ok),
                 key="structure:copy")
    else:
        xin = present(xs.astype(np.int64) if mismatch else xs.astype(cdt), form.get("layout", "C"))
        out = present(np.full(xs.shape, 7.0, dtype=cdt), form.get("out_layout", "C"))
        kw = {}
        msin = None
        if len(Mk):
            om = present(np.full(ms.shape, 5.0, dtype=cdt), form.get("out_layout", "C"))
            msin = present(ms.astype(cdt), form.get("layout", "C"))
            kw = {"coordinates_mask": msin, "out_mask": om}
        if center is not None:
            kw["center"] = np.array([float(v) for v in center], dtype=cdt)
        if not inp.get("defaults"):
            kw["use_geometric_center"] = geo
        crt(coordinates=xin, rotation_matrix=Rf, out=out, translation=targ, **kw)
        same_t = np.array_equal(np.asarray(targ, dtype=float), tf.astype(np.float32).astype(float) if tk == "float32" else tf)
        ctx.spec("inputs are not modified", inp, np.array_equal(np.asarray(xin), xs) and same_t and np.array_equal(Rf, R0)
                 and (msin is None or np.array_equal(np.asarray(msin), ms)), key="coords:input-mutated")
        out = np.asarray(out, float)
        om = None if om is None else np.asarray(om, float)
    scale = 1.0 + float(np.abs(xs).max()) + float(np.abs(tf).max())
    # float64: 1e-7 / 1e-9 relative as before; float32 (eps 6e-8, a handful of operations, means over N points): 2e-5
    f32 = cdt == np.float32 or form.get("R_dtype") == "float32" or tk == "float32"
    tol_m = (2e-5 if f32 else TOL_CO) * scale
    tol_s = (2e-5 if f32 else 1e-7) * scale
    if model and N <= 200:
        mo = ctx.driver.call("c06.coords", x=[frs(p) for p in X], R=frm(Rq), t=frs(t),
                             center=None if center is None else frs(center), geo=geo,
                             mask=[frs(p) for p in Mk], dtypeMismatch=mismatch)
        wo = np.array([[unfr(v) for v in p] for p in mo["out"]]).T
        skip = False
        if mismatch:
            # astype(int) of a value that is an integer in exact arithmetic depends on float rounding
            pre = ctx.driver.call("c06.coords", x=[frs(p) for p in X], R=frm(Rq), t=frs(t), center=None, geo=False, mask=[])
            pv_ = np.array([[unfr(v) for v in p] for p in pre["out"]])
            skip = bool(np.any(np.abs(pv_ - np.rint(pv_)) < 1e-6))
            ctx.count("coords:dtype-mismatch" + (":skipped-near-integer" if skip else ""))
        if geo:
            # `(axis_max - axis_min) // 2` is discontinuous: when the exact extent is an even integer the float
            # result may fall on either side (float32: also when it is within rounding of one)
            ext = [max(col) - min(col) for col in zip(*[[sum(Rq[i][j] * p[j] for j in range(d)) for i in range(d)] for p in X])]
            skip = any((e / 2).denominator == 1 or (f32 and abs(float(e / 2) - round(float(e / 2))) < 1e-3) for e in ext)
            if skip:
                ctx.count("coords:geo:skipped-floor-tie")
        if not skip:
            ctx.agree("matching_utils.rigid_transform == coordsTransform" + ("Geo" if geo else ""), inp,
                      bool(np.abs(out - wo).max() <= tol_m), True)
            if om is not None:
                wm = np.array([[unfr(v) for v in p] for p in mo["mask"]]).reshape(len(Mk), d).T
                ctx.agree("matching_utils.rigid_transform(mask) == coordsTransform.2", inp,
                          bool(np.abs(om - wm).max() <= tol_m), True)
    # ---- property clauses
    sub = slice(0, N) if N <= 400 else slice(0, 40)        # large sets: 40 points against all others
    dist_in = np.linalg.norm(xs[:, sub, None] - xs[:, None, :], axis=0)
    dist_out = np.linalg.norm(out[:, sub, None] - out[:, None, :], axis=0)
    ctx.spec("coordinate version preserves all pairwise distances", inp, bool(np.abs(dist_in - dist_out).max() <= tol_s),
             {"maxerr": float(np.abs(dist_in - dist_out).max())}, key="coords:distances")
    cen = xs.mean(axis=1)
    target = (cen if center is None else np.array([float(v) for v in center])) + tf
    if not geo:
        key = "coords:centroid:dtype-mismatch" if mismatch else "coords:centroid"
        cerr = float(np.abs(out.mean(axis=1) - target).max())
        ctx.spec("coordinate version moves the centroid by exactly the translation", inp, cerr <= tol_s,
                 {"err": cerr}, key=key)
        if not mismatch:
            want = Rf64 @ (xs - cen[:, None]) + target[:, None]
            ferr = float(np.abs(out - want).max())
            ctx.spec("coordinate version is R(x - centroid) + centroid + t", inp, ferr <= tol_s, {"err": ferr},
                     key="coords:formula")
            if om is not None:
                wantm = Rf64 @ (ms - cen[:, None]) + target[:, None]
                merr = float(np.abs(om - wantm).max())
                ctx.spec("coordinate mask is moved by the same map", inp, merr <= tol_s, {"err": merr}, key="coords:mask")
    else:
        # use_geometric_center=True: rotated set re-boxed; orientation must still be R (not R^T, not a mirror)
        rel_in = xs - xs[:, :1]
        rel_out = out - out[:, :1]
        oerr = float(np.abs(rel_out - Rf64 @ rel_in).max())
        ctx.spec("coordinate version (geometric centre) rotates by R", inp, oerr <= tol_s, {"err": oerr}, key="coords:geo-rotation")
    ctx.count(f"coords:{d}D:{'geo' if geo else 'centroid'}:via={via}")
    ctx.count("coords:center=" + ("given" if center is not None else "none"))
    if form:
        ctx.count(f"coords:dtype={cdt.name}")
        ctx.count(f"coords:layout={form.get('layout', 'C')}")
        ctx.count(f"coords:out-layout={form.get('out_layout', 'C')}")
        ctx.count(f"coords:t={tk}:R={form.get('R_dtype', 'float64')}/{form.get('R_layout', 'C')}")
    if N > 400:
        ctx.count("coords:large-N")
    ctx.distinct(("coords", inp.get("x") or inp.get("xgen"), inp["R"], inp["t"], geo, via, inp.get("center"), mismatch, sorted(form.items())))


def case_agree(ctx, inp, model=True):
    """array version and coordinate version on the same data: the voxel coordinates of an array, moved by the
    coordinate version, are where the array version puts the values"""
    be = _be()
    from tme.matching_utils import rigid_transform as crt
    shape, R, t, order = tuple(inp["shape"]), inp["R"], inp["t"], inp["order"]
    d = len(shape)
    form = inp.get("form") or {}
    a = np.array(inp["data"], dtype=np.dtype(form.get("dtype", "float32"))).reshape(shape)
    Rf, tf = np.array(R, float), np.array(t, float)
    out, _ = be.rigid_transform(present(a, form.get("layout", "C")), Rf, translation=tf, use_geometric_center=True, order=order)
    out = np.asarray(out, float)
    grid = present(np.indices(shape).reshape(d, -1).astype(float), form.get("coords_layout", "C"))     # all voxel coordinates: centroid = (n-1)/2
    moved = present(np.full(grid.shape, 7.0), form.get("out_layout", "C"))
    crt(coordinates=grid, rotation_matrix=Rf, out=moved, translation=tf)
    moved = np.asarray(moved, float)
    mi = np.rint(moved).astype(int)
    ok = bool(np.abs(moved - mi).max() <= 1e-9)
    n = np.array(shape)[:, None]
    inside = np.all((mi >= 0) & (mi < n), axis=0)
    vals = a.reshape(-1)
    if ok:
        got = out[tuple(mi[:, inside])]
        ok = bool(np.abs(got - vals[inside]).max() <= TOL_GRID) if inside.any() else True
        # and nothing else is non-zero
        rest = out.copy()
        rest[tuple(mi[:, inside])] = 0
        ok = ok and bool(np.abs(rest).max() <= TOL_GRID)
    ctx.spec("array and coordinate implementations agree on the same data", inp, ok, key="agree:array-vs-coords")
    ctx.count(f"agree:{d}D" + (":cube" if len(set(shape)) == 1 else ":non-cubic"))
    ctx.distinct(("agree", shape, R, t, order, sorted(form.items())))


def _grid_ok(out, ref, R, t, tol=TOL_GRID):
    """out == ref moved by the grid element (R, t), either composition order (see case_grid); None = not a grid map"""
    w1 = spec_forward_grid(ref, R, t)
    if w1 is None:
        return None, None
    e = float(np.abs(np.asarray(out, float) - w1).max())
    if any(t) and np.array(R).tolist() != np.eye(len(t), dtype=int).tolist():
        w2 = spec_forward_grid(ref, R, t, after=True)
        if w2 is not None:
            e = min(e, float(np.abs(np.asarray(out, float) - w2).max()))
    return e <= tol, e


def case_sequence(ctx, inp, model=True):
    """A *sequence* of calls in one process on persistent objects, as the scoring loops and the optimiser issue them: the
    same array / mask objects (content possibly replaced in place), the same output buffers (never cleared), one backend
    object; shape, rotation, translation (given / left out), order (given / default), mask (given / left out), centre
    mode and `cache` vary from call to call.  Every call must satisfy the grid clauses for the arguments of *that* call:
    nothing may depend on what was transformed before.  Arrays are regenerated from inp["seed"], so the record replays."""
    bk = _backend(inp.get("via", "backend"))
    r = np.random.default_rng(int(inp["seed"]))
    arrs, masks, bufs, mbufs = {}, {}, {}, {}
    bad = None
    kept = []        # (step, result object, its value when returned): library-allocated results must not be overwritten later
    for si, st in enumerate(inp["steps"]):
        shape = tuple(st["shape"])
        d = len(shape)
        if shape not in arrs or st.get("newobj"):
            arrs[shape] = r.integers(-5, 10, size=shape).astype(np.float32)
            masks[shape] = (r.random(shape) > 0.5).astype(np.float32)
        elif st.get("refill"):
            arrs[shape][...] = r.integers(-5, 10, size=shape)      # same object, new content
            masks[shape][...] = r.random(shape) > 0.5
        arr, msk = arrs[shape], masks[shape]
        ref, mref = arr.astype(float), msk.astype(float)
        R, t = st["R"], st.get("t")
        kw = {}
        if t is not None:
            kw["translation"] = np.array(t, float)
        if st.get("order") is not None:
            kw["order"] = int(st["order"])
        order = 3 if st.get("order") is None else int(st["order"])
        if st.get("geo", True):
            kw["use_geometric_center"] = True      # else: backend default (centre of mass); only issued with R = 1
        if st.get("mask"):
            kw["arr_mask"] = msk
        if st.get("cache"):
            kw["cache"] = True
        bshape = tuple(st.get("bufshape") or shape)
        shadow = None
        if st.get("buf") == "persist":
            if bshape not in bufs:
                bufs[bshape] = np.full(bshape, 77, np.float32)
                mbufs[bshape] = np.full(bshape, 55, np.float32)
            kw["out"] = bufs[bshape]
            shadow = bufs[bshape].copy()       # what the buffer holds from earlier calls
            if st.get("mask"):
                kw["out_mask"] = mbufs[bshape]
        elif st.get("buf") == "fresh":
            kw["out"] = np.zeros(shape, np.float32)
        out, om = bk.rigid_transform(arr, np.array(R, dtype=np.dtype(st.get("R_dtype", "float64"))), **kw)
        corner = tuple(slice(0, s_) for s_ in shape)
        tt = [0] * d if t is None else t
        ok, err = _grid_ok(np.asarray(out)[corner], ref, R, tt)
        why = None
        if ok is False:
            why = {"step": si, "what": "data", "maxerr": err}
        elif not np.array_equal(arr, ref):
            why = {"step": si, "what": "input array modified"}
        elif (om is None) != (not st.get("mask")):
            why = {"step": si, "what": "mask returned although none was passed" if om is not None else "no mask returned"}
        elif om is not None and order <= 1:
            okm, errm = _grid_ok(np.asarray(om)[corner], mref, R, tt)
            if okm is False:
                why = {"step": si, "what": "mask", "maxerr": errm}
        if why is None and shadow is not None:
            shadow[corner] = kw["out"][corner]
            if out is not kw["out"] or not np.array_equal(shadow, kw["out"]):
                why = {"step": si, "what": "buffer not used / written outside the leading corner"}
        ctx.count("sequence:steps")
        if why is not None:
            bad = why
            break
        if "out" not in kw:
            kept.append((si, out, np.array(out, copy=True)))
        if om is not None and "out_mask" not in kw:
            kept.append((si, om, np.array(om, copy=True)))
    if bad is None:
        for si, obj, val in kept:
            if not np.array_equal(np.asarray(obj), val):
                bad = {"step": si, "what": "the array returned by this call was overwritten by a later call"}
                break
    ctx.spec("grid transform is exact whatever was transformed before (persistent arrays, buffers and backend object)",
             inp, bad is None, bad, key="grid:call-sequence")
    ctx.distinct(("sequence", inp["seed"], len(inp["steps"])))
    ctx.count("sequence")


def case_dseq(ctx, inp, model=True):
    """One Density object transformed repeatedly (optional arguments given in one call and left out in the next; results
    optionally transformed again): every result is the grid image of the data the object holds at call time, the object
    itself and its metadata stay as they are."""
    from tme import Density
    r = np.random.default_rng(int(inp["seed"]))
    shape = tuple(inp["shape"])
    d = len(shape)
    dt = np.dtype(inp.get("dtype", "float32"))
    data = r.integers(-5, 10, size=shape).astype(dt)
    origin = np.array(inp.get("origin") or [0.0] * d, float)
    rate = np.array(inp.get("sampling_rate") or [1.0] * d, float)
    dens = Density(data.copy(), origin=origin.copy(), sampling_rate=rate.copy())
    bad = None
    kept = []        # every returned Density keeps the values it was returned with
    for si, st in enumerate(inp["steps"]):
        cur = np.array(dens.data, dtype=float)
        kw = {"rotation_matrix": np.array(st["R"], float)}
        if st.get("t") is not None:
            kw["translation"] = np.array(st["t"], float)
        if st.get("order") is not None:
            kw["order"] = int(st["order"])
        if st.get("geo") is not None:
            kw["use_geometric_center"] = bool(st["geo"])       # only True is issued: default and explicit must agree
        res = dens.rigid_transform(**kw)
        tt = [0] * d if st.get("t") is None else st["t"]
        ok, err = _grid_ok(res.data, cur, st["R"], tt)
        if ok is False:
            bad = {"step": si, "what": "data", "maxerr": err}
        elif not np.array_equal(np.asarray(dens.data, float), cur) or res is dens:
            bad = {"step": si, "what": "the transformed object itself was modified"}
        elif not (np.allclose(res.origin, origin) and np.allclose(res.sampling_rate, rate)
                  and np.allclose(dens.origin, origin) and np.allclose(dens.sampling_rate, rate)):
            bad = {"step": si, "what": "origin / sampling rate changed"}
        if bad is not None:
            break
        kept.append((si, res, np.array(res.data, copy=True)))
        if st.get("chain"):
            dens = res
        ctx.count("dseq:steps")
    if bad is None:
        for si, obj, val in kept:
            if not np.array_equal(np.asarray(obj.data), val):
                bad = {"step": si, "what": "the Density returned by this call was overwritten by a later call"}
                break
    ctx.spec("Density.rigid_transform: every call of a sequence on one object is the exact grid image of its data", inp,
             bad is None, bad, key="density:call-sequence")
    ctx.distinct(("dseq", inp["seed"], shape, len(inp["steps"])))
    ctx.count("dseq")


def case_sseq(ctx, inp, model=True):
    """One Structure and one coordinate array / output buffer reused over a sequence of calls (Structure method and the
    plain function interleaved; translation as array / tuple; centre modes alternating; coordinates replaced in place):
    each call obeys the coordinate clauses for its own arguments."""
    from tme.matching_utils import rigid_transform as crt
    r = np.random.default_rng(int(inp["seed"]))
    N, d = int(inp["N"]), 3
    xs = (r.integers(-80, 81, size=(N, d)) / 4.0)
    st_obj = _structure(xs.copy())
    coords = np.ascontiguousarray(xs.T)          # persistent (d, N) array for the plain function
    outbuf = np.full((d, N), 7.0)
    bad = None
    kept = []
    for si, st in enumerate(inp["steps"]):
        Rf = fl(unrat_rows(st["R"]))
        tf = np.array([unfr(v) for v in st["t"]], float)
        geo = bool(st.get("geo"))
        if st.get("refill"):
            coords[...] = r.integers(-80, 81, size=(d, N)) / 4.0
        if st["call"] == "structure":
            src = np.asarray(st_obj.atom_coordinate, float).T.copy()
            kw = {"use_geometric_center": geo} if st.get("geo") is not None else {}
            res = st_obj.rigid_transform(rotation_matrix=Rf, translation=tuple(tf.tolist()) if st.get("tuple") else tf, **kw)
            out = np.asarray(res.atom_coordinate, float).T
            same = np.array_equal(np.asarray(st_obj.atom_coordinate, float).T, src)
            kept.append((si, res, np.array(res.atom_coordinate, copy=True)))
            if st.get("chain"):
                st_obj = res
        else:
            src = coords.copy()
            kw = {"use_geometric_center": geo} if st.get("geo") is not None else {}
            crt(coordinates=coords, rotation_matrix=Rf, out=outbuf, translation=tf, **kw)
            out = outbuf.copy()
            same = np.array_equal(coords, src)
        scale = 1.0 + float(np.abs(src).max()) + float(np.abs(tf).max())
        cen = src.mean(axis=1)
        if not same:
            bad = {"step": si, "what": "input coordinates modified"}
        elif geo:
            e = float(np.abs((out - out[:, :1]) - Rf @ (src - src[:, :1])).max())
            if e > 1e-7 * scale:
                bad = {"step": si, "what": "geometric-centre call does not rotate by R", "err": e}
        else:
            e = float(np.abs(out - (Rf @ (src - cen[:, None]) + (cen + tf)[:, None])).max())
            if e > 1e-7 * scale:
                bad = {"step": si, "what": "not R(x - centroid) + centroid + t", "err": e}
        ctx.count("sseq:steps")
        if bad is not None:
            break
    if bad is None:
        for si, obj, val in kept:
            if not np.array_equal(np.asarray(obj.atom_coordinate), val):
                bad = {"step": si, "what": "the Structure returned by this call was changed by a later call"}
                break
    ctx.spec("coordinate version: every call of a sequence on one Structure / one coordinate array obeys R(x-centroid)+centroid+t",
             inp, bad is None, bad, key="coords:call-sequence")
    ctx.distinct(("sseq", inp["seed"], N, len(inp["steps"])))
    ctx.count("sseq")


_CASES = {"grid": case_grid, "matrix": case_matrix, "linear": case_linear, "linexact": case_linexact, "com": case_com, "coords": case_coords,
          "agree": case_agree, "sequence": case_sequence, "dseq": case_dseq, "sseq": case_sseq}


# ----------------------------------------------------------------------------------------------
# obligations tied to the source
# ----------------------------------------------------------------------------------------------
def _obligations(ctx):
    be = _be()
    from tme import Density, Structure
    from tme import matching_utils
    from tme.backends.npfftw_backend import NumpyFFTWBackend
    mo = ctx.driver.call("c06.defaults")
    fns = {"NumpyFFTWBackend.rigid_transform": NumpyFFTWBackend.rigid_transform, "Density.rigid_transform": Density.rigid_transform,
           "Structure.rigid_transform": Structure.rigid_transform, "matching_utils.rigid_transform": matching_utils.rigid_transform}
    got_geo, got_order = {}, {}
    for k, f in fns.items():
        ps = inspect.signature(f).parameters
        if "use_geometric_center" in ps:
            got_geo[k] = ps["use_geometric_center"].default
        if "order" in ps:
            got_order[k] = ps["order"].default
    ctx.obligation("defaults:use_geometric_center == model.defaultGeometric", got_geo == mo["geometric"], {"repo": got_geo, "model": mo["geometric"]})
    ctx.obligation("defaults:order == model.defaultOrder", got_order == mo["order"], {"repo": got_order, "model": mo["order"]})
    # scipy contract of the resampler the backend uses: an index ramp read at order 1 returns its own source coordinate
    rng = ctx.rng("contract")
    ok, detail = True, None
    for d, shape in ((2, (9, 8)), (3, (6, 7, 5))):
        A = np.eye(d) + rng.integers(-2, 3, size=(d, d)) / 8.0
        off = rng.integers(-4, 5, size=d) / 4.0
        M = np.eye(d + 1)
        M[:d, :d], M[:d, d] = A, off
        mo = ctx.driver.call("c06.src", rinv=frm(A.tolist()), t=frs((-off).tolist()), c=[0] * d,
                             pts=[list(map(int, o)) for o in np.ndindex(*shape)])
        src = np.array([[unfr(x) for x in r] for r in mo]).reshape(shape + (d,))
        for ax in range(d):
            ramp = np.indices(shape)[ax].astype(float)
            out = np.zeros(shape)
            be.affine_transform(input=ramp, matrix=M, mode="constant", output=out, order=1, prefilter=True)
            n1 = np.array(shape) - 1
            inside = np.all((src > 1e-9) & (src < n1 - 1e-9), axis=-1)
            outside = np.any((src < -1e-9) | (src > n1 + 1e-9), axis=-1)
            if np.abs(out[inside] - src[..., ax][inside]).max(initial=0) > 1e-9 or np.abs(out[outside]).max(initial=0) > 0:
                ok, detail = False, {"shape": shape, "axis": ax}
    ctx.obligation("scipy-contract: backend.affine_transform reads M[:d,:d]·o + M[:d,d], zero outside [0,n-1]", ok, detail)


# ----------------------------------------------------------------------------------------------
# streams
# ----------------------------------------------------------------------------------------------
def _rand_data(rng, shape, full=True):
    a = rng.integers(-5, 10, size=shape)
    if not full:
        a[rng.random(shape) < 0.5] = 0
    if not a.any():
        a.reshape(-1)[0] = 3
    return [int(v) for v in a.reshape(-1)]


def _rand_mask(rng, shape):
    m = (rng.random(shape) > 0.5).astype(int)
    return [int(v) for v in m.reshape(-1)]


def _shapes(d, thorough):
    if d == 2:
        base = [(4, 4), (5, 5), (6, 6), (7, 7), (3, 3), (2, 2), (5, 6), (6, 4), (7, 4), (5, 7), (8, 6), (1, 5), (13, 13), (9, 9)]
        if thorough:
            base += [(8, 8), (3, 8), (9, 5), (11, 11), (16, 16), (1, 1), (5, 1)]
    else:
        base = [(4, 4, 4), (5, 5, 5), (3, 3, 3), (5, 6, 5), (4, 4, 6), (6, 5, 5), (3, 5, 7), (4, 6, 4), (2, 3, 2), (1, 4, 4), (5, 1, 5)]
        if thorough:
            base += [(6, 6, 6), (7, 7, 7), (5, 5, 4), (6, 4, 6), (4, 5, 6), (9, 9, 2), (3, 3, 1)]
    return base


def _pick(rng, seq):
    return seq[int(rng.integers(0, len(seq)))]


def _rand_form(rng, c, density=False):
    """presentation of a grid / linear case: layouts, dtypes, scale and offset, kinds of R and t (see case_grid)"""
    order, has_mask, t = c.get("order", 1), c.get("mask") is not None, c["t"]
    f = {"layout": _pick(rng, IN_LAYOUTS)}
    dtype = _pick(rng, ["float32", "float32", "float32", "float64", "float64", "int16", "int32", "int64", "int8", "uint8"])
    f["dtype"] = dtype
    if dtype.startswith("float"):
        f["scale_exp"] = _pick(rng, [-30, -30, -20, -10, 0, 0, 5, 10])      # 2^-30 ~ 1e-9 ... 2^10 ~ 1e3, exact in float32
        f["offset"] = _pick(rng, [0, 0, 0, 100, 1000])
    elif dtype == "uint8":
        f["offset"] = _pick(rng, [5, 100, 240])      # data is -5 .. 9: all values stay inside 0 .. 255
    elif dtype == "int8":
        f["offset"] = _pick(rng, [0, 100, -120])     # inside -128 .. 127
    else:
        f["offset"] = _pick(rng, [0, 0, 1000, -1000])
    if has_mask:
        f["mask_layout"] = _pick(rng, IN_LAYOUTS)
        f["mask_dtype"] = _pick(rng, ["float32", "float64"] + (["bool", "int32", "uint8"] if order <= 1 else []))
    f["R_dtype"] = _pick(rng, ["float64", "float32", "int64"])
    f["R_layout"] = _pick(rng, ["C", "F", "offset", "strided"])
    f["t_form"] = "omit" if (not any(t) and rng.random() < 0.5) else _pick(rng, ["float64", "float32", "int64"])
    return f


def _rand_out_form(rng, form):
    o = {"layout": _pick(rng, OUT_LAYOUTS), "mask_layout": _pick(rng, OUT_LAYOUTS)}
    if rng.random() < 0.25:
        o["dtype"] = "float64"           # a buffer of higher precision than the data
    return o


def gen_grid(ctx, rng, wide=False):
    """all proper grid rotations of every shape they leave invariant, a sample of the others"""
    cases = []
    for d in (2, 3):
        props = signed_perms(d, True)
        mirrors = signed_perms(d, False)
        for shape in _shapes(d, ctx.thorough or wide):
            for R in props + mirrors:
                inv = leaves_invariant(R, shape)
                proper = R in props
                if not inv and rng.random() > (0.5 if wide else 0.15):
                    continue       # non-invariant: same-parity ones are partly modelled, keep a sample
                if not proper and rng.random() > (0.6 if wide else 0.2):
                    continue
                orders = [0, 1, 2, 3] if (ctx.thorough or wide) else [int(rng.integers(0, 4)), 3] if inv and proper else [int(rng.integers(0, 4))]
                for order in sorted(set(orders)):
                    use_mask = bool(rng.random() < 0.5)
                    tr = [0] * d
                    if rng.random() < 0.25:
                        tr = [int(v) for v in rng.integers(-2, 3, size=d)]
                    c = {"kind": "grid", "shape": list(shape), "R": R, "t": tr, "order": order,
                         "data": _rand_data(rng, shape, full=bool(rng.random() < 0.7)),
                         "mask": _rand_mask(rng, shape) if use_mask else None,
                         "buffers": _pick(rng, [False, False, False, False, "both", "both", "both", "out", "mask"]),
                         "via": "backend64" if rng.random() < 0.1 else "backend"}
                    if c["buffers"] == "mask" and not use_mask:
                        c["buffers"] = False
                    if c["buffers"] in ("both", "out") and rng.random() < 0.6:
                        c["bufshape"] = [int(s_ + v) for s_, v in zip(shape, rng.integers(0, 4, size=d))]
                    if rng.random() < 0.5:
                        c["form"] = _rand_form(rng, c)
                        if c["buffers"]:
                            c["out_form"] = _rand_out_form(rng, c["form"])
                    cases.append(c)
    # identity + integer translations (incl. moving everything out)
    for d in (2, 3):
        I = np.eye(d, dtype=int).tolist()
        for shape in _shapes(d, ctx.thorough or wide)[: (12 if ctx.thorough or wide else 6)]:
            ts = [[0] * d] + [[int(v) for v in rng.integers(-3, 4, size=d)] for _ in range(4 if not ctx.thorough else 10)]
            ts.append([shape[0]] + [0] * (d - 1))
            ts.append([0] * (d - 1) + [-(shape[-1] - 1)])
            ts.append([0] * (d - 1) + [1])
            for tr in ts:
                for order in ([0, 1, 2, 3] if (ctx.thorough or wide) else [int(rng.integers(0, 4)), 3]):
                    c = {"kind": "grid", "shape": list(shape), "R": I, "t": tr, "order": order,
                         "data": _rand_data(rng, shape), "mask": _rand_mask(rng, shape) if rng.random() < 0.5 else None,
                         "buffers": _pick(rng, [False, False, "both", "out"]), "via": "backend"}
                    if rng.random() < 0.5:
                        c["form"] = _rand_form(rng, c)
                        if c["buffers"]:
                            c["out_form"] = _rand_out_form(rng, c["form"])
                    cases.append(c)
    # larger 2-D arrays (the centre (n-1)/2 far from the origin; extents 1 mod 4, powers of two, non-fast lengths)
    for s_ in ((33, 33), (64, 64)) + (((37, 37), (29, 1), (50, 50)) if ctx.thorough or wide else ()):
        for R in signed_perms(2, True):
            if not leaves_invariant(R, s_):
                continue
            c = {"kind": "grid", "shape": list(s_), "R": R, "t": [0, 0] if rng.random() < 0.7 else [int(v) for v in rng.integers(-9, 10, size=2)],
                 "order": int(rng.integers(0, 4)), "data": _rand_data(rng, s_), "mask": _rand_mask(rng, s_) if rng.random() < 0.4 else None,
                 "buffers": False, "via": "backend"}
            if rng.random() < 0.5:
                c["form"] = _rand_form(rng, c)
            cases.append(c)
    # Density.rigid_transform wrapper (default: geometric centre, order 3); origin / sampling rate are metadata only
    for d in (2, 3):
        props = signed_perms(d, True)
        for shape in ((5, 5), (6, 6), (9, 9)) if d == 2 else ((4, 4, 4), (5, 5, 5), (3, 3, 6)):
            for R in props:
                if not leaves_invariant(R, shape):
                    continue
                if rng.random() < (1.0 if ctx.thorough or wide else 0.6):
                    c = {"kind": "grid", "shape": list(shape), "R": R, "t": [0] * d, "order": 3,
                         "data": _rand_data(rng, shape), "mask": None, "via": "density", "defaults": True}
                    if rng.random() < 0.6:
                        c["order"] = int(rng.integers(0, 4))
                        c["defaults"] = bool(rng.random() < 0.5)
                    if rng.random() < 0.3:
                        c["t"] = [int(v) for v in rng.integers(-1, 2, size=d)]
                    if rng.random() < 0.7:
                        c["form"] = _rand_form(rng, c)
                        c["origin"] = [float(v) for v in rng.integers(-40, 41, size=d) / 4.0]
                        c["sampling_rate"] = [float(v) for v in rng.integers(1, 13, size=d) / 4.0]
                    cases.append(c)
            for _ in range(2):
                # dynamic range above 1/eps: the clean-up of Density.rigid_transform is active (model: cleanNoise)
                dtn = _pick(rng, ["float32", "float64"])
                big = 2 ** (24 if dtn == "float32" else 53)
                data = [int(v) for v in rng.integers(-3, 4, size=int(np.prod(shape)))]
                for k in rng.choice(len(data), size=2, replace=False):
                    data[int(k)] = int(big * _pick(rng, [1, -1]))
                cases.append({"kind": "grid", "shape": list(shape), "R": _pick(rng, [R for R in props if leaves_invariant(R, shape)]),
                              "t": [0] * d, "order": int(rng.integers(0, 2)), "data": data, "mask": None, "via": "density",
                              "form": {"dtype": dtn, "scale_exp": _pick(rng, [-30, 0, 10]), "layout": _pick(rng, IN_LAYOUTS)}})
            for _ in range(6):
                c = {"kind": "grid", "shape": list(shape), "R": np.eye(d, dtype=int).tolist(),
                     "t": [int(v) for v in rng.integers(-2, 3, size=d)], "order": int(rng.integers(0, 4)),
                     "data": _rand_data(rng, shape), "mask": None, "via": "density"}
                if rng.random() < 0.5:
                    c["t"] = [0] * d
                if rng.random() < 0.7:
                    c["form"] = _rand_form(rng, c)
                    c["origin"] = [float(v) for v in rng.integers(-40, 41, size=d) / 4.0]
                    c["sampling_rate"] = [float(v) for v in rng.integers(1, 13, size=d) / 4.0]
                cases.append(c)
    return cases


def gen_matrix(ctx, rng, n):
    cases = []
    for i in range(n):
        d = 2 + (i % 2)
        kind = i % 3
        if kind == 0:
            R = rational_rotation(rng, d)
            rinv = transpose(R)
        elif kind == 1:
            sp = signed_perms(d)
            R = [[Fraction(v) for v in r] for r in sp[int(rng.integers(0, len(sp)))]]
            rinv = transpose(R)
        else:
            # unimodular integer matrix (product of shears): inverse is not the transpose
            M = np.eye(d, dtype=int)
            Mi = np.eye(d, dtype=int)
            for _ in range(3):
                a, b = rng.choice(d, size=2, replace=False)
                k = int(rng.integers(-2, 3))
                E = np.eye(d, dtype=int)
                E[a, b] = k
                Ei = np.eye(d, dtype=int)
                Ei[a, b] = -k
                M, Mi = M @ E, Ei @ Mi
            R = [[Fraction(int(v)) for v in r] for r in M]
            rinv = [[Fraction(int(v)) for v in r] for r in Mi]
        t = None if rng.random() < 0.15 else [Fraction(int(v), 4) for v in rng.integers(-20, 21, size=d)]
        c = None if rng.random() < 0.15 else [Fraction(int(v), 8) for v in rng.integers(0, 80, size=d)]
        pts = [[int(v) for v in rng.integers(0, 12, size=d)] for _ in range(4)]
        cases.append({"kind": "matrix", "R": frm(R), "rinv": frm(rinv), "t": None if t is None else frs(t),
                      "c": None if c is None else frs(c), "pts": pts})
    return cases


def gen_linear(ctx, rng, n):
    cases = []
    for i in range(n):
        d = 2 if i % 3 else 3
        shape = tuple(int(v) for v in rng.integers(3, 8 if d == 2 else 6, size=d))
        small = bool(i % 5 == 4)
        if i % 10 == 9:
            small = "tiny"
            shape = tuple(int(v) for v in rng.integers(8, 14 if d == 2 else 10, size=d))
        R = rational_rotation(rng, d, small=small)
        t = [Fraction(int(v), 4) for v in rng.integers(-6, 7, size=d)] if rng.random() < 0.7 else [Fraction(0)] * d
        geo = bool(i % 4 != 3)
        data = rng.integers(-3, 10, size=shape) if not geo else rng.integers(-5, 10, size=shape)
        if not geo:
            # centre of mass with cutoff 0: negative voxels are ignored for the centre but still transformed
            data[rng.random(shape) < 0.3] = 0
            data.reshape(-1)[0] = 2
        c = {"kind": "linear", "shape": list(shape), "R": frm(R), "t": frs(t), "geo": geo, "small": small,
             "data": [int(v) for v in data.reshape(-1)], "defaults": bool(not geo and rng.random() < 0.5)}
        u = rng.random()
        if u < 0.35:
            c["mask"] = _rand_mask(rng, shape)       # the mask must use the data's centre (geometric or centre of mass)
        elif u < 0.5:
            c["via"] = "density"
        elif u < 0.6:
            c["via"] = "backend64"
        if rng.random() < 0.4:
            f = {"layout": _pick(rng, IN_LAYOUTS), "dtype": _pick(rng, ["float32", "float64"]),
                 "scale_exp": _pick(rng, [-30, -10, 0, 10]), "R_dtype": _pick(rng, ["float64", "float32"]),
                 "R_layout": _pick(rng, ["C", "F", "offset"])}
            if geo:
                f["offset"] = _pick(rng, [0, 0, 100])      # (centre of mass: the offset would make every voxel positive - also fine)
            c["form"] = f
        cases.append(c)
    return cases


def gen_linexact(ctx, rng, n):
    """signed permutations (all 4 / 24 proper ones and mirrors, whether or not they fix the shape) x translations in
    quarters, geometric centre, order 1; data: random / constant / affine ramp / blob with a margin (pure translations)"""
    cases = []
    perms = {2: signed_perms(2), 3: signed_perms(3)}
    for i in range(n):
        d = 2 if i % 3 else 3
        shape = tuple(int(v) for v in rng.integers(2, 8 if d == 2 else 6, size=d))
        mode = ("random", "constant", "ramp", "blob")[i % 4]
        ident = [[1 if a == b else 0 for b in range(d)] for a in range(d)]
        R = ident if (mode == "blob" or rng.random() < 0.15) else perms[d][int(rng.integers(len(perms[d])))]
        t = [Fraction(int(v), 4) for v in rng.integers(-6, 7, size=d)] if rng.random() < 0.8 else [Fraction(0)] * d
        c = {"kind": "linexact", "shape": list(shape), "R": R, "mode": mode}
        if mode == "random":
            data = rng.integers(-5, 10, size=shape)
        elif mode == "constant":
            k = int(rng.integers(-7, 8)) or 3
            data = np.full(shape, k)
            c["affine"] = [k] + [0] * d
        elif mode == "ramp":
            al, be_ = int(rng.integers(-5, 6)), [int(v) for v in rng.integers(-3, 4, size=d)]
            data = al + sum(be_[k] * np.indices(shape)[k] for k in range(d))
            c["affine"] = [al] + be_
        else:
            shape = tuple(max(4, s_) for s_ in shape)
            c["shape"] = list(shape)
            t = [Fraction(int(v), 4) for v in rng.integers(-4, 5, size=d)]
            data = np.zeros(shape, dtype=np.int64)
            ok_ax = [[x for x in range(shape[k]) if _suppok(shape[k], t[k], x)] for k in range(d)]
            if all(ok_ax):
                for x in itertools.product(*ok_ax):
                    if rng.random() < 0.7:
                        data[x] = int(rng.integers(-3, 10))
        c["t"] = frs(t)
        c["data"] = [int(v) for v in np.asarray(data).reshape(-1)]
        if rng.random() < 0.15:
            c["via"] = "backend64"
        cases.append(c)
    return cases


def gen_com(ctx, rng, n):
    cases = []
    sigma = 1.3
    margin = 4.5 * sigma
    for attempt in range(6 * n):        # bounded: a rejected draw is counted, never retried for ever
        if len(cases) >= n:
            break
        i = len(cases)
        d = 2 if i % 2 else 3
        s = int(rng.integers(18, 25)) if d == 3 else int(rng.integers(24, 40))
        shape = (s,) * d if rng.random() < 0.5 else tuple(int(s + v) for v in rng.integers(-2, 3, size=d))
        R = rational_rotation(rng, d, small=bool(attempt % 6 == 5))
        c = (np.array(shape) - 1) / 2
        r = min(shape) / 5.0
        blob = (c + rng.uniform(-r, r, size=d)).round(2)
        blob2 = (c + rng.uniform(-r, r, size=d)).round(2)
        t = [Fraction(int(v), 2) for v in rng.integers(-2, 3, size=d)] if rng.random() < 0.4 else [Fraction(0)] * d
        tf = np.array([float(v) for v in t])
        geo = bool(rng.random() < 0.8)
        # rotation centre: geometric, or (backend default) the centre of mass of the two blobs (weights 1 and 1/2)
        cu = c if geo else (blob + 0.5 * blob2) / 1.5
        ok = True
        for b in (blob, blob2):
            img = fl(R) @ (b + tf - cu) + cu
            ok = ok and np.all(img >= margin) and np.all(img <= np.array(shape) - 1 - margin) \
                and np.all(b >= margin) and np.all(b <= np.array(shape) - 1 - margin)
        if not ok:
            ctx.count("com:generator-rejected(blob would leave the box)")
            continue
        case = {"kind": "com", "shape": list(shape), "R": frm(R), "t": frs(t), "order": int(i % 4), "blob": blob.tolist(),
                "blob2": blob2.tolist(), "sigma": sigma, "mask": bool(rng.random() < 0.5), "geo": geo}
        u = rng.random()
        if u < 0.25:
            case["via"] = "density"
        if rng.random() < 0.5:
            case["form"] = {"amp": _pick(rng, [1e-9, 1e-6, 1e-3, 1.0, 30.0, 1e3]), "dtype": _pick(rng, ["float32", "float32", "float64"]),
                            "layout": _pick(rng, IN_LAYOUTS)}
        cases.append(case)
    return cases


def gen_coords(ctx, rng, n):
    cases = []
    for i in range(n):
        d = 2 if i % 3 == 0 else 3
        N = int(rng.integers(1, 12))
        x = [[Fraction(int(v), 4) for v in rng.integers(-80, 81, size=d)] for _ in range(N)]
        if i % 5 == 0:
            sp = signed_perms(d, True)
            R = [[Fraction(v) for v in r] for r in sp[int(rng.integers(0, len(sp)))]]
        else:
            R = rational_rotation(rng, d, small=bool(i % 11 == 3))
        t = [Fraction(int(v), 4) for v in rng.integers(-40, 41, size=d)]
        if i % 13 == 0:
            t = [Fraction(0)] * d
        geo = bool(i % 4 == 1)
        via = "structure" if (i % 7 == 2 and d == 3) else "function"
        center = [Fraction(int(v), 2) for v in rng.integers(-10, 11, size=d)] if (via == "function" and rng.random() < 0.25) else None
        maskpts = [[Fraction(int(v), 4) for v in rng.integers(-80, 81, size=d)] for _ in range(int(rng.integers(1, 5)))] \
            if (via == "function" and rng.random() < 0.5) else []
        c = {"kind": "coords", "x": [frs(p) for p in x], "R": frm(R), "t": frs(t), "geo": geo, "via": via,
             "center": None if center is None else frs(center), "maskpts": [frs(p) for p in maskpts],
             "defaults": bool((not geo) and rng.random() < 0.5)}
        if rng.random() < 0.4:
            c["form"] = {"dtype": _pick(rng, ["float64", "float64", "float32"]), "layout": _pick(rng, IN_LAYOUTS),
                         "out_layout": _pick(rng, OUT_LAYOUTS), "R_dtype": _pick(rng, ["float64", "float64", "float32"]),
                         "R_layout": _pick(rng, ["C", "F", "offset", "strided"]),
                         "t_kind": _pick(rng, ["ndarray", "list", "tuple", "float32"])}
        cases.append(c)
    # large point sets (more than 10 000 points: above any plausible chunking / algorithm-switch threshold)
    for i in range(3 if not ctx.thorough else 12):
        d = 3 if i % 2 == 0 else 2
        c = {"kind": "coords", "xgen": {"seed": int(rng.integers(0, 2**31)), "N": _pick(rng, [10001, 12345, 16384, 20000]), "d": d},
             "R": frm(rational_rotation(rng, d)), "t": frs([Fraction(int(v), 4) for v in rng.integers(-40, 41, size=d)]),
             "geo": bool(i % 3 == 2), "via": "structure" if (i % 3 == 1 and d == 3) else "function", "center": None, "maskpts": [],
             "defaults": False}
        cases.append(c)
    # dtype mismatch stream (integer coordinates, float64 out): the re-centring tail of the function
    # (kept small: its centroid clause fails under a known finding, and main.py keeps at most 500 failure records)
    for i in range(min(40, max(4, n // 10))):
        d = 2 + (i % 2)
        N = int(rng.integers(2, 9))
        x = [[Fraction(int(v)) for v in rng.integers(-20, 21, size=d)] for _ in range(N)]
        R = rational_rotation(rng, d)
        t = [Fraction(int(v), 4) for v in rng.integers(-40, 41, size=d)]
        cases.append({"kind": "coords", "x": [frs(p) for p in x], "R": frm(R), "t": frs(t), "geo": False, "via": "function",
                      "center": None, "maskpts": [], "dtypeMismatch": True})
    return cases


def gen_agree(ctx, rng, n):
    cases = []
    for i in range(n):
        d = 2 + (i % 2)
        s = int(rng.integers(3, 7))
        shape = (s,) * d
        if i % 4 == 3:      # non-cubic: one axis differs, rotations about it (and half turns) keep the box
            shape = tuple(int(v) for v in (list(shape[:-1]) + [int(rng.integers(1, 8))]))
        sp = [R for R in signed_perms(d, True) if leaves_invariant(R, shape)]
        if i % 3 == 0:
            R, t = np.eye(d, dtype=int).tolist(), [int(v) for v in rng.integers(-2, 3, size=d)]
        else:
            R, t = sp[int(rng.integers(0, len(sp)))], [0] * d
        c = {"kind": "agree", "shape": list(shape), "R": R, "t": t, "order": int(rng.integers(0, 4)),
             "data": _rand_data(rng, shape)}
        if rng.random() < 0.4:
            c["form"] = {"layout": _pick(rng, IN_LAYOUTS), "dtype": _pick(rng, ["float32", "float64", "int32"]),
                         "coords_layout": _pick(rng, IN_LAYOUTS), "out_layout": _pick(rng, OUT_LAYOUTS)}
        cases.append(c)
    return cases


def gen_sequences(ctx, rng, n):
    """call sequences on persistent objects (see case_sequence / case_dseq / case_sseq)"""
    cases = []
    for it in range(n):
        d = 2 if it % 2 else 3
        base = int(rng.integers(3, 7))
        shapes = [(base,) * d, (int(rng.integers(3, 7)),) * d, (base + 1,) * d]
        rots = signed_perms(d, proper=True)
        I = np.eye(d, dtype=int).tolist()
        steps = []
        for k in range(int(rng.integers(3, 8))):
            shape = shapes[0] if rng.random() < 0.6 else _pick(rng, shapes)
            st = {"shape": list(shape), "R": _pick(rng, rots) if rng.random() < 0.75 else I,
                  "order": _pick(rng, [0, 1, 2, 3, 3, None]), "mask": bool(rng.random() < 0.4), "cache": bool(rng.random() < 0.6),
                  "refill": bool(rng.random() < 0.3), "newobj": bool(rng.random() < 0.1),
                  "buf": _pick(rng, [None, "fresh", "persist", "persist"]), "R_dtype": _pick(rng, ["float64", "float32"])}
            u = rng.random()
            st["t"] = None if u < 0.5 else [0] * d if u < 0.6 else [int(v) for v in rng.integers(-2, 3, size=d)]
            if st["buf"] == "persist":
                big = max(max(s_) for s_ in shapes) + int(rng.integers(0, 3))
                st["bufshape"] = [big] * d if rng.random() < 0.7 else list(shape)
            if rng.random() < 0.12:
                st.update({"geo": False, "R": I, "t": None})      # backend default centre; exact only for the identity
            steps.append(st)
        cases.append({"kind": "sequence", "seed": int(rng.integers(0, 2**31)), "steps": steps,
                      "via": "backend64" if rng.random() < 0.1 else "backend"})
    for it in range(max(2, n // 4)):
        d = 2 if it % 2 else 3
        s_ = int(rng.integers(3, 7))
        shape = (s_,) * d
        rots = signed_perms(d, proper=True)
        steps = []
        for k in range(int(rng.integers(3, 7))):
            u = rng.random()
            steps.append({"R": _pick(rng, rots) if rng.random() < 0.7 else np.eye(d, dtype=int).tolist(),
                          "t": None if u < 0.45 else [int(v) for v in rng.integers(-2, 3, size=d)],
                          "order": _pick(rng, [None, None, 0, 1, 2, 3]), "geo": _pick(rng, [None, None, True]),
                          "chain": bool(rng.random() < 0.3)})
        cases.append({"kind": "dseq", "seed": int(rng.integers(0, 2**31)), "shape": list(shape), "steps": steps,
                      "dtype": _pick(rng, ["float32", "float32", "float64", "int16"]),
                      "origin": [float(v) for v in rng.integers(-20, 21, size=d) / 2.0],
                      "sampling_rate": [float(v) for v in rng.integers(1, 9, size=d) / 2.0]})
    for it in range(max(2, n // 4)):
        steps = []
        for k in range(int(rng.integers(3, 8))):
            steps.append({"call": _pick(rng, ["structure", "function"]), "R": frm(rational_rotation(rng, 3, small=bool(rng.random() < 0.15))),
                          "t": frs([Fraction(int(v), 4) for v in rng.integers(-40, 41, size=3)]),
                          "geo": _pick(rng, [None, None, False, True]), "tuple": bool(rng.random() < 0.4),
                          "refill": bool(rng.random() < 0.3), "chain": bool(rng.random() < 0.3)})
        cases.append({"kind": "sseq", "seed": int(rng.integers(0, 2**31)), "N": int(rng.integers(1, 30)), "steps": steps})
    return cases


def _run_cases(ctx, cases, model=True):
    import traceback
    from pv.driver import DriverError
    for c in cases:
        try:
            _CASES[c["kind"]](ctx, c, model)
        except DriverError:
            raise
        except Exception:
            # every generated case is a valid call: raising is a failing input of the property
            ctx.spec("implementation returns on a valid input", c, False, traceback.format_exc()[-1500:], key=c["kind"] + ":raised")


def _corpus(ctx):
    import glob
    import json
    import os
    from pv import env
    for f in sorted(glob.glob(os.path.join(env.VERIF, "corpus", "C06_*.json"))):
        rec = json.load(open(f))
        for c in rec if isinstance(rec, list) else [rec]:
            _run_cases(ctx, [c])
            ctx.count("corpus")


def run(ctx):
    _obligations(ctx)
    _corpus(ctx)
    rng = ctx.rng("main")
    _run_cases(ctx, gen_sequences(ctx, ctx.rng("sequences"), ctx.budget(60, 400)))
    grid = gen_grid(ctx, rng)
    _run_cases(ctx, grid)
    _run_cases(ctx, gen_matrix(ctx, rng, ctx.budget(300, 3000)))
    _run_cases(ctx, gen_linear(ctx, rng, ctx.budget(150, 1500)))
    _run_cases(ctx, gen_linexact(ctx, ctx.rng("linexact"), ctx.budget(100, 1200)))
    _run_cases(ctx, gen_com(ctx, rng, ctx.budget(48, 400)))
    _run_cases(ctx, gen_coords(ctx, rng, ctx.budget(600, 6000)))
    _run_cases(ctx, gen_agree(ctx, rng, ctx.budget(120, 800)))
    for c in grid[:1] + grid[len(grid) // 2: len(grid) // 2 + 1]:
        ctx.sample({k: v for k, v in c.items() if k not in ("data", "mask")})
    ctx.note("array version applies the translation before the rotation (x -> R(x+t-c)+c), the coordinate version after it "
             "(x -> R(x-centroid)+centroid+t); they coincide for t=0 or R=1, the cases the property states "
             "(Lean: array_translation_in_input_frame)")
    ctx.note("mask at orders 2/3 is resampled without prefilter, i.e. it is the B-spline smoothing of the moved mask; "
             "the clause 'moved by the same map' is evaluated as commutation with the grid group there")


def search(ctx):
    """Correspondence / an obligation broke without a failing clause in the main stream: widen every stream and
    evaluate the property's clauses only (no model)."""
    rng = ctx.rng("search")
    _run_cases(ctx, gen_grid(ctx, rng, wide=True), model=False)
    _run_cases(ctx, gen_matrix(ctx, rng, 600), model=False)
    _run_cases(ctx, gen_com(ctx, rng, 120), model=False)
    _run_cases(ctx, gen_coords(ctx, rng, 1500), model=False)
    _run_cases(ctx, gen_agree(ctx, rng, 200), model=False)
    _run_cases(ctx, gen_linear(ctx, rng, 300), model=False)
    _run_cases(ctx, gen_linexact(ctx, rng, 300), model=False)
    _run_cases(ctx, gen_sequences(ctx, rng, 150), model=False)


def replay(ctx, rec):
    inp = rec.get("input")
    if isinstance(inp, dict) and inp.get("kind") in _CASES:
        _CASES[inp["kind"]](ctx, inp, True)
    else:
        run(ctx)
