"""C06 — rigid transforms move data forward about the centre, exactly on the grid group.

Leg B: the real NumpyFFTWBackend.rigid_transform / _rigid_transform_matrix / center_of_mass,
matching_utils.rigid_transform, Density.rigid_transform and Structure.rigid_transform of the worktree
against the Lean model (Model/C06.lean), plus the clauses of the property evaluated directly (plain numpy,
independent of the model) on the implementation's outputs.

Every generated case is a JSON-able dict with a "kind"; `_CASES[kind](ctx, inp, model)` runs the real code on
it, compares with the model when `model` is true and evaluates the property's clauses — so run(), search()
and replay() share the same code."""
import inspect
import itertools
from fractions import Fraction

import numpy as np

ID = "C06"
RULE = ("arrays: 2-D/3-D, odd/even extents, all 4/24 proper grid rotations of every shape they leave invariant (+ mirrors, "
        "+ same-parity non-invariant shapes), integer translations incl. ones that push content out, orders 0-3, "
        "with/without mask, with/without caller-supplied output buffers; exact rational rotations (Pythagorean / "
        "integer-quaternion) with dyadic translations at order 1 (compared voxel by voxel with the exact model) and at "
        "orders 0-3 (centre of mass of a blob); coordinate sets / Structure with dyadic coordinates. "
        "distinct = distinct (kind, shape, rotation, translation, order, mask, centre) tuples; identity with zero "
        "translation is trivial and not counted")
ASSUMPTIONS = [
    "linalg.inv(R) enters the model as a parameter (the exact inverse); its contract inv(R)·R = 1 is checked on every case",
    "scipy.ndimage.affine_transform's coordinate contract (out[o] = interp(in, M[:d,:d]·o + M[:d,d]), zero outside "
    "[0, n-1]) is validated on every run through an index ramp; spline orders 2/3 are not modelled (property clauses "
    "are evaluated on them directly)",
    "real matrices are float32 (backend default): order-1 voxel comparisons skip voxels whose exact source lies within "
    "1e-3 of a face of the box or of a grid plane's kink is irrelevant (linear), tolerance 2e-3*max|data|",
    "coordinate version: same dtype for coordinates and out, except in the dedicated dtype-mismatch stream",
]
TRUSTED = ["C06: scipy spline interpolation (orders 2, 3) and prefilter are exercised, not modelled; order 1 and the "
           "grid group are modelled exactly"]

TOL_GRID = 1e-4      # |out - integer| on the grid group (measured 1e-15; DESIGN keeps 1e-5 for order 3)
TOL_LIN = 2e-3       # order-1 voxel comparison, relative to max|data| (float32 matrix + float32 data)
TOL_COM = {0: 0.75, 1: 0.08, 2: 0.08, 3: 0.08}   # centre-of-mass rule, arbitrary rotations (DESIGN §6: 0.05); order 0 rounds half-voxel
# sources all in one direction, so nearest neighbour is only good to half a voxel
TOL_CO = 1e-9        # coordinate version, float64


# ----------------------------------------------------------------------------------------------
# generators
# ----------------------------------------------------------------------------------------------
def signed_perms(d, proper=None):
    out = []
    for p in itertools.permutations(range(d)):
        for s in itertools.product([1, -1], repeat=d):
            M = [[0] * d for _ in range(d)]
            for i in range(d):
                M[i][p[i]] = s[i]
            det = int(round(np.linalg.det(np.array(M, float))))
            if proper is None or (det == 1) == proper:
                out.append(M)
    return out


def leaves_invariant(R, shape):
    return [sum(abs(R[i][j]) * shape[j] for j in range(len(shape))) for i in range(len(shape))] == list(shape)


def rational_rotation(rng, d):
    """exact rotation matrix with rational entries (rows of Fractions)"""
    if d == 2:
        while True:
            a, b = (int(x) for x in rng.integers(-6, 7, size=2))
            if a * a + b * b:
                break
        n = a * a + b * b
        return [[Fraction(a * a - b * b, n), Fraction(-2 * a * b, n)], [Fraction(2 * a * b, n), Fraction(a * a - b * b, n)]]
    while True:
        w, x, y, z = (int(v) for v in rng.integers(-4, 5, size=4))
        n = w * w + x * x + y * y + z * z
        if n:
            break
    F = Fraction
    return [[F(w * w + x * x - y * y - z * z, n), F(2 * (x * y - w * z), n), F(2 * (x * z + w * y), n)],
            [F(2 * (x * y + w * z), n), F(w * w - x * x + y * y - z * z, n), F(2 * (y * z - w * x), n)],
            [F(2 * (x * z - w * y), n), F(2 * (y * z + w * x), n), F(w * w - x * x - y * y + z * z, n)]]


def fr(x):
    f = Fraction(x)
    return [f.numerator, f.denominator]


def frs(v):
    return [fr(x) for x in v]


def frm(M):
    return [frs(r) for r in M]


def unfr(q):
    return q[0] / q[1]


def transpose(M):
    return [list(r) for r in zip(*M)]


def fl(M):
    return np.array([[float(x) for x in r] for r in M], dtype=float)


def unrat_rows(M):
    """recorded case -> Fractions (cases store rationals as [num, den])"""
    return [[Fraction(x[0], x[1]) if isinstance(x, (list, tuple)) else Fraction(x) for x in r] for r in M]


def unrat_vec(v):
    return [Fraction(x[0], x[1]) if isinstance(x, (list, tuple)) else Fraction(x) for x in v]


# ----------------------------------------------------------------------------------------------
# independent statement of the property (plain numpy; nothing from the model)
# ----------------------------------------------------------------------------------------------
def spec_forward_grid(a, R, t, after=False):
    """value at x moves to R(x + t - c) + c, c = (n-1)/2 (after=True: R(x - c) + c + t); content leaving the box is
    dropped, the rest is 0.  (t = 0: R(x - c) + c; R = 1: x + t.)  Returns None if some image is not a grid point."""
    a = np.asarray(a)
    n = np.array(a.shape)
    R = np.array(R, dtype=np.int64)
    out = np.zeros_like(a)
    c2 = n - 1
    for x in np.ndindex(*a.shape):
        y2 = (R @ (2 * np.array(x) - c2) + c2 + 2 * np.array(t)) if after else (R @ (2 * np.array(x) + 2 * np.array(t) - c2) + c2)
        if np.any(y2 % 2):
            return None
        y = y2 // 2
        if np.all(y >= 0) and np.all(y < n):
            out[tuple(y)] = a[x]
    return out


def com(a):
    a = np.asarray(a, float)
    g = np.indices(a.shape).reshape(a.ndim, -1)
    w = a.reshape(-1)
    return (g * w).sum(axis=1) / w.sum()


# ----------------------------------------------------------------------------------------------
# cases
# ----------------------------------------------------------------------------------------------
def _be():
    from tme.backends import backend as be
    return be


def case_grid(ctx, inp, model=True):
    """grid group through NumpyFFTWBackend.rigid_transform(use_geometric_center=True) (or Density.rigid_transform)"""
    be = _be()
    shape, R, t, order = tuple(inp["shape"]), inp["R"], inp["t"], inp["order"]
    d = len(shape)
    a = np.array(inp["data"], dtype=np.float32).reshape(shape)
    m = None if inp.get("mask") is None else np.array(inp["mask"], dtype=np.float32).reshape(shape)
    Rf = np.array(R, dtype=float)
    tf = np.array(t, dtype=float)
    via = inp.get("via", "backend")
    if via == "density":
        from tme import Density
        kw = {} if inp.get("defaults") else {"use_geometric_center": True}
        if not inp.get("defaults") or order != 3:
            kw["order"] = order
        dens = Density(a.copy(), origin=np.zeros(d), sampling_rate=np.ones(d))
        res = dens.rigid_transform(rotation_matrix=Rf, translation=tf, **kw)
        out, om = res.data, None
        ok_meta = np.allclose(res.origin, dens.origin) and np.allclose(res.sampling_rate, dens.sampling_rate)
        ctx.spec("Density.rigid_transform keeps origin and sampling rate", inp, bool(ok_meta), key="density:metadata")
    else:
        kw = {}
        bufshape = tuple(inp.get("bufshape") or shape)
        if inp.get("buffers"):
            # caller-supplied buffers (possibly larger, as the padded template buffers of the scoring loops),
            # deliberately dirty: every voxel of the leading corner must be overwritten
            kw["out"] = np.full(bufshape, 77, dtype=np.float32)
            if m is not None:
                kw["out_mask"] = np.full(bufshape, 55, dtype=np.float32)
        a_in, m_in = a.copy(), (None if m is None else m.copy())
        out, om = be.rigid_transform(a_in, Rf, arr_mask=m_in, translation=tf, use_geometric_center=True, order=order, **kw)
        ctx.spec("inputs are not modified", inp, np.array_equal(a_in, a) and (m is None or np.array_equal(m_in, m)),
                 key="array:input-mutated")
        if inp.get("buffers"):
            ctx.spec("result is written into the supplied buffers", inp, out is kw["out"] and (m is None or om is kw["out_mask"]),
                     key="array:buffers")
            if bufshape != shape:
                corner = tuple(slice(0, s_) for s_ in shape)
                for nm, full, fillv in (("out", out, 77), ("out_mask", om, 55)):
                    if full is None:
                        continue
                    rest = np.array(full, dtype=float)
                    rest[corner] = fillv
                    untouched = bool(np.all(rest == fillv)) or bool(np.all(np.where(rest == fillv, 0, rest) == 0))
                    ctx.spec("larger buffer: only the leading corner [0, shape) is written", inp, untouched,
                             key="array:buffer-corner")
                full_out, full_om = out, om
                out, om = out[corner], (None if om is None else om[corner])
    out = np.asarray(out, dtype=float)
    rinv = transpose(R)
    contract = np.allclose(np.linalg.inv(Rf), np.array(rinv, float), atol=1e-12)
    ctx.agree("linalg.inv contract (signed permutation: inverse = transpose)", inp, bool(contract), True)
    if model:
        big = via == "backend" and inp.get("buffers") and tuple(inp.get("bufshape") or shape) != shape
        mo = ctx.driver.call("c06.grid", shape=list(shape), data=[int(v) for v in a.reshape(-1)], rinv=rinv,
                             t=[int(v) for v in t], mask=None if m is None else [int(v) for v in m.reshape(-1)])
        if big:
            mob = ctx.driver.call("c06.grid", shape=list(shape), data=[int(v) for v in a.reshape(-1)], rinv=rinv,
                                  t=[int(v) for v in t], mask=None, bufshape=list(inp["bufshape"]), fill=77)
            fb = np.asarray(full_out, float).reshape(-1)
            ctx.agree("rigid_transform(out=larger buffer) == rigidGridInto", inp,
                      [None if mv is None else int(np.rint(v)) for v, mv in zip(fb, mob["out"])], mob["out"])
        flat = out.reshape(-1)
        impl = [None if mv is None else int(np.rint(v)) for v, mv in zip(flat, mo["out"])]
        near = all(mv is None or abs(v - np.rint(v)) <= TOL_GRID for v, mv in zip(flat, mo["out"]))
        ctx.agree("rigid_transform(grid) == gridTransform", inp, {"out": impl, "integral": bool(near)},
                  {"out": mo["out"], "integral": True})
        if om is not None and order <= 1:
            fm = np.asarray(om, float).reshape(-1)
            implm = [None if mv is None else int(np.rint(v)) for v, mv in zip(fm, mo["mask"])]
            nearm = all(mv is None or abs(v - np.rint(v)) <= TOL_GRID for v, mv in zip(fm, mo["mask"]))
            ctx.agree("rigid_transform(grid, mask) == gridTransform", inp, {"mask": implm, "integral": bool(nearm)},
                      {"mask": mo["mask"], "integral": True})
        if om is not None and order >= 2:
            # "data prefiltered, mask not": the mask output is the B-spline smoothing of the mask, moved by the same map
            mm = ctx.driver.call("c06.gridmask", shape=list(shape), mask=[int(v) for v in m.reshape(-1)], rinv=rinv,
                                 t=[int(v) for v in t], order=order)
            fm = np.asarray(om, float).reshape(-1)
            bad = [i for i, (v, q) in enumerate(zip(fm, mm)) if q is not None and abs(v - unfr(q)) > 1e-5]
            ctx.agree("rigid_transform(grid, mask, order>=2) == maskGrid (unprefiltered spline)", inp, bad[:3], [])
        ctx.count("grid:model-" + ("exact" if None not in mo["out"] else "partly-off-grid"))
    # ---- property clauses on the implementation's output
    want = spec_forward_grid(a, R, t)
    is_id = Rf.tolist() == np.eye(d).tolist()
    zero_t = not any(t)
    if want is not None:
        err = float(np.abs(out - want).max())
        if is_id and zero_t:
            ctx.spec("identity leaves the array unchanged", inp, err <= TOL_GRID, {"maxerr": err}, key="array:identity")
        elif is_id:
            ctx.spec("integer translation with the identity is an exact shift with zero fill", inp, err <= TOL_GRID,
                     {"maxerr": err, "first_bad": _first_bad(out, want)}, key="array:int-translation")
        elif zero_t:
            ctx.spec("axis-aligned rotation is an exact permutation of voxels: value at x lands at R(x-c)+c", inp,
                     err <= TOL_GRID, {"maxerr": err, "first_bad": _first_bad(out, want)}, key="array:grid-rotation")
            if leaves_invariant(R, shape):
                same = np.allclose(np.sort(out.reshape(-1)), np.sort(a.reshape(-1).astype(float)), atol=TOL_GRID)
                ctx.spec("grid rotation preserves the multiset of voxel values", inp, bool(same), key="array:grid-rotation")
        else:
            # the property fixes the rule for t = 0 and for R = 1 only; composed, today's code translates in the input
            # frame (R(x+t-c)+c, what the model mirrors).  Translating after the rotation (R(x-c)+c+t, the coordinate
            # version's convention) would also satisfy the text, so the clause accepts either.
            want2 = spec_forward_grid(a, R, t, after=True)
            err2 = float("inf") if want2 is None else float(np.abs(out - want2).max())
            ctx.spec("grid rotation with integer translation is an exact permutation + shift", inp, min(err, err2) <= TOL_GRID,
                     {"maxerr": min(err, err2), "first_bad": _first_bad(out, want)}, key="array:grid-rotation+translation")
            ctx.count("grid:composed:" + ("translate-then-rotate" if err <= TOL_GRID else "rotate-then-translate" if err2 <= TOL_GRID else "neither"))
    if om is not None:
        om = np.asarray(om, float)
        if order <= 1:
            wm = spec_forward_grid(m, R, t)
            if wm is not None:
                errm = float(np.abs(om - wm).max())
                wm2 = spec_forward_grid(m, R, t, after=True)
                if wm2 is not None and float(np.abs(om - wm2).max()) < errm and want is not None \
                        and float(np.abs(out - spec_forward_grid(a, R, t, after=True)).max()) <= TOL_GRID:
                    errm, wm = float(np.abs(om - wm2).max()), wm2     # data follows the other composition: so must the mask
                ctx.spec("mask is moved by the same map as the data", inp, errm <= TOL_GRID,
                         {"maxerr": errm, "first_bad": _first_bad(om, wm)}, key="array:mask")
        else:
            # no prefilter on the mask: it is the B-spline smoothing of the moved mask; the smoothing kernel is
            # symmetric and the same on every axis, so it commutes with the grid group and with integer shifts
            _, om0 = be.rigid_transform(a.copy(), np.eye(d), arr_mask=m.copy(), translation=np.zeros(d),
                                        use_geometric_center=True, order=order)
            wm = spec_forward_grid(np.asarray(om0, float), R, t)
            if wm is not None and zero_t and leaves_invariant(R, shape):
                errm = float(np.abs(om - wm).max())
                ctx.spec("mask is moved by the same map as the data", inp, errm <= TOL_GRID,
                         {"maxerr": errm, "first_bad": _first_bad(om, wm)}, key="array:mask")
    if not (is_id and zero_t):
        ctx.distinct(("grid", shape, R, t, order, m is not None, via, bool(inp.get("buffers"))))
    ctx.count(f"grid:{d}D:" + "".join("o" if s % 2 else "e" for s in shape))
    ctx.count(f"grid:order={order}")
    ctx.count("grid:" + ("mask" if m is not None else "nomask"))
    ctx.count("grid:via=" + via)
    if inp.get("bufshape") and tuple(inp["bufshape"]) != shape:
        ctx.count("grid:larger-buffer")


def _first_bad(out, want):
    bad = np.argwhere(np.abs(np.asarray(out, float) - want) > TOL_GRID)
    if len(bad) == 0:
        return None
    i = tuple(int(v) for v in bad[0])
    return {"index": i, "got": float(np.asarray(out)[i]), "want": float(want[i])}


def case_matrix(ctx, inp, model=True):
    """_rigid_transform_matrix against the model's homogeneous product, and against the pull-back formula"""
    be = _be()
    Rq = unrat_rows(inp["R"])
    rinvq = unrat_rows(inp["rinv"])
    d = len(Rq)
    t = None if inp["t"] is None else unrat_vec(inp["t"])
    c = None if inp["c"] is None else unrat_vec(inp["c"])
    Rf = fl(Rq)
    tf = None if t is None else np.array([float(x) for x in t])
    cf = None if c is None else np.array([float(x) for x in c])
    M = np.asarray(be._rigid_transform_matrix(rotation_matrix=Rf, translation=tf, center=cf), dtype=float)
    contract = np.allclose(np.linalg.inv(Rf) @ Rf, np.eye(d), atol=1e-9) and np.allclose(np.linalg.inv(Rf), fl(rinvq), atol=1e-9)
    ctx.agree("linalg.inv contract", inp, bool(contract), True)
    scale = 1.0 + max([abs(float(x)) for x in (t or [0])] + [abs(float(x)) for x in (c or [0])]) * d
    if model:
        mo = ctx.driver.call("c06.matrix", rinv=frm(rinvq), t=None if t is None else frs(t), c=None if c is None else frs(c))
        Mm = np.array([[unfr(x) for x in r] for r in mo])
        err = float(np.abs(M - Mm).max())
        ctx.agree("_rigid_transform_matrix == rigidMatrix", inp, err <= 2e-6 * scale, True)
    # clause: the matrix is the pull-back o -> R^-1 (o - c) + c - t
    t0 = np.zeros(d) if tf is None else tf
    c0 = np.zeros(d) if cf is None else cf
    rinvf = fl(rinvq)
    worst, worst_alt = 0.0, 0.0
    for o in inp["pts"]:
        o = np.array(o, float)
        got = (M @ np.append(o, 1.0))
        want = rinvf @ (o - c0) + c0 - t0
        e1 = float(np.abs(got[:d] - want).max())
        if worst_alt is not None:
            # the other composition (translate in the output frame) also satisfies the property's text
            worst_alt = max(worst_alt, float(np.abs(got[:d] - (rinvf @ (o - t0 - c0) + c0)).max()), abs(got[d] - 1.0))
        worst = max(worst, e1, abs(got[d] - 1.0))
    if worst_alt is not None and worst_alt < worst:
        worst = worst_alt
    ctx.spec("matrix fed to the resampler is the pull-back R^-1(o-c)+c-t", inp, worst <= 2e-5 * scale * (1 + np.abs(inp["pts"]).max()),
             {"maxerr": worst}, key="matrix:pullback")
    ctx.count(f"matrix:{d}D:t={'none' if t is None else 'some'}:c={'none' if c is None else 'some'}")
    ctx.distinct(("matrix", inp["R"], inp["t"], inp["c"]))


def case_linear(ctx, inp, model=True):
    """arbitrary exact rotation + dyadic translation at order 1: voxel-by-voxel against the exact model.
    centre: geometric (use_geometric_center=True) or centre of mass (the backend's default)."""
    be = _be()
    shape = tuple(inp["shape"])
    d = len(shape)
    a = np.array(inp["data"], dtype=np.float32).reshape(shape)
    Rq, t = unrat_rows(inp["R"]), unrat_vec(inp["t"])
    rinvq = transpose(Rq)
    Rf, tf = fl(Rq), np.array([float(x) for x in t])
    geo = inp["geo"]
    kw = {"use_geometric_center": True} if geo else ({} if inp.get("defaults") else {"use_geometric_center": False})
    out, _ = be.rigid_transform(a.copy(), Rf, translation=tf, order=1, **kw)
    out = np.asarray(out, float)
    contract = np.allclose(np.linalg.inv(Rf), fl(rinvq), atol=1e-9)
    ctx.agree("linalg.inv contract (rotation: inverse = transpose)", inp, bool(contract), True)
    if model:
        cgeo = [Fraction(s - 1, 2) for s in shape]
        mo = ctx.driver.call("c06.linear", shape=list(shape), data=[int(v) for v in a.reshape(-1)], rinv=frm(rinvq),
                             t=frs(t), c=frs(cgeo) if geo else None)
        if not geo:
            cm = np.array([unfr(x) for x in mo["c"]])
            ci = np.asarray(be.center_of_mass(a, cutoff=0), float)
            ctx.agree("center_of_mass(cutoff=0) == centerOfMass", inp, bool(np.abs(cm - ci).max() <= 1e-4), True)
        want = np.array([unfr(x) for x in mo["out"]]).reshape(shape)
        src = np.array([[unfr(x) for x in r] for r in mo["src"]]).reshape(shape + (d,))
        n1 = np.array(shape) - 1
        # float32 matrix: a source on a face of the box can fall on either side; skip those voxels
        edge = np.any((np.abs(src) < 1e-3) | (np.abs(src - n1) < 1e-3), axis=-1)
        if not geo:
            edge |= np.any((np.abs(src) < 2e-3 * max(shape)) | (np.abs(src - n1) < 2e-3 * max(shape)), axis=-1)
        diff = np.abs(out - want)
        diff[edge] = 0
        tol = TOL_LIN * max(1.0, float(np.abs(a).max())) * (1 if geo else 4)
        ctx.agree("rigid_transform(order=1) == linInterp∘affineSrc∘rigidMatrix", inp,
                  bool(diff.max() <= tol), True)
        ctx.count("linear:skipped-edge-voxels", int(edge.sum()))
        ctx.count("linear:compared-voxels", int((~edge).sum()))
    ctx.count(f"linear:{d}D:" + ("geometric" if geo else "mass"))
    ctx.distinct(("linear", shape, inp["R"], inp["t"], geo))


def case_com(ctx, inp, model=True):
    """arbitrary proper rotation, any order: the centre of mass of a blob follows R(x + t - c) + c (data and mask)"""
    be = _be()
    shape = tuple(inp["shape"])
    d = len(shape)
    Rq, t = unrat_rows(inp["R"]), unrat_vec(inp["t"])
    Rf, tf = fl(Rq), np.array([float(x) for x in t])
    order = inp["order"]
    g = np.indices(shape).astype(float)
    p = np.array(inp["blob"], float)
    a = np.exp(-sum((g[i] - p[i]) ** 2 for i in range(d)) / (2 * inp["sigma"] ** 2)).astype(np.float32)
    q = np.array(inp["blob2"], float)
    a = a + 0.5 * np.exp(-sum((g[i] - q[i]) ** 2 for i in range(d)) / (2 * inp["sigma"] ** 2)).astype(np.float32)
    m = (a > 0.05).astype(np.float32) if inp["mask"] else None
    out, om = be.rigid_transform(a.copy(), Rf, arr_mask=None if m is None else m.copy(), translation=tf,
                                 use_geometric_center=True, order=order)
    c = (np.array(shape) - 1) / 2
    x0 = com(a)
    want = Rf @ (x0 + tf - c) + c
    got = com(np.asarray(out, float))
    err = min(float(np.abs(got - want).max()), float(np.abs(got - (Rf @ (x0 - c) + c + tf)).max()))   # either composition
    mass = float(np.asarray(out, float).sum() / a.sum())
    ctx.spec("arbitrary rotation: centre of mass moves by R(x-c)+c within interpolation error", inp,
             err <= TOL_COM[order] and abs(mass - 1) <= (0.2 if order == 0 else 0.05), {"err": err, "mass_ratio": mass, "got": got.tolist(), "want": want.tolist()},
             key="array:com")
    if m is not None:
        gm = com(np.asarray(om, float))
        wm = Rf @ (com(m) + tf - c) + c
        errm = min(float(np.abs(gm - wm).max()), float(np.abs(gm - (Rf @ (com(m) - c) + c + tf)).max()))
        ctx.spec("arbitrary rotation: the mask's centre of mass moves by the same rule", inp, errm <= (0.75 if order == 0 else 0.25),
                 {"err": errm}, key="array:mask-com")
    if model:
        # the transposed (inverse) rotation or the translation-after-rotation convention would land elsewhere:
        # count how discriminating the case is
        alt = Rf.T @ (x0 + tf - c) + c
        ctx.count("com:discriminates-inverse" if np.abs(alt - want).max() > 4 * TOL_COM[order] else "com:symmetric")
    ctx.count(f"com:{d}D:order={order}")
    ctx.distinct(("com", shape, inp["R"], inp["t"], order, inp["blob"]))


def _structure(coords):
    from tme import Structure
    n = len(coords)
    el = ["C", "N", "O", "S"]
    return Structure(record_type=["ATOM"] * n, atom_serial_number=list(range(n)), atom_name=["CA"] * n,
                     atom_coordinate=np.array(coords, dtype=np.float64), alternate_location_indicator=["."] * n,
                     residue_name=["GLY"] * n, chain_identifier=["A"] * n, residue_sequence_number=list(range(n)),
                     code_for_residue_insertion=["?"] * n, occupancy=[1.0] * n, temperature_factor=[0.0] * n,
                     segment_identifier=["1"] * n, element_symbol=[el[i % 4] for i in range(n)], charge=["?"] * n, metadata={})


def case_coords(ctx, inp, model=True):
    """matching_utils.rigid_transform / Structure.rigid_transform"""
    from tme.matching_utils import rigid_transform as crt
    X = [unrat_vec(p) for p in inp["x"]]
    Mk = [unrat_vec(p) for p in inp.get("maskpts") or []]
    Rq, t = unrat_rows(inp["R"]), unrat_vec(inp["t"])
    center = None if inp.get("center") is None else unrat_vec(inp["center"])
    geo, via = inp["geo"], inp.get("via", "function")
    mismatch = bool(inp.get("dtypeMismatch"))
    d = len(Rq)
    Rf, tf = fl(Rq), np.array([float(v) for v in t])
    xs = np.array([[float(v) for v in p] for p in X], dtype=np.float64).T      # (d, N)
    ms = np.array([[float(v) for v in p] for p in Mk], dtype=np.float64).reshape(len(Mk), d).T
    om = None
    if via == "structure":
        st = _structure(xs.T)
        kw = {} if inp.get("defaults") else {"use_geometric_center": geo}
        res = st.rigid_transform(rotation_matrix=Rf, translation=tf, **kw)
        out = np.asarray(res.atom_coordinate, float).T
        ok = np.array_equal(st.atom_coordinate, xs.T) and list(res.element_symbol) == list(st.element_symbol)
        ctx.spec("Structure.rigid_transform returns a new structure and leaves the original alone", inp, bool(ok),
                 key="structure:copy")
    else:
        xin = xs.astype(np.int64) if mismatch else xs.copy()
        out = np.full(xs.shape, 7.0)
        kw = {}
        if len(Mk):
            om = np.full(ms.shape, 5.0)
            kw = {"coordinates_mask": ms.copy(), "out_mask": om}
        if center is not None:
            kw["center"] = np.array([float(v) for v in center])
        if not inp.get("defaults"):
            kw["use_geometric_center"] = geo
        tin = tf.copy()
        crt(coordinates=xin, rotation_matrix=Rf, out=out, translation=tin, **kw)
        ctx.spec("inputs are not modified", inp, np.array_equal(xin, xs) and np.array_equal(tin, tf), key="coords:input-mutated")
    scale = 1.0 + float(np.abs(xs).max()) + float(np.abs(tf).max())
    if model:
        mo = ctx.driver.call("c06.coords", x=[frs(p) for p in X], R=frm(Rq), t=frs(t),
                             center=None if center is None else frs(center), geo=geo,
                             mask=[frs(p) for p in Mk], dtypeMismatch=mismatch)
        wo = np.array([[unfr(v) for v in p] for p in mo["out"]]).T
        skip = False
        if mismatch:
            # astype(int) of a value that is an integer in exact arithmetic depends on float rounding
            pre = ctx.driver.call("c06.coords", x=[frs(p) for p in X], R=frm(Rq), t=frs(t), center=None, geo=False, mask=[])
            pv_ = np.array([[unfr(v) for v in p] for p in pre["out"]])
            skip = bool(np.any(np.abs(pv_ - np.rint(pv_)) < 1e-6))
            ctx.count("coords:dtype-mismatch" + (":skipped-near-integer" if skip else ""))
        if geo:
            # `(axis_max - axis_min) // 2` is discontinuous: when the exact extent is an even integer the float
            # result may fall on either side
            ext = [max(col) - min(col) for col in zip(*[[sum(Rq[i][j] * p[j] for j in range(d)) for i in range(d)] for p in X])]
            skip = any((e / 2).denominator == 1 for e in ext)
            if skip:
                ctx.count("coords:geo:skipped-floor-tie")
        if not skip:
            ctx.agree("matching_utils.rigid_transform == coordsTransform" + ("Geo" if geo else ""), inp,
                      bool(np.abs(out - wo).max() <= TOL_CO * scale), True)
            if om is not None:
                wm = np.array([[unfr(v) for v in p] for p in mo["mask"]]).reshape(len(Mk), d).T
                ctx.agree("matching_utils.rigid_transform(mask) == coordsTransform.2", inp,
                          bool(np.abs(om - wm).max() <= TOL_CO * scale), True)
    # ---- property clauses
    N = xs.shape[1]
    dist_in = np.linalg.norm(xs[:, :, None] - xs[:, None, :], axis=0)
    dist_out = np.linalg.norm(out[:, :, None] - out[:, None, :], axis=0)
    ctx.spec("coordinate version preserves all pairwise distances", inp, bool(np.abs(dist_in - dist_out).max() <= 1e-7 * scale),
             {"maxerr": float(np.abs(dist_in - dist_out).max())}, key="coords:distances")
    cen = xs.mean(axis=1)
    target = (cen if center is None else np.array([float(v) for v in center])) + tf
    if not geo:
        key = "coords:centroid:dtype-mismatch" if mismatch else "coords:centroid"
        cerr = float(np.abs(out.mean(axis=1) - target).max())
        ctx.spec("coordinate version moves the centroid by exactly the translation", inp, cerr <= 1e-7 * scale,
                 {"err": cerr}, key=key)
        if not mismatch:
            want = Rf @ (xs - cen[:, None]) + target[:, None]
            ferr = float(np.abs(out - want).max())
            ctx.spec("coordinate version is R(x - centroid) + centroid + t", inp, ferr <= 1e-7 * scale, {"err": ferr},
                     key="coords:formula")
            if om is not None:
                wantm = Rf @ (ms - cen[:, None]) + target[:, None]
                merr = float(np.abs(om - wantm).max())
                ctx.spec("coordinate mask is moved by the same map", inp, merr <= 1e-7 * scale, {"err": merr}, key="coords:mask")
    else:
        # use_geometric_center=True: rotated set re-boxed; orientation must still be R (not R^T, not a mirror)
        rel_in = xs - xs[:, :1]
        rel_out = out - out[:, :1]
        oerr = float(np.abs(rel_out - Rf @ rel_in).max())
        ctx.spec("coordinate version (geometric centre) rotates by R", inp, oerr <= 1e-7 * scale, {"err": oerr}, key="coords:geo-rotation")
    ctx.count(f"coords:{d}D:{'geo' if geo else 'centroid'}:via={via}")
    ctx.count("coords:center=" + ("given" if center is not None else "none"))
    ctx.distinct(("coords", inp["x"], inp["R"], inp["t"], geo, via, inp.get("center"), mismatch))


def case_agree(ctx, inp, model=True):
    """array version and coordinate version on the same data: the voxel coordinates of an array, moved by the
    coordinate version, are where the array version puts the values"""
    be = _be()
    from tme.matching_utils import rigid_transform as crt
    shape, R, t, order = tuple(inp["shape"]), inp["R"], inp["t"], inp["order"]
    d = len(shape)
    a = np.array(inp["data"], dtype=np.float32).reshape(shape)
    Rf, tf = np.array(R, float), np.array(t, float)
    out, _ = be.rigid_transform(a.copy(), Rf, translation=tf, use_geometric_center=True, order=order)
    out = np.asarray(out, float)
    grid = np.indices(shape).reshape(d, -1).astype(float)     # all voxel coordinates: centroid = (n-1)/2
    moved = np.empty_like(grid)
    crt(coordinates=grid, rotation_matrix=Rf, out=moved, translation=tf)
    mi = np.rint(moved).astype(int)
    ok = bool(np.abs(moved - mi).max() <= 1e-9)
    n = np.array(shape)[:, None]
    inside = np.all((mi >= 0) & (mi < n), axis=0)
    vals = a.reshape(-1)
    if ok:
        got = out[tuple(mi[:, inside])]
        ok = bool(np.abs(got - vals[inside]).max() <= TOL_GRID) if inside.any() else True
        # and nothing else is non-zero
        rest = out.copy()
        rest[tuple(mi[:, inside])] = 0
        ok = ok and bool(np.abs(rest).max() <= TOL_GRID)
    ctx.spec("array and coordinate implementations agree on the same data", inp, ok, key="agree:array-vs-coords")
    ctx.count(f"agree:{d}D")
    ctx.distinct(("agree", shape, R, t, order))


_CASES = {"grid": case_grid, "matrix": case_matrix, "linear": case_linear, "com": case_com, "coords": case_coords,
          "agree": case_agree}


# ----------------------------------------------------------------------------------------------
# obligations tied to the source
# ----------------------------------------------------------------------------------------------
def _obligations(ctx):
    be = _be()
    from tme import Density, Structure
    from tme import matching_utils
    from tme.backends.npfftw_backend import NumpyFFTWBackend
    mo = ctx.driver.call("c06.defaults")
    fns = {"NumpyFFTWBackend.rigid_transform": NumpyFFTWBackend.rigid_transform, "Density.rigid_transform": Density.rigid_transform,
           "Structure.rigid_transform": Structure.rigid_transform, "matching_utils.rigid_transform": matching_utils.rigid_transform}
    got_geo, got_order = {}, {}
    for k, f in fns.items():
        ps = inspect.signature(f).parameters
        if "use_geometric_center" in ps:
            got_geo[k] = ps["use_geometric_center"].default
        if "order" in ps:
            got_order[k] = ps["order"].default
    ctx.obligation("defaults:use_geometric_center == model.defaultGeometric", got_geo == mo["geometric"], {"repo": got_geo, "model": mo["geometric"]})
    ctx.obligation("defaults:order == model.defaultOrder", got_order == mo["order"], {"repo": got_order, "model": mo["order"]})
    # scipy contract of the resampler the backend uses: an index ramp read at order 1 returns its own source coordinate
    rng = ctx.rng("contract")
    ok, detail = True, None
    for d, shape in ((2, (9, 8)), (3, (6, 7, 5))):
        A = np.eye(d) + rng.integers(-2, 3, size=(d, d)) / 8.0
        off = rng.integers(-4, 5, size=d) / 4.0
        M = np.eye(d + 1)
        M[:d, :d], M[:d, d] = A, off
        mo = ctx.driver.call("c06.src", rinv=frm(A.tolist()), t=frs((-off).tolist()), c=[0] * d,
                             pts=[list(map(int, o)) for o in np.ndindex(*shape)])
        src = np.array([[unfr(x) for x in r] for r in mo]).reshape(shape + (d,))
        for ax in range(d):
            ramp = np.indices(shape)[ax].astype(float)
            out = np.zeros(shape)
            be.affine_transform(input=ramp, matrix=M, mode="constant", output=out, order=1, prefilter=True)
            n1 = np.array(shape) - 1
            inside = np.all((src > 1e-9) & (src < n1 - 1e-9), axis=-1)
            outside = np.any((src < -1e-9) | (src > n1 + 1e-9), axis=-1)
            if np.abs(out[inside] - src[..., ax][inside]).max(initial=0) > 1e-9 or np.abs(out[outside]).max(initial=0) > 0:
                ok, detail = False, {"shape": shape, "axis": ax}
    ctx.obligation("scipy-contract: backend.affine_transform reads M[:d,:d]·o + M[:d,d], zero outside [0,n-1]", ok, detail)


# ----------------------------------------------------------------------------------------------
# streams
# ----------------------------------------------------------------------------------------------
def _rand_data(rng, shape, full=True):
    a = rng.integers(-5, 10, size=shape)
    if not full:
        a[rng.random(shape) < 0.5] = 0
    if not a.any():
        a.reshape(-1)[0] = 3
    return [int(v) for v in a.reshape(-1)]


def _rand_mask(rng, shape):
    m = (rng.random(shape) > 0.5).astype(int)
    return [int(v) for v in m.reshape(-1)]


def _shapes(d, thorough):
    if d == 2:
        base = [(4, 4), (5, 5), (6, 6), (7, 7), (3, 3), (2, 2), (5, 6), (6, 4), (7, 4), (5, 7), (8, 6), (1, 5)]
        if thorough:
            base += [(8, 8), (9, 9), (3, 8), (9, 5)]
    else:
        base = [(4, 4, 4), (5, 5, 5), (3, 3, 3), (5, 6, 5), (4, 4, 6), (6, 5, 5), (3, 5, 7), (4, 6, 4), (2, 3, 2)]
        if thorough:
            base += [(6, 6, 6), (7, 7, 7), (5, 5, 4), (6, 4, 6), (4, 5, 6)]
    return base


def gen_grid(ctx, rng, wide=False):
    """all proper grid rotations of every shape they leave invariant, a sample of the others"""
    cases = []
    for d in (2, 3):
        props = signed_perms(d, True)
        mirrors = signed_perms(d, False)
        for shape in _shapes(d, ctx.thorough or wide):
            for R in props + mirrors:
                inv = leaves_invariant(R, shape)
                proper = R in props
                if not inv and rng.random() > (0.5 if wide else 0.15):
                    continue       # non-invariant: same-parity ones are partly modelled, keep a sample
                if not proper and rng.random() > (0.6 if wide else 0.2):
                    continue
                orders = [0, 1, 2, 3] if (ctx.thorough or wide) else [int(rng.integers(0, 4)), 3] if inv and proper else [int(rng.integers(0, 4))]
                for order in sorted(set(orders)):
                    use_mask = bool(rng.random() < 0.5)
                    tr = [0] * d
                    if rng.random() < 0.25:
                        tr = [int(v) for v in rng.integers(-2, 3, size=d)]
                    c = {"kind": "grid", "shape": list(shape), "R": R, "t": tr, "order": order,
                         "data": _rand_data(rng, shape, full=bool(rng.random() < 0.7)),
                         "mask": _rand_mask(rng, shape) if use_mask else None,
                         "buffers": bool(rng.random() < 0.3), "via": "backend"}
                    if c["buffers"] and rng.random() < 0.6:
                        c["bufshape"] = [int(s_ + v) for s_, v in zip(shape, rng.integers(0, 4, size=d))]
                    cases.append(c)
    # identity + integer translations (incl. moving everything out)
    for d in (2, 3):
        I = np.eye(d, dtype=int).tolist()
        for shape in _shapes(d, ctx.thorough or wide)[: (12 if ctx.thorough or wide else 6)]:
            ts = [[0] * d] + [[int(v) for v in rng.integers(-3, 4, size=d)] for _ in range(4 if not ctx.thorough else 10)]
            ts.append([shape[0]] + [0] * (d - 1))
            ts.append([0] * (d - 1) + [-(shape[-1] - 1)])
            for tr in ts:
                for order in ([0, 1, 2, 3] if (ctx.thorough or wide) else [int(rng.integers(0, 4)), 3]):
                    cases.append({"kind": "grid", "shape": list(shape), "R": I, "t": tr, "order": order,
                                  "data": _rand_data(rng, shape), "mask": _rand_mask(rng, shape) if rng.random() < 0.5 else None,
                                  "buffers": bool(rng.random() < 0.3), "via": "backend"})
    # Density.rigid_transform wrapper (default: geometric centre, order 3)
    for d in (2, 3):
        props = signed_perms(d, True)
        for shape in ((5, 5), (6, 6)) if d == 2 else ((4, 4, 4), (5, 5, 5)):
            for R in props:
                if rng.random() < (1.0 if ctx.thorough or wide else 0.4):
                    cases.append({"kind": "grid", "shape": list(shape), "R": R, "t": [0] * d, "order": 3,
                                  "data": _rand_data(rng, shape), "mask": None, "via": "density", "defaults": True})
            cases.append({"kind": "grid", "shape": list(shape), "R": np.eye(d, dtype=int).tolist(),
                          "t": [int(v) for v in rng.integers(-2, 3, size=d)], "order": int(rng.integers(0, 4)),
                          "data": _rand_data(rng, shape), "mask": None, "via": "density"})
    return cases


def gen_matrix(ctx, rng, n):
    cases = []
    for i in range(n):
        d = 2 + (i % 2)
        kind = i % 3
        if kind == 0:
            R = rational_rotation(rng, d)
            rinv = transpose(R)
        elif kind == 1:
            sp = signed_perms(d)
            R = [[Fraction(v) for v in r] for r in sp[int(rng.integers(0, len(sp)))]]
            rinv = transpose(R)
        else:
            # unimodular integer matrix (product of shears): inverse is not the transpose
            M = np.eye(d, dtype=int)
            Mi = np.eye(d, dtype=int)
            for _ in range(3):
                a, b = rng.choice(d, size=2, replace=False)
                k = int(rng.integers(-2, 3))
                E = np.eye(d, dtype=int)
                E[a, b] = k
                Ei = np.eye(d, dtype=int)
                Ei[a, b] = -k
                M, Mi = M @ E, Ei @ Mi
            R = [[Fraction(int(v)) for v in r] for r in M]
            rinv = [[Fraction(int(v)) for v in r] for r in Mi]
        t = None if rng.random() < 0.15 else [Fraction(int(v), 4) for v in rng.integers(-20, 21, size=d)]
        c = None if rng.random() < 0.15 else [Fraction(int(v), 8) for v in rng.integers(0, 80, size=d)]
        pts = [[int(v) for v in rng.integers(0, 12, size=d)] for _ in range(4)]
        cases.append({"kind": "matrix", "R": frm(R), "rinv": frm(rinv), "t": None if t is None else frs(t),
                      "c": None if c is None else frs(c), "pts": pts})
    return cases


def gen_linear(ctx, rng, n):
    cases = []
    for i in range(n):
        d = 2 if i % 3 else 3
        shape = tuple(int(v) for v in rng.integers(3, 8 if d == 2 else 6, size=d))
        R = rational_rotation(rng, d)
        t = [Fraction(int(v), 4) for v in rng.integers(-6, 7, size=d)] if rng.random() < 0.7 else [Fraction(0)] * d
        geo = bool(i % 4 != 3)
        data = rng.integers(-3, 10, size=shape) if not geo else rng.integers(-5, 10, size=shape)
        if not geo:
            # centre of mass with cutoff 0: negative voxels are ignored for the centre but still transformed
            data[rng.random(shape) < 0.3] = 0
            data.reshape(-1)[0] = 2
        cases.append({"kind": "linear", "shape": list(shape), "R": frm(R), "t": frs(t), "geo": geo,
                      "data": [int(v) for v in data.reshape(-1)], "defaults": bool(not geo and rng.random() < 0.5)})
    return cases


def gen_com(ctx, rng, n):
    cases = []
    sigma = 1.3
    margin = 4.5 * sigma
    while len(cases) < n:
        i = len(cases)
        d = 2 if i % 2 else 3
        s = int(rng.integers(18, 25)) if d == 3 else int(rng.integers(24, 40))
        shape = (s,) * d if rng.random() < 0.5 else tuple(int(s + v) for v in rng.integers(-2, 3, size=d))
        R = rational_rotation(rng, d)
        c = (np.array(shape) - 1) / 2
        r = min(shape) / 5.0
        blob = (c + rng.uniform(-r, r, size=d)).round(2)
        blob2 = (c + rng.uniform(-r, r, size=d)).round(2)
        t = [Fraction(int(v), 2) for v in rng.integers(-2, 3, size=d)] if rng.random() < 0.4 else [Fraction(0)] * d
        tf = np.array([float(v) for v in t])
        ok = True
        for b in (blob, blob2):
            img = fl(R) @ (b + tf - c) + c
            ok = ok and np.all(img >= margin) and np.all(img <= np.array(shape) - 1 - margin) \
                and np.all(b >= margin) and np.all(b <= np.array(shape) - 1 - margin)
        if not ok:
            ctx.count("com:generator-rejected(blob would leave the box)")
            continue
        cases.append({"kind": "com", "shape": list(shape), "R": frm(R), "t": frs(t), "order": int(i % 4), "blob": blob.tolist(),
                      "blob2": blob2.tolist(), "sigma": sigma, "mask": bool(rng.random() < 0.5)})
    return cases


def gen_coords(ctx, rng, n):
    cases = []
    for i in range(n):
        d = 2 if i % 3 == 0 else 3
        N = int(rng.integers(1, 12))
        x = [[Fraction(int(v), 4) for v in rng.integers(-80, 81, size=d)] for _ in range(N)]
        if i % 5 == 0:
            sp = signed_perms(d, True)
            R = [[Fraction(v) for v in r] for r in sp[int(rng.integers(0, len(sp)))]]
        else:
            R = rational_rotation(rng, d)
        t = [Fraction(int(v), 4) for v in rng.integers(-40, 41, size=d)]
        geo = bool(i % 4 == 1)
        via = "structure" if (i % 7 == 2 and d == 3) else "function"
        center = [Fraction(int(v), 2) for v in rng.integers(-10, 11, size=d)] if (via == "function" and rng.random() < 0.25) else None
        maskpts = [[Fraction(int(v), 4) for v in rng.integers(-80, 81, size=d)] for _ in range(int(rng.integers(1, 5)))] \
            if (via == "function" and rng.random() < 0.5) else []
        cases.append({"kind": "coords", "x": [frs(p) for p in x], "R": frm(R), "t": frs(t), "geo": geo, "via": via,
                      "center": None if center is None else frs(center), "maskpts": [frs(p) for p in maskpts],
                      "defaults": bool((not geo) and rng.random() < 0.5)})
    # dtype mismatch stream (integer coordinates, float64 out): the re-centring tail of the function
    # (kept small: its centroid clause fails under a known finding, and main.py keeps at most 500 failure records)
    for i in range(min(40, max(4, n // 10))):
        d = 2 + (i % 2)
        N = int(rng.integers(2, 9))
        x = [[Fraction(int(v)) for v in rng.integers(-20, 21, size=d)] for _ in range(N)]
        R = rational_rotation(rng, d)
        t = [Fraction(int(v), 4) for v in rng.integers(-40, 41, size=d)]
        cases.append({"kind": "coords", "x": [frs(p) for p in x], "R": frm(R), "t": frs(t), "geo": False, "via": "function",
                      "center": None, "maskpts": [], "dtypeMismatch": True})
    return cases


def gen_agree(ctx, rng, n):
    cases = []
    for i in range(n):
        d = 2 + (i % 2)
        s = int(rng.integers(3, 7))
        shape = (s,) * d
        sp = signed_perms(d, True)
        if i % 3 == 0:
            R, t = np.eye(d, dtype=int).tolist(), [int(v) for v in rng.integers(-2, 3, size=d)]
        else:
            R, t = sp[int(rng.integers(0, len(sp)))], [0] * d
        cases.append({"kind": "agree", "shape": list(shape), "R": R, "t": t, "order": int(rng.integers(0, 4)),
                      "data": _rand_data(rng, shape)})
    return cases


def _run_cases(ctx, cases, model=True):
    import traceback
    from pv.driver import DriverError
    for c in cases:
        try:
            _CASES[c["kind"]](ctx, c, model)
        except DriverError:
            raise
        except Exception:
            # every generated case is a valid call: raising is a failing input of the property
            ctx.spec("implementation returns on a valid input", c, False, traceback.format_exc()[-1500:], key=c["kind"] + ":raised")


def _corpus(ctx):
    import glob
    import json
    import os
    from pv import env
    for f in sorted(glob.glob(os.path.join(env.VERIF, "corpus", "C06_*.json"))):
        rec = json.load(open(f))
        for c in rec if isinstance(rec, list) else [rec]:
            _CASES[c["kind"]](ctx, c, True)
            ctx.count("corpus")


def _sequences(ctx, rng, n):
    """Call *sequences* on one array object as the scoring loops issue them (`cache=True`, `out=` buffers): the result of
    a call must not depend on earlier calls (different interpolation order, buffer refilled in place, other rotation)."""
    be = _be()
    for it in range(n):
        d = 2 if it % 2 else 3
        m = int(rng.integers(3, 7))
        shape = (m,) * d
        arr = rng.normal(size=shape).astype(np.float32)
        rots = [R for R in signed_perms(d, proper=True)]
        hist = []
        ok, why = True, ""
        for step in range(int(rng.integers(3, 7))):
            order = int(rng.choice([0, 1, 2, 3]))
            R = rots[int(rng.integers(0, len(rots)))]
            if rng.random() < 0.3:
                arr[...] = rng.normal(size=shape).astype(np.float32)      # same object, new content
            out = np.zeros(shape, np.float32)
            be.rigid_transform(arr=arr, rotation_matrix=np.array(R, dtype=np.float32), out=out, use_geometric_center=True,
                               order=order, cache=True)
            want = spec_forward_grid(arr, R, [0] * d)
            hist.append({"order": order, "R": np.array(R).tolist()})
            if want is None or float(np.max(np.abs(out - want))) > 1e-4:
                ok, why = False, f"step {step}: max deviation {float(np.max(np.abs(out - want))):.4g}"
                break
        ctx.spec("grid rotation is an exact permutation whatever was transformed before (cache=True, same array object)",
                 {"kind": "sequence", "shape": list(shape), "history": hist}, ok, why, key="grid:call-sequence")
        ctx.distinct(("sequence", shape, tuple(h["order"] for h in hist)))
        ctx.count("sequence")


def run(ctx):
    _obligations(ctx)
    _corpus(ctx)
    rng = ctx.rng("main")
    _sequences(ctx, ctx.rng("sequences"), ctx.budget(40, 300))
    grid = gen_grid(ctx, rng)
    _run_cases(ctx, grid)
    _run_cases(ctx, gen_matrix(ctx, rng, ctx.budget(300, 3000)))
    _run_cases(ctx, gen_linear(ctx, rng, ctx.budget(150, 1500)))
    _run_cases(ctx, gen_com(ctx, rng, ctx.budget(48, 400)))
    _run_cases(ctx, gen_coords(ctx, rng, ctx.budget(600, 6000)))
    _run_cases(ctx, gen_agree(ctx, rng, ctx.budget(120, 800)))
    for c in grid[:1] + grid[len(grid) // 2: len(grid) // 2 + 1]:
        ctx.sample({k: v for k, v in c.items() if k not in ("data", "mask")})
    ctx.note("array version applies the translation before the rotation (x -> R(x+t-c)+c), the coordinate version after it "
             "(x -> R(x-centroid)+centroid+t); they coincide for t=0 or R=1, the cases the property states "
             "(Lean: array_translation_in_input_frame)")
    ctx.note("mask at orders 2/3 is resampled without prefilter, i.e. it is the B-spline smoothing of the moved mask; "
             "the clause 'moved by the same map' is evaluated as commutation with the grid group there")


def search(ctx):
    """Correspondence / an obligation broke without a failing clause in the main stream: widen every stream and
    evaluate the property's clauses only (no model)."""
    rng = ctx.rng("search")
    _run_cases(ctx, gen_grid(ctx, rng, wide=True), model=False)
    _run_cases(ctx, gen_matrix(ctx, rng, 600), model=False)
    _run_cases(ctx, gen_com(ctx, rng, 120), model=False)
    _run_cases(ctx, gen_coords(ctx, rng, 1500), model=False)
    _run_cases(ctx, gen_agree(ctx, rng, 200), model=False)


def replay(ctx, rec):
    inp = rec.get("input")
    if isinstance(inp, dict) and inp.get("kind") in _CASES:
        _CASES[inp["kind"]](ctx, inp, True)
    else:
        run(ctx)
