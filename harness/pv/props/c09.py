"""C09 — atomic structures round-trip through PDB and mmCIF and the two formats agree.

Leg B: the real `Structure.to_file` / `Structure.from_file` of the repo against the Lean model
(Model/C09.lean) — file text for the writers, typed atom tables for the readers — plus the
property's clauses evaluated on the implementation's own outputs (independent of the model).
The PDB column table is extracted from the source on every run by *probing* the real writer
and reader and compared with the constants the theorems are about."""
import os
import re

import numpy as np

from .. import env

ID = "C09"
RULE = ("generated structures inside the fixed-width PDB limits (1-14 atoms, names with primes, negative residue "
        "numbers, empty/'.'/'?' optional fields, full-width values in every column, one large structure), written and "
        "re-read through every writer x reader chain of length 2 and sampled chains of length 3 (incl. re-writing a "
        "CIF-read structure, which re-uses the original file); the bundled entries 1pdj / 5khe; filter sets; a smaller "
        "malformed stream (over-wide fields, blanks, quotes) compared with the model only. Widened: mixed-case names, "
        "one-character fields holding # _ ; ' $ & + * -, exact binary ties of the third decimal; arrays handed to Structure "
        "as float32/float64, Fortran-ordered / strided / negatively strided / read-only coordinates, float32 / int32 "
        "columns, object / over-wide string columns, python lists; file names with upper/mixed-case extensions, dots "
        "elsewhere in the name or directory, unsupported extensions; sequences on fixed file names (rewritten with a "
        "same-size file of other content, read, re-written under a second fixed name); the file a structure was read "
        "from deleted / emptied / replaced before the structure is written; entries in the archive's own PDB and mmCIF "
        "layouts (other record types, TER serial gaps, trimmed lines, element-aligned names; other categories, text "
        "fields, permuted / missing / extra atom_site columns, quoted names, rows broken over lines) read in both formats "
        "and round-tripped; filters as set / frozenset, by keyword / position, with many names, followed by writing the "
        "filtered structure and by an unfiltered read; 10 240 atoms through mmCIF on the real code. distinct = distinct "
        "(structure, conversion path) pairs and (file, filter) pairs; single-atom all-default structures are not counted")
ASSUMPTIONS = [
    "'representable in fixed-width PDB columns' is taken literally: coordinates in [-999.999, 9999.999] (%8.3f), "
    "occupancy / B in [-99.99, 999.99] (%6.2f), serial -9999..99999, one-character chain / alt-loc / insertion code, "
    "fields without white space, record type ATOM or HETATM; outside it only model==implementation is compared",
    "float -> decimal (f'{x:.3f}') and decimal -> float (float(), numpy astype) are CPython's / numpy's: numbers "
    "enter the model as validated decimal text and are compared as text at the written precision",
    "Python int() underscore grouping, float() exponents/inf/nan and non-ASCII white space are not modelled (never generated)",
    "archive-style entries are produced by the harness's own formatter following the wwPDB conventions (legal files, "
    "not real depositions): blank-separated loop rows (no tabs), unquoted tokens never start with # _ ; $, quoted "
    "tokens carry no blanks; 'the atoms the files state' are the names / element / numbers put into both files",
    "round-trip tolerances are derived, not chosen: |written - stored| <= 0.0005 (3 decimals) plus half a float32 ulp "
    "(< 0.00049 below 16384) on reading < 0.001; float64 coordinates handed to Structure are compared as stored",
]
TRUSTED = ["C09: CPython string formatting / float parsing and numpy string->number casts are exercised, not modelled"]

STR_FIELDS = ["record", "name", "alt", "resName", "chain", "ins", "seg", "elem", "charge"]
ATTR = {"record": "record_type", "serial": "atom_serial_number", "name": "atom_name",
        "alt": "alternate_location_indicator", "resName": "residue_name", "chain": "chain_identifier",
        "resSeq": "residue_sequence_number", "ins": "code_for_residue_insertion", "occ": "occupancy",
        "b": "temperature_factor", "seg": "segment_identifier", "elem": "element_symbol", "charge": "charge"}
# clauses of the property: which fields must survive a write/read
EXACT = ["record", "serial", "name", "resName", "chain", "resSeq", "elem", "alt", "ins", "charge"]
CROSS = ["name", "resName", "elem"]
BUNDLED = [("1pdj.pdb", "1pdj.cif"), ("5khe.pdb", "5khe.cif")]


# ------------------------------------------------------------------ conversions
def dec(v, k):
    s = f"{float(v):.{k}f}"
    neg = s.startswith("-")
    ip, _, fr = s.lstrip("-").partition(".")
    return {"n": neg, "i": int(ip), "f": [int(c) for c in fr]}


def dec_text(d):
    return ("-" if d["n"] else "") + str(d["i"]) + ("." + "".join(map(str, d["f"])) if d["f"] else "")


def struct_atoms(s):
    """python-native rows of a real Structure"""
    out = []
    n = s.atom_coordinate.shape[0]
    for i in range(n):
        a = {k: str(getattr(s, ATTR[k])[i]) for k in STR_FIELDS}
        a["serial"] = int(s.atom_serial_number[i])
        a["resSeq"] = int(s.residue_sequence_number[i])
        a["x"], a["y"], a["z"] = (float(v) for v in s.atom_coordinate[i])
        a["occ"] = float(s.occupancy[i])
        a["b"] = float(s.temperature_factor[i])
        out.append(a)
    return out


FORMS = {"coord": ["f32", "f64", "F", "strided", "reversed", "readonly", "list"],
         "num": ["f64", "f32", "list"], "int": ["i64", "i32", "list"], "str": ["U", "object", "wideU", "list"]}


def gen_form(rng):
    """how the arrays are handed to `Structure`: dtypes, memory layouts, python lists"""
    return {k: str(rng.choice(v)) for k, v in FORMS.items()}


def make_struct(atoms, metadata=None, form=None):
    """`form` (see FORMS) varies what a caller may legitimately hand over: float64 / float32 coordinates,
    Fortran-ordered, strided, negatively strided or read-only coordinate arrays (assigned after construction, as a
    transform does), float32 / int32 columns, object / over-wide string columns, plain python lists"""
    from tme import Structure
    form = form or {}
    n = len(atoms)
    sform, nform, iform, cform = form.get("str", "U"), form.get("num", "f64"), form.get("int", "i64"), form.get("coord", "f32")

    def strs(k):
        vals = [a[k] for a in atoms]
        if sform == "list":
            return vals
        if sform == "object":
            return np.array(vals, dtype=object)
        if sform == "wideU":
            return np.array(vals, dtype="<U12")
        return np.array(vals, dtype=str)

    def nums(k):
        vals = [a[k] for a in atoms]
        return vals if nform == "list" else np.array(vals, dtype=np.float32 if nform == "f32" else float)

    def ints(k):
        vals = [a[k] for a in atoms]
        return vals if iform == "list" else np.array(vals, dtype=np.int32 if iform == "i32" else int)

    kw = {ATTR[k]: strs(k) for k in STR_FIELDS}
    kw["atom_serial_number"] = ints("serial")
    kw["residue_sequence_number"] = ints("resSeq")
    cdt = np.float64 if cform in ("f64", "list") else np.float32
    base = np.array([[a["x"], a["y"], a["z"]] for a in atoms], dtype=cdt).reshape(n, 3)
    kw["atom_coordinate"] = base.tolist() if cform == "list" else base
    kw["occupancy"] = nums("occ")
    kw["temperature_factor"] = nums("b")
    s = Structure(**kw, metadata=dict(metadata or {}))
    if cform == "F":
        s.atom_coordinate = np.asfortranarray(base)
    elif cform == "strided":
        big = np.full((2 * n + 1, 7), 7777.0, dtype=cdt)
        view = big[1::2, 1:7:2]
        view[...] = base
        s.atom_coordinate = view
    elif cform == "reversed":
        s.atom_coordinate = base[::-1, ::-1].copy()[::-1, ::-1]
    elif cform == "readonly":
        ro = base.copy()
        ro.setflags(write=False)
        s.atom_coordinate = ro
    return s


def to_model(atoms):
    """what the writers see: text fields as they are, numbers rounded by CPython to the written precision"""
    out = []
    for a in atoms:
        m = {k: a[k] for k in STR_FIELDS}
        m["serial"], m["resSeq"] = a["serial"], a["resSeq"]
        # the real writer formats the stored coordinate (rows come from `struct_atoms`: exact stored values)
        for k in "xyz":
            m[k] = dec(a[k], 3)
        m["occ"], m["b"] = dec(a["occ"], 2), dec(a["b"], 2)
        out.append(m)
    return out


def canon_read(real_atoms, model_atoms):
    """real read-back rows in the model's vocabulary (decimals at the model's precision)"""
    out = []
    for i, a in enumerate(real_atoms):
        m = model_atoms[i] if isinstance(model_atoms, list) and i < len(model_atoms) else None
        c = {k: a[k] for k in STR_FIELDS}
        c["serial"], c["resSeq"] = a["serial"], a["resSeq"]
        for k, dflt in (("x", 3), ("y", 3), ("z", 3), ("occ", 2), ("b", 2)):
            c[k] = dec(a[k], len(m[k]["f"]) if m else dflt)
        out.append(c)
    return out


def noval(s):
    return "" if s in ("", ".", "?") else s


# ------------------------------------------------------------------ real code
class Real:
    def __init__(self):
        from tme import Structure
        self.S = Structure
        self.dir = os.path.join(env.scratch(), "c09")
        os.makedirs(self.dir, exist_ok=True)
        self.n = 0

    def path(self, fmt):
        self.n += 1
        return os.path.join(self.dir, f"s{self.n}.{fmt}")

    def write(self, s, fmt):
        p = self.path(fmt)
        try:
            import warnings
            with warnings.catch_warnings():
                warnings.simplefilter("ignore")
                s.to_file(p)
        except Exception as e:
            return p, "err:Raised", type(e).__name__
        return p, open(p).read(), None

    def write_to(self, s, p):
        """write to a path chosen by the caller (fixed names, odd extensions); returns (text | 'err:Raised', exception name)"""
        import warnings
        try:
            with warnings.catch_warnings():
                warnings.simplefilter("ignore")
                s.to_file(p)
        except Exception as e:
            return "err:Raised", type(e).__name__
        return open(p).read(), None

    def put(self, fmt, text):
        p = self.path(fmt)
        with open(p, "w") as f:
            f.write(text)
        return p

    def read(self, p, *args, **kw):
        import contextlib
        import io
        try:
            with contextlib.redirect_stdout(io.StringIO()):
                s = self.S.from_file(p, *args, **kw)
            return s, struct_atoms(s)
        except Exception as e:
            return None, "err:Raised:" + type(e).__name__


def atom_site_block(text):
    """the `atom_site` loop of an mmCIF text as `_write_mmcif` lays it out (other categories dropped)"""
    if not isinstance(text, str):
        return text
    m = re.search(r"(?s)#\nloop_\n_atom_site\..*?(?=#\n|\Z)", text)
    return m.group(0) if m else None


# ------------------------------------------------------------------ quantifier of the property
def fits(a, fmts):
    """inside 'representable in fixed-width PDB columns' (see ASSUMPTIONS)"""
    def clean(s):
        return s == s.strip() and not re.search(r"\s", s) and all(32 < ord(c) < 127 for c in s)
    ok = a["record"] in ("ATOM", "HETATM")
    ok &= -9999 <= a["serial"] <= 99999 and -999 <= a["resSeq"] <= 9999
    ok &= all(clean(a[k]) for k in STR_FIELDS)
    ok &= 1 <= len(a["name"]) <= 4 and 1 <= len(a["resName"]) <= 3 and len(a["chain"]) == 1
    ok &= len(a["alt"]) <= 1 and len(a["ins"]) <= 1 and len(a["elem"]) <= 2 and len(a["charge"]) <= 2 and len(a["seg"]) <= 2
    ok &= all(len(f"{a[k]:.3f}") <= 8 for k in "xyz")
    ok &= all(len(f"{a[k]:.2f}") <= 6 for k in ("occ", "b"))
    if "cif" in fmts:
        # tokens of a loop row: nothing the tokenizer treats specially at the start of a line
        ok &= not a["record"].startswith(("_", "#", ";", "loop_", "data_"))
    return bool(ok)


def classify(a_in, field, fmt_w, edited):
    """stable key of a failing class (component:condition)"""
    if fmt_w == "cif" and field == "name" and '"' in a_in["name"]:
        return "mmcif:double-quote-in-name"
    if fmt_w == "cif" and edited == "original-file-replaced" and field not in ("x", "y", "z"):
        # the file the structure was read from has been overwritten with another structure (same ids) since
        return "mmcif-rewrite:original-file-replaced"
    if fmt_w == "cif" and isinstance(edited, tuple) and edited[0] == "defaulted":
        # the reader replaced an unparsable column of the source file by its default (occupancy '?' -> all 0); the mmCIF
        # writer copies that column from the source file again instead of writing what the structure holds
        return "mmcif-rewrite:defaulted-field-restored" if field in edited[1] else f"{fmt_w}-roundtrip:{field}"
    if fmt_w == "cif" and edited and edited != "original-file-replaced" and field in edited and field not in ("x", "y", "z"):
        return "mmcif-rewrite:edited-field-lost"
    return f"{fmt_w}-roundtrip:{field}"


def spec_roundtrip(ctx, inp, a_in, a_out, fmt_w, fmt_r, edited=None):
    """the round-trip clause of the property on the implementation's own output; `a_in` are the rows of the
    structure that was written (`struct_atoms`: the values as stored, whatever their dtype)"""
    clause = "write/read preserves atoms"
    if isinstance(a_out, str):
        ctx.spec(clause, inp, False, {"outcome": a_out}, key=f"{fmt_w}-roundtrip:raised")
        return False
    if len(a_out) != len(a_in):
        ctx.spec(clause, inp, False, {"n_in": len(a_in), "n_out": len(a_out)}, key=f"{fmt_w}-roundtrip:atom-count")
        return False
    bad = {}
    for i, (p, q) in enumerate(zip(a_in, a_out)):
        for f in EXACT:
            u, v = p[f], q[f]
            if isinstance(u, str):
                u, v = noval(u), noval(v)
            if u != v:
                bad.setdefault(classify(p, f, fmt_w, edited), (i, f, p[f], q[f]))
        for f, tol in (("x", 1e-3), ("y", 1e-3), ("z", 1e-3), ("occ", 1e-2), ("b", 1e-2)):
            if not abs(p[f] - q[f]) <= tol * (1 + 1e-6) + 1e-9:
                bad.setdefault(classify(p, f, fmt_w, edited), (i, f, p[f], q[f]))
    if not bad:
        ctx.spec(clause, inp, True)
        return True
    for key, (i, f, u, v) in bad.items():
        ctx.spec(clause, inp, False, {"atom": i, "field": f, "written": u, "read": v, "path": f"{fmt_w}->{fmt_r}"}, key=key)
    return False


def spec_cross(ctx, inp, a_pdb, a_cif, what):
    clause = "PDB and mmCIF of the same entry give the same atoms"
    if isinstance(a_pdb, str) or isinstance(a_cif, str):
        return ctx.spec(clause, inp, False, {"pdb": a_pdb if isinstance(a_pdb, str) else "ok",
                                             "cif": a_cif if isinstance(a_cif, str) else "ok"}, key="cross-format:raised")
    if len(a_pdb) != len(a_cif):
        return ctx.spec(clause, inp, False, {"n_pdb": len(a_pdb), "n_cif": len(a_cif)}, key="cross-format:atom-count")
    for i, (p, q) in enumerate(zip(a_pdb, a_cif)):
        for f in CROSS:
            if noval(p[f]) != noval(q[f]):
                return ctx.spec(clause, inp, False, {"atom": i, "field": f, "pdb": p[f], "cif": q[f]}, key=f"cross-format:{f}")
        for f, tol in (("x", 1e-3), ("y", 1e-3), ("z", 1e-3), ("occ", 1e-2), ("b", 1e-2)):
            if not abs(p[f] - q[f]) <= tol * (1 + 1e-6) + 1e-9:
                return ctx.spec(clause, inp, False, {"atom": i, "field": f, "pdb": p[f], "cif": q[f]}, key=f"cross-format:{f}")
    return ctx.spec(clause, inp, True)


# ------------------------------------------------------------------ generators
NAME_CH = list("ABCDEFGHNOPSXZ") + list("0123456789") + ["'", "'", "*"] + list("aceh")   # case must survive
# one-character fields may hold any printable character; these are the ones an mmCIF tokenizer could trip over
SPECIAL_CH = list("#_;+*-'$&")
ELEMS = ["C", "N", "O", "S", "P", "H", "FE", "ZN", "MG", "SE", "CA", "Cl", ""]
RES = ["GLY", "ALA", "HIS", "HOH", "A", "DA", "U", "SO4", "MSE", "0AB", "Gly", "hoh", "Cl", "N'"]
OPT = ["", ".", "?", "A", "B", "1"]
CHARGE = ["", ".", "?", "1+", "2-", "-1", "1", "+"]


def gen_coord(rng, cif_only=False):
    r = rng.random()
    if r < 0.15:
        # incl. exact binary ties of the third decimal (k/16: the formatter rounds them half-to-even)
        return float(rng.choice([0.0, -0.0004, 0.0005, 9999.999, -999.999, 999.9995, -0.0005, 1234.5675, 0.001, -999.9994,
                                 0.0625, -0.1875, 1234.5625, 2.5, 0.3125, -17.4375, 8191.9375, 4095.0005]))
    if cif_only and r < 0.35:
        return float(-rng.uniform(1000, 9999.999))
    scale = float(rng.choice([1, 10, 100, 1000]))
    v = float(rng.uniform(-scale, scale))
    if rng.random() < 0.2:
        v = abs(v) * 9.99
    if rng.random() < 0.3:
        v = round(v, int(rng.integers(0, 4)))
    return max(v, -999.999)


def gen_name(rng, dq=False):
    n = int(rng.choice([1, 2, 3, 4, 4]))
    s = "".join(rng.choice(NAME_CH) for _ in range(n))
    if dq:
        k = int(rng.integers(0, len(s) + 1))
        s = (s[:k] + '"' + s[k:])[:4]
        if '"' not in s:
            s = s[:3] + '"'
    return s


def gen_atoms(rng, n, mode="wf", cif_only=False):
    """mode: wf (inside the quantifier), dense (every column filled to its width), pdbread (what the PDB
    reader produces: empty optional fields), malformed"""
    seq = rng.random() < 0.55
    start = 1 if seq else None
    serials = list(range(1, n + 1)) if seq else [int(x) for x in rng.choice(np.arange(1, 100000), size=n, replace=False)]
    if not seq and rng.random() < 0.15:
        serials[int(rng.integers(0, n))] = int(rng.choice([0, -1, -9999, 99999]))
    if not seq and n > 1 and rng.random() < 0.3:
        serials = [int(x) for x in rng.permutation(n) + 1]
    if not seq and n > 1 and rng.random() < 0.2:
        # serial numbers need not be distinct (all 0 in built models, repeated after merging files)
        k = int(rng.integers(0, 4))
        if k == 0:
            serials = [0] * n
        elif k == 1:
            serials = [int(rng.integers(1, n + 1))] * n
        elif k == 2:
            serials = [i // 2 + 1 for i in range(n)]
        else:
            serials[int(rng.integers(1, n))] = serials[0]
    atoms = []
    for i in range(n):
        if mode == "dense":
            a = {"record": "HETATM" if rng.random() < 0.6 else "ATOM",
                 "name": "".join(rng.choice(NAME_CH) for _ in range(4)), "alt": str(rng.choice(list("ABCXYZ12"))),
                 "resName": "".join(rng.choice(list("ABCDEFGHIJKLMNOPQRSTUVWXYZ0123456789")) for _ in range(3)),
                 "chain": str(rng.choice(list("ABCDEFGHXYZabc019"))), "ins": str(rng.choice(list("ABCDEPQR"))),
                 "seg": str(rng.choice(["S1", "AB", "7Z"])), "elem": str(rng.choice(["FE", "ZN", "Cl", "MG", "XX"])),
                 "charge": str(rng.choice(["1+", "2-", "-1", "+2", "3+"])),
                 "serial": int(rng.integers(10000, 100000)), "resSeq": int(rng.choice([-999, 9999, int(rng.integers(1000, 10000)), -int(rng.integers(100, 1000))])),
                 "x": float(rng.choice([-1, 1])) * float(rng.uniform(100, 999.9)), "y": float(rng.uniform(1000, 9999.9)),
                 "z": -float(rng.uniform(100, 999.9)), "occ": float(rng.uniform(100, 999.9)), "b": -float(rng.uniform(10, 99.9))}
        else:
            a = {"record": "ATOM" if rng.random() < 0.7 else "HETATM", "name": gen_name(rng),
                 "alt": str(rng.choice(OPT)), "resName": str(rng.choice(RES)) if rng.random() < 0.8 else gen_name(rng)[:3],
                 "chain": str(rng.choice(list("ABCDEFab12"))), "ins": str(rng.choice(OPT)),
                 "seg": str(rng.choice(["", "1", "S1"])), "elem": str(rng.choice(ELEMS)), "charge": str(rng.choice(CHARGE)),
                 "serial": serials[i], "resSeq": int(rng.choice([int(rng.integers(-999, 10000)), int(rng.integers(1, 300)), 0, -1, -999, 9999])),
                 "x": gen_coord(rng, cif_only), "y": gen_coord(rng, cif_only), "z": gen_coord(rng, cif_only),
                 "occ": float(rng.choice([1.0, 0.5, 0.0, round(float(rng.uniform(0, 1)), 2), float(rng.uniform(0, 1)), 999.99, -99.99])),
                 "b": float(rng.choice([0.0, round(float(rng.uniform(0, 200)), 2), float(rng.uniform(0, 999.99)), 999.99, -1.5]))}
            if mode != "malformed" and rng.random() < 0.12:
                a[str(rng.choice(["chain", "alt", "ins"]))] = str(rng.choice(SPECIAL_CH))
            if mode == "pdbread":
                a["alt"] = a["ins"] = a["charge"] = a["seg"] = ""
        if mode != "dense":
            a["serial"] = serials[i]
        elif seq:
            a["serial"] = serials[i]
        atoms.append(a)
    if mode == "malformed":
        for _ in range(int(rng.integers(1, 3))):
            a = atoms[int(rng.integers(0, n))]
            k = int(rng.integers(0, 11))
            if k == 0:
                a["name"] = gen_name(rng) + "XY"           # over-wide: columns shift
            elif k == 1:
                a["serial"] = int(rng.integers(100000, 2000000))
            elif k == 2:
                a["x"] = -float(rng.uniform(1000, 99999))
            elif k == 3:
                a["name"] = str(rng.choice(["C A", " CA", "CA ", "O 1'"]))
            elif k == 4:
                a["chain"] = str(rng.choice(["AB", "", "XYZ"]))
            elif k == 5:
                a["resName"] = str(rng.choice(["", " ", "ABCD", "A B"]))
            elif k == 6:
                a["name"] = gen_name(rng, dq=True)
            elif k == 7:
                a["occ"] = float(rng.choice([1000.0, -100.0, 12345.678]))
            elif k == 8:
                a["record"] = str(rng.choice(["ANISOU", "ATOMS", "HETATMX", "atom", ""]))
            elif k == 9:
                a["charge"] = str(rng.choice(["+1e", " 1", "'", "''"]))
            else:
                a["resSeq"] = int(rng.choice([-1000, 10000, 123456]))
    return atoms


# ------------------------------------------------------------------ one conversion chain
def run_chain(ctx, real, atoms, path, d=None, spec=True, label="gen", edit=None, tag=None, form=None, orig_gone=False):
    """atoms --write path[0]--> file --read--> atoms1 --write path[1]--> ...
    Correspondence on every file text and every table read back; property clauses on the real outputs.
    edit = (step, field, values): overwrite a field of the structure read at `step` before writing it again.
    form: how the arrays are handed to `Structure` (make_struct).  orig_gone: the file a structure was read from is
    deleted before the structure is written again (temporary files): nothing of it can be re-used."""
    inp0 = {"atoms": atoms, "path": list(path), "edit": edit, "kind": label, "form": form, "orig_gone": orig_gone}
    s = make_struct(atoms, form=form)
    cur_atoms = struct_atoms(s)      # the values as stored (float32 or float64 coordinates ...)
    orig_text = None
    ok_all = True
    for step, fmt in enumerate(path):
        inp = dict(inp0, step=step)
        edited = None
        if edit and edit[0] == step:
            if edit[1] == "xyz":     # what a rigid transform does: new coordinates, everything else untouched
                s.atom_coordinate = np.array(edit[2], dtype=np.float32).reshape(len(cur_atoms), 3)
                edited = {"x", "y", "z"}
            else:
                setattr(s, ATTR[edit[1]], np.array(edit[2], dtype=str if edit[1] in STR_FIELDS else float))
                edited = {edit[1]}
            cur_atoms = struct_atoms(s)
        inside = all(fits(a, {fmt}) for a in cur_atoms)
        p, text, _exc = real.write(s, fmt)
        if d is not None:
            if fmt == "pdb":
                m_text = d.call("c09.writePdb", atoms=to_model(cur_atoms))
                if m_text == "err:Unrepresentable":
                    ctx.count(f"{label}:pdb-item-assignment-of-multichar(not modelled)")
                else:
                    ctx.agree("_write_pdb text", inp, text, m_text)
            else:
                m_text = d.call("c09.writeCif", atoms=to_model(cur_atoms), orig=orig_text)
                ctx.agree("_write_mmcif atom_site text", inp, text if orig_text is None else atom_site_block(text), m_text)
        if isinstance(text, str) and text.startswith("err:"):
            if spec and inside:
                ctx.spec("write/read preserves atoms", inp, False, {"outcome": "writer raised " + str(_exc)}, key=f"{fmt}-roundtrip:raised")
                ok_all = False
            ctx.count(f"{label}:write-raised")
            break
        s2, a2 = real.read(p, keep_non_atom_records=True)
        if d is not None:
            m2 = d.call("c09.loadPdb" if fmt == "pdb" else "c09.loadCif", text=text)
            impl = "err:Raised" if isinstance(a2, str) else canon_read(a2, m2)
            ctx.agree("_load_pdb table" if fmt == "pdb" else "_load_mmcif table", inp, impl, m2)
        if spec and inside:
            if orig_text is not None and fmt == "cif":
                ctx.count(f"{label}:cif-written-from-file-read-structure")
            ok_all &= spec_roundtrip(ctx, inp, cur_atoms, a2, fmt, fmt, edited)
        elif not inside:
            ctx.count(f"{label}:outside-quantifier(agree-only)")
        ctx.count(f"{label}:step{step}:{fmt}")
        if isinstance(a2, str):
            break
        if not a2:
            ctx.count(f"{label}:nothing-read(chain stops; empty structures are not written)")
            break
        s, cur_atoms = s2, a2
        orig_text = text
        if orig_gone:
            os.remove(p)
            orig_text = None
    if tag is not None:
        ctx.distinct(tag)
    return ok_all


# ------------------------------------------------------------------ column tables by probing
PROBE = {"record": "HETATM", "serial": 12345, "name": "QRST", "alt": "U", "resName": "VWX", "chain": "Y", "resSeq": 6789,
         "ins": "Z", "x": -111.125, "y": 2222.25, "z": -333.375, "occ": 444.5, "b": -55.75, "seg": "abcd", "elem": "ef",
         "charge": "gh"}
PROBE_TEXT = {"record": "HETATM", "serial": "12345", "name": "QRST", "alt": "U", "resName": "VWX", "chain": "Y",
              "resSeq": "6789", "ins": "Z", "x": "-111.125", "y": "2222.250", "z": "-333.375", "occ": "444.50",
              "b": "-55.75", "seg": "abcd", "elem": "ef", "charge": "gh"}
FID = {"record": "record_type", "serial": "atom_serial_number", "name": "atom_name", "alt": "alternate_location_indicator",
       "resName": "residue_name", "chain": "chain_identifier", "resSeq": "residue_sequence_number",
       "ins": "code_for_residue_insertion", "x": "x", "y": "y", "z": "z", "occ": "occupancy", "b": "temperature_factor",
       "seg": "segment_identifier", "elem": "element_symbol", "charge": "charge"}


def probe_tables(real):
    """(writer columns, reader columns, line width) of the PDB code, found by running it:
    writer: where each full-width marker value lands; reader: which field each column feeds."""
    s = make_struct([dict(PROBE)])
    p, text, _ = real.write(s, "pdb")
    line = text.split("\n")[0]
    writer = []
    for k, v in PROBE_TEXT.items():
        pos = [m.start() for m in re.finditer(re.escape(v), line)]
        if len(pos) != 1:
            raise RuntimeError(f"marker {v!r} of {k} found {len(pos)}x in {line!r}")
        writer.append([FID[k], pos[0], pos[0] + len(v)])
    # reader: overwrite one column at a time with another digit (every field of the base line is full width,
    # so the line stays parseable) and see which field moves; a line that is no longer read moves "record"
    base = line
    hits = {}
    _, ref = _read_line(real, base)
    if isinstance(ref, str) or len(ref) != 1:
        raise RuntimeError(f"reader does not read the probe line: {ref!r}")
    for i in range(len(base)):
        repl = "7" if base[i] != "7" else "8"
        _, got = _read_line(real, base[:i] + repl + base[i + 1:])
        if isinstance(got, str) or len(got) != 1:
            hits.setdefault("record", []).append(i)
            continue
        for k in FID:
            gv, rv = got[0][k], ref[0][k]
            if gv != rv:
                hits.setdefault(k, []).append(i)
    reader = []
    for k in FID:
        cols = hits.get(k, [])
        if not cols or cols != list(range(cols[0], cols[-1] + 1)):
            raise RuntimeError(f"reader columns of {k} not contiguous: {cols}")
        reader.append([FID[k], cols[0], cols[-1] + 1])
    return writer, reader, len(line)


def _read_line(real, line):
    p = real.path("pdb")
    with open(p, "w") as f:
        f.write(line + "\nEND")
    return real.read(p, keep_non_atom_records=True)


def extract_obligations(ctx, real):
    cols = ctx.driver.call("c09.cols")
    try:
        writer, reader, width = probe_tables(real)
    except Exception as e:
        ctx.obligation("pdb-column-table", False, {"probe failed": repr(e)})
        return
    ctx.obligation("pdb-writer-columns", writer == cols["writer"], {"source": writer, "model": cols["writer"]})
    ctx.obligation("pdb-reader-columns", reader == cols["reader"], {"source": reader, "model": cols["reader"]})
    ctx.obligation("pdb-line-width", width == cols["width"], {"source": width, "model": cols["width"]})
    # mmCIF: the names the writer emits, and the names the reader maps, taken from the running code
    s = make_struct([dict(PROBE, alt="", ins="", charge="")])
    _, text, _ = real.write(s, "cif")
    names = re.findall(r"(?m)^_atom_site\.(\S+)\s*$", text if isinstance(text, str) else "")
    ctx.obligation("mmcif-column-names", names == cols["cifNames"], {"source": names, "model": cols["cifNames"]})
    # the column names the mmCIF reader asks for (theorems loadCifTable_congr / _perm / _extra are about this list)
    try:
        read_names = extract_cif_read_names()
    except Exception as e:
        read_names = repr(e)
    ctx.obligation("mmcif-reader-column-names", read_names == cols.get("cifReadNames"), {"source": read_names, "model": cols.get("cifReadNames")})
    ctx.extra["extracted_tables"] = {"pdb_writer": writer, "pdb_reader": reader, "mmcif_names": names, "mmcif_read_names": read_names}


def extract_cif_read_names():
    """from the source of `Structure._load_mmcif`: the `Cartn_*` subscripts and the file-side names of `atom_site_mapping`"""
    import ast
    import inspect
    import textwrap
    from tme import Structure
    tree = ast.parse(textwrap.dedent(inspect.getsource(Structure._load_mmcif)))
    mapped = []
    for node in ast.walk(tree):
        if (isinstance(node, ast.Assign) and isinstance(node.value, ast.Dict)
                and any(isinstance(t, ast.Name) and t.id == "atom_site_mapping" for t in node.targets)):
            mapped = [v.elts[0].value for v in node.value.values]
    coords = sorted({n.slice.value for n in ast.walk(tree) if isinstance(n, ast.Subscript) and isinstance(n.slice, ast.Constant)
                     and isinstance(n.slice.value, str) and n.slice.value.startswith("Cartn_")})
    return coords + mapped


# ------------------------------------------------------------------ main
def bundled(name):
    return os.path.join(env.REPO, "tests", "data", "Structures", name)


def check_filters(ctx, real, d, path, text, rng, nsets, label, defaulted=None):
    """element / residue / record filters keep exactly the matching atoms (in order)"""
    fmt = "pdb" if path.lower().endswith(".pdb") else "cif"
    _, full = real.read(path, keep_non_atom_records=True)
    if isinstance(full, str):
        return
    m_full = d.call("c09.loadPdb" if fmt == "pdb" else "c09.loadCif", text=text)
    elems = sorted({a["elem"] for a in full})
    ress = sorted({a["resName"] for a in full})
    def near(names):
        """names that are *not* in the file but close to one that is: longer (a present name is a prefix: 'C' -> 'CA',
        'G' -> 'GLY'), shorter (a prefix of a present name), other case"""
        out = set()
        for n in names:
            if not n:
                continue
            out.update({n + "A", n + "L", n + n[-1], n.lower(), n[:-1]})
            out.update({n + "LY", n + "LA"} if len(n) == 1 else set())
        return sorted(x for x in out if x and x not in names and x.strip() == x)
    near_e, near_r = near(elems), near(ress)
    for j in range(nsets):
        keep = bool(rng.random() < 0.5)
        es = set() if rng.random() < 0.3 else set(str(x) for x in rng.choice(elems + ["XX"] + near_e, size=int(rng.integers(1, 3))))
        rs = set() if rng.random() < 0.3 else set(str(x) for x in rng.choice(ress + ["ZZZ"] + near_r, size=int(rng.integers(1, 4))))
        if j == 1 and near_e:
            es, rs = {near_e[int(rng.integers(len(near_e)))]}, set()
        if j == 2 and near_r:
            es, rs = set(), {near_r[int(rng.integers(len(near_r)))], ress[int(rng.integers(len(ress)))]}
        if j == 3:
            # many names (present ones, all but one, and decoys): more names than atoms in small files
            es, rs = (set(elems[:-1]) | set(near_e) | {"XX", "Q"}), set()
        if j == 4:
            es, rs = set(), (set(ress[1:]) | set(near_r) | {"ZZZ"})
        if j == 0:
            keep, es, rs = False, set(), set()
        # the sets as set / frozenset, by keyword or by position
        wrap = [set, frozenset][j % 2]
        positional = j % 3 == 2
        inp = {"file": os.path.basename(path) if label == "bundled" else text, "keep_non_atom_records": keep,
               "filter_by_elements": sorted(es), "filter_by_residues": sorted(rs), "as": wrap.__name__, "positional": positional}
        if positional:
            s_got, got = real.read(path, keep, wrap(es) if es else None, wrap(rs) if rs else None)
        else:
            s_got, got = real.read(path, keep_non_atom_records=keep, filter_by_elements=wrap(es) if es else None,
                                   filter_by_residues=wrap(rs) if rs else None)
        if isinstance(m_full, list):
            m = d.call("c09.filter", atoms=m_full, keepNonAtom=keep, elems=sorted(es), resNames=sorted(rs))
            ctx.agree("from_file filters", inp, "err:Raised" if isinstance(got, str) else canon_read(got, m), m)
        want = [a for a in full if (not es or a["elem"] in es) and (not rs or a["resName"] in rs)
                and (keep or a["record"] == "ATOM")]
        if isinstance(got, str):
            # numpy cannot build an empty selection of some arrays: only a violation when atoms should remain
            ok = not want
        else:
            ok = got == want
        ctx.spec("filters keep exactly the matching atoms", inp, ok,
                 None if ok else {"kept": len(got) if not isinstance(got, str) else got, "expected": len(want)},
                 key="filter:" + ("record" if not es and not rs else "element" if not rs else "residue" if not es else "both"))
        ctx.count(f"filter:{label}:" + ("none" if not es and not rs else "elem" if not rs else "res" if not es else "both"))
        if want and len(want) < len(full):
            ctx.distinct(("filter", os.path.basename(path) if label == "bundled" else hash(text), keep, tuple(sorted(es)), tuple(sorted(rs))))
        # a filtered structure is a structure: written and read back it keeps its atoms (for an mmCIF source the
        # writer re-uses the records of the original file: those of the selected atoms, not the first ones)
        if j == nsets - 1 and not isinstance(got, str) and got and ok:
            for out in ("cif", "pdb"):
                if not all(fits(a, {out}) for a in got):
                    continue
                p_out, t_out, _ = real.write(s_got, out)
                if out == "cif" and label != "bundled":
                    mt = d.call("c09.writeCif", atoms=to_model(got), orig=text)
                    ctx.agree("_write_mmcif atom_site text (filtered structure)", dict(inp, write=out), atom_site_block(t_out), mt)
                _, back = real.read(p_out, keep_non_atom_records=True)
                spec_roundtrip(ctx, dict(inp, write=out, kind="filtered-then-written"), got, back, out, out,
                               edited=("defaulted", defaulted) if defaulted and fmt == "cif" else None)
                ctx.count(f"filter:{label}:filtered-then-written:{fmt}->{out}")
    # nothing of the filters sticks: a plain read afterwards returns every atom again
    _, again = real.read(path, keep_non_atom_records=True)
    ctx.spec("filters keep exactly the matching atoms", {"file": os.path.basename(path) if label == "bundled" else text,
                                                         "keep_non_atom_records": True, "after_filtered_reads": True},
             again == full, None if again == full else {"kept": len(again) if not isinstance(again, str) else again, "expected": len(full)},
             key="filter:none-after-filtered-reads")


# ------------------------------------------------------------------ file names
NAME_VARIANTS = [("a.PDB", "pdb"), ("a.Pdb", "pdb"), ("b.CIF", "cif"), ("b.Cif", "cif"), ("a.b.pdb", "pdb"),
                 ("a.pdb.cif", "cif"), ("a.cif.pdb", "pdb"), ("dir.cif/m.pdb", "pdb"), ("dir.pdb/m.x.CIF", "cif"),
                 ("with space.pdb", "pdb"), ("UPPER/NAME.CIF", "cif"), ("pdb", None), ("model.ent", None)]


def check_file_name(ctx, real, d, atoms, name, fmt, form=None, label="file-name"):
    """the format is chosen by the (case-insensitive) last extension of the file name, for writing and for reading"""
    inp = {"kind": "file-name", "atoms": atoms, "name": name, "fmt": fmt, "form": form}
    p = os.path.join(real.dir, "names", name)
    os.makedirs(os.path.dirname(p), exist_ok=True)
    s = make_struct(atoms, form=form)
    rows = struct_atoms(s)
    text, exc = real.write_to(s, p)
    if fmt is None:
        # no supported extension: refused, and nothing is written under another format's rules
        ctx.agree("to_file refuses an unsupported extension", inp, (text, exc), ("err:Raised", "NotImplementedError"))
        ctx.count(f"{label}:unsupported-extension")
        return
    if d is not None:
        mt = d.call("c09.writePdb" if fmt == "pdb" else "c09.writeCif", atoms=to_model(rows))
        if mt != "err:Unrepresentable":
            ctx.agree("to_file format by extension", inp, text, mt)
    if text == "err:Raised":
        ctx.spec("write/read preserves atoms", inp, False, {"outcome": "writer raised " + str(exc)}, key=f"{fmt}-roundtrip:raised")
        return
    _, back = real.read(p, keep_non_atom_records=True)
    spec_roundtrip(ctx, inp, rows, back, fmt, fmt)
    ctx.count(f"{label}:{fmt}:" + ("upper-case-extension" if name != name.lower() else "dotted-name"))
    ctx.distinct(("file-name", name, len(atoms)))


# ------------------------------------------------------------------ the original file changes after reading
def check_original_changed(ctx, real, d, atoms_a, atoms_b, mode, out_fmt, label="orig-changed"):
    """a structure read from an mmCIF file keeps the path in its metadata and `_write_mmcif` looks at that file again.
    mode: 'deleted' (temporary file removed), 'replaced' (the path now holds another structure with the same ids),
    'replaced-other' (another structure, whatever ids it has), 'emptied'.  What is written must be the structure."""
    inp = {"kind": "orig-changed", "atoms": atoms_a, "other": atoms_b, "mode": mode, "write": out_fmt}
    real.n += 1
    p = os.path.join(real.dir, f"orig_{real.n}.cif")
    text_a, exc = real.write_to(make_struct(atoms_a), p)
    s1, a1 = real.read(p, keep_non_atom_records=True)
    if isinstance(a1, str) or text_a == "err:Raised":
        ctx.spec("write/read preserves atoms", inp, False, {"outcome": a1, "writer": exc}, key="cif-roundtrip:raised")
        return
    if mode == "deleted":
        os.remove(p)
        orig_text = None
    elif mode == "emptied":
        open(p, "w").close()
        orig_text = ""
    else:
        orig_text, _ = real.write_to(make_struct(atoms_b), p)
    q, text, exc = real.write(s1, out_fmt)
    if isinstance(text, str) and text.startswith("err:"):
        ctx.spec("write/read preserves atoms", inp, False, {"outcome": "writer raised " + str(exc)}, key=f"{out_fmt}-roundtrip:raised")
        return
    if d is not None:
        if out_fmt == "cif":
            mt = d.call("c09.writeCif", atoms=to_model(a1), orig=orig_text)
            ctx.agree("_write_mmcif atom_site text (original file changed)", inp, atom_site_block(text) if orig_text else text, mt)
        else:
            mt = d.call("c09.writePdb", atoms=to_model(a1))
            if mt != "err:Unrepresentable":
                ctx.agree("_write_pdb text", inp, text, mt)
    _, back = real.read(q, keep_non_atom_records=True)
    spec_roundtrip(ctx, inp, a1, back, out_fmt, out_fmt, edited="original-file-replaced" if mode in ("replaced", "replaced-other") else None)
    ctx.count(f"{label}:{mode}:->{out_fmt}")
    ctx.distinct(("orig-changed", mode, out_fmt, len(atoms_a), atoms_a[0]["name"]))


# ------------------------------------------------------------------ entries as the archive distributes them
CIF_STD = ["group_PDB", "id", "type_symbol", "label_atom_id", "label_alt_id", "label_comp_id", "label_asym_id",
           "label_entity_id", "label_seq_id", "pdbx_PDB_ins_code", "Cartn_x", "Cartn_y", "Cartn_z", "occupancy",
           "B_iso_or_equiv", "pdbx_formal_charge", "auth_seq_id", "auth_comp_id", "auth_asym_id", "auth_atom_id",
           "pdbx_PDB_model_num"]
CIF_OPTIONAL = ["label_entity_id", "pdbx_formal_charge", "auth_seq_id", "auth_comp_id", "auth_asym_id", "auth_atom_id",
                "pdbx_PDB_ins_code", "label_alt_id"]
CIF_EXTRA = ["Cartn_x_esd", "occupancy_esd", "calc_flag", "footnote_id"]


def _cif_tok(v):
    """a value as archive files spell it: no value = '.' / '?', a prime needs double quotes"""
    if v == "":
        return "?"
    return f'"{v}"' if "'" in v else v


def gen_foreign(rng, n):
    """one entry in both archive formats, as other programs write them (not pyTME's own layout):
    PDB - HEADER / REMARK / CRYST1 / ANISOU / TER / CONECT / MASTER records around the atoms, names aligned by the
    element rule (column 14 for one-letter elements), right-justified residue names and elements, TER records
    consuming serial numbers, optionally right-trimmed lines;
    mmCIF - data_ header, key-value categories, a text field between semicolons, other loops before and after
    atom_site, atom_site columns in the archive's order (optionally permuted, optional ones missing, extra ones
    present), primed names in double quotes, '.' / '?' for no value, label_seq_id '.' for HETATM, optionally rows
    broken over two lines, aligned or single-blank separated.
    Returns (rows the files state [fields of the cross-format clause], pdb text, cif text, description)."""
    atoms = gen_atoms(rng, n, "wf")
    hetero_from = n if rng.random() < 0.4 else int(rng.integers(1, n + 1))
    for i, a in enumerate(atoms):
        for k in ("chain", "alt", "ins"):          # legal unquoted tokens only (a leading # _ ; $ means something in CIF)
            if a[k] in SPECIAL_CH:
                a[k] = "A"
        a["alt"], a["ins"], a["charge"] = noval(a["alt"]), noval(a["ins"]), noval(a["charge"])
        if a["charge"] not in ("", "1+", "2-"):
            a["charge"] = ""
        a["record"] = "ATOM" if i < hetero_from else "HETATM"
        a["resSeq"] = max(a["resSeq"], -99) if a["resSeq"] < 0 else a["resSeq"]
        for k in "xyz":
            a[k] = float(f"{np.float32(a[k]):.3f}")
        a["occ"], a["b"] = float(f"{a['occ']:.2f}"), float(f"{a['b']:.2f}")
        a["seg"] = ""
    desc = {"trim": bool(rng.random() < 0.4), "permute": bool(rng.random() < 0.3), "broken_rows": bool(rng.random() < 0.3),
            "aligned": bool(rng.random() < 0.6), "n": n, "hetero_from": hetero_from,
            # occupancy / B-factor left blank ('?' in mmCIF) for one atom or for all: both readers then set the whole
            # column to 0 ("field typing and defaults")
            "no_occ": [None, None, None, None, None, "one", "all"][int(rng.integers(0, 7))],
            # an entry with two models (NMR style): MODEL / ENDMDL records in the PDB file, pdbx_PDB_model_num in the mmCIF file;
            # both readers return the atoms of all models
            "models": 2 if (n >= 2 and rng.random() < 0.3) else 1,
            "drop": [str(x) for x in CIF_OPTIONAL if rng.random() < 0.25],
            "extra": [str(x) for x in CIF_EXTRA if rng.random() < 0.3]}
    # ---- PDB
    L = ["HEADER    TEST ENTRY                              01-JAN-00   XXXX",
         "TITLE     GENERATED ENTRY",
         "REMARK   2 RESOLUTION.    3.20 ANGSTROMS.",
         "REMARK   3   NUMBER OF NON-HYDROGEN ATOMS USED IN REFINEMENT.",
         "REMARK   3   PROTEIN ATOMS            : %d" % n,
         "CRYST1  100.000  100.000  100.000  90.00  90.00  90.00 P 1           1"]
    serial = 0
    blank = set(range(n)) if desc["no_occ"] == "all" else {int(rng.integers(0, n))} if desc["no_occ"] == "one" else set()
    if desc["models"] == 2:
        L.append("MODEL        1")
    for i, a in enumerate(atoms):
        if desc["models"] == 2 and i == n // 2:
            L += ["ENDMDL", "MODEL        2"]
        serial += 1
        a["serial_pdb"] = serial
        name = a["name"]
        name4 = name if (len(name) == 4 or len(a["elem"]) == 2) else " " + name
        line = (f"{a['record']:<6}{serial:>5} {name4:<4}{a['alt'] or ' '}{a['resName']:>3} {a['chain']}{a['resSeq']:>4}"
                f"{a['ins'] or ' '}   {a['x']:8.3f}{a['y']:8.3f}{a['z']:8.3f}"
                + (" " * 12 if i in blank else f"{a['occ']:6.2f}{a['b']:6.2f}") + f"          {a['elem']:>2}{a['charge']:>2}")
        assert len(line) == 80
        L.append(line.rstrip() if desc["trim"] else line)
        if rng.random() < 0.3:
            L.append(f"ANISOU{serial:>5} {name4:<4}{a['alt'] or ' '}{a['resName']:>3} {a['chain']}{a['resSeq']:>4}{a['ins'] or ' '} "
                     f"   2406   1892   1614    198    519   -328      {a['elem']:>2}{a['charge']:>2}")
        if i == hetero_from - 1 or (i < n - 1 and rng.random() < 0.15):
            serial += 1
            L.append(f"TER   {serial:>5}      {a['resName']:>3} {a['chain']}{a['resSeq']:>4}{a['ins'] or ' '}")
    if desc["models"] == 2:
        L.append("ENDMDL")
    L += ["CONECT    1    2", "MASTER        0    0    0    0    0    0    0    6 %4d    1    0    0" % n, "END"]
    pdb_text = "\n".join(L) + "\n"
    # ---- mmCIF
    cols = [c for c in CIF_STD if c not in desc["drop"]]
    for e in desc["extra"]:
        cols.insert(int(rng.integers(0, len(cols) + 1)), e)
    if desc["permute"]:
        cols = [cols[int(k)] for k in rng.permutation(len(cols))]
    rows = []
    for i, a in enumerate(atoms):
        het = a["record"] == "HETATM"
        v = {"group_PDB": a["record"], "id": str(i + 1), "type_symbol": _cif_tok(a["elem"]), "label_atom_id": _cif_tok(a["name"]),
             "label_alt_id": a["alt"] or ".", "label_comp_id": _cif_tok(a["resName"]), "label_asym_id": a["chain"],
             "label_entity_id": "1", "label_seq_id": "." if het else str(a["resSeq"]), "pdbx_PDB_ins_code": a["ins"] or "?",
             "Cartn_x": f"{a['x']:.3f}", "Cartn_y": f"{a['y']:.3f}", "Cartn_z": f"{a['z']:.3f}", "occupancy": "?" if i in blank else f"{a['occ']:.2f}",
             "B_iso_or_equiv": "?" if i in blank else f"{a['b']:.2f}", "pdbx_formal_charge": a["charge"] or "?", "auth_seq_id": str(a["resSeq"]),
             "auth_comp_id": _cif_tok(a["resName"]), "auth_asym_id": a["chain"], "auth_atom_id": _cif_tok(a["name"]),
             "pdbx_PDB_model_num": "2" if (desc["models"] == 2 and i >= n // 2) else "1", "Cartn_x_esd": "?", "occupancy_esd": "?", "calc_flag": ".", "footnote_id": "?"}
        rows.append([v[c] for c in cols])
    width = [max(len(r[j]) for r in rows) for j in range(len(cols))]
    body = []
    for r in rows:
        toks = [t.ljust(width[j]) for j, t in enumerate(r)] if desc["aligned"] else list(r)
        if desc["broken_rows"] and len(toks) > 2 and rng.random() < 0.7:
            k = int(rng.integers(1, len(toks)))
            body += [" ".join(toks[:k]).rstrip() + " ", " ".join(toks[k:]) + " "]
        else:
            body.append(" ".join(toks) + " ")
    C = ["data_XXXX", "# ", "_entry.id   XXXX ", "# ", "_cell.entry_id           XXXX ", "_cell.length_a           100.000 ",
         "_cell.angle_alpha        90.00 ", "# ", "loop_", "_audit_author.name ", "_audit_author.pdbx_ordinal ",
         "'Doe, J.'  1 ", "'Roe, R.'  2 ", "# ", "_struct.entry_id   XXXX ", "_struct.title ",
         ";A generated entry", "with a title over two lines", ";", "# ", "loop_", "_atom_type.symbol ", "C ", "N ", "O ", "# ",
         "loop_"] + [f"_atom_site.{c} " for c in cols] + body + \
        ["# ", "loop_", "_pdbx_poly_seq_scheme.asym_id ", "_pdbx_poly_seq_scheme.seq_id ", "A 1 ", "A 2 ", "# "]
    cif_text = "\n".join(C) + "\n"
    stated = [{k: a[k] for k in ("name", "resName", "elem", "x", "y", "z", "occ", "b")} for a in atoms]
    if blank:
        for r in stated:
            r["occ"] = r["b"] = 0.0
    return stated, pdb_text, cif_text, desc


def check_foreign(ctx, real, d, stated, pdb_text, cif_text, desc=None, label="foreign"):
    """the same entry read from its PDB and its mmCIF file (files not written by pyTME) yields the same atoms; the
    structures read from them round-trip through both writers (the mmCIF one re-uses the foreign file)"""
    inp = {"kind": "foreign", "pdb": pdb_text, "cif": cif_text, "stated": stated, "layout": desc}
    p_pdb, p_cif = real.put("pdb", pdb_text), real.put("cif", cif_text)
    s_p, a_p = real.read(p_pdb, keep_non_atom_records=True)
    s_c, a_c = real.read(p_cif, keep_non_atom_records=True)
    if d is not None:
        for fmt, a, text in (("pdb", a_p, pdb_text), ("cif", a_c, cif_text)):
            m = d.call("c09.loadPdb" if fmt == "pdb" else "c09.loadCif", text=text)
            ctx.agree("archive-style " + ("_load_pdb table" if fmt == "pdb" else "_load_mmcif table"), dict(inp, read=fmt),
                      "err:Raised" if isinstance(a, str) else canon_read(a, m), m)
    spec_cross(ctx, inp, a_p, a_c, "foreign")
    if stated is not None:
        spec_cross(ctx, dict(inp, against="the atoms the PDB file states"), a_p, stated, "foreign")
        spec_cross(ctx, dict(inp, against="the atoms the mmCIF file states"), stated, a_c, "foreign")
    for src, s, a, text in (("pdb", s_p, a_p, pdb_text), ("cif", s_c, a_c, cif_text)):
        if isinstance(a, str) or not a:
            continue
        for out in ("pdb", "cif"):
            if not all(fits(x, {out}) for x in a):
                ctx.count(f"{label}:outside-quantifier(agree-only)")
                continue
            sub = dict(inp, read=src, write=out)
            q, t_out, exc = real.write(s, out)
            if isinstance(t_out, str) and t_out.startswith("err:"):
                ctx.spec("write/read preserves atoms", sub, False, {"outcome": "writer raised " + str(exc)}, key=f"{out}-roundtrip:raised")
                continue
            if d is not None:
                if out == "pdb":
                    mt = d.call("c09.writePdb", atoms=to_model(a))
                    if mt != "err:Unrepresentable":
                        ctx.agree("_write_pdb text", sub, t_out, mt)
                else:
                    mt = d.call("c09.writeCif", atoms=to_model(a), orig=text)
                    ctx.agree("_write_mmcif atom_site text (archive-style original)", sub, atom_site_block(t_out), mt)
            _, back = real.read(q, keep_non_atom_records=True)
            spec_roundtrip(ctx, sub, a, back, out, out)
            ctx.count(f"{label}:{src}->{out}")
    if desc:
        for k in ("trim", "permute", "broken_rows", "aligned", "no_occ"):
            ctx.count(f"{label}:{k}={desc[k]}")
        ctx.distinct(("foreign", desc["n"], desc["hetero_from"], desc["permute"], desc["broken_rows"], tuple(desc["drop"]), stated[0]["name"]))
    return p_pdb, p_cif


def run(ctx, search_mode=False):
    real = Real()
    d = ctx.driver
    rng = ctx.rng("search" if search_mode else "main")
    if not search_mode:
        extract_obligations(ctx, real)

    # ---- unit streams: quoting and tokenising
    if not search_mode:
        alphabet = list("ACO15'\"'. ?_#;") + ["''", "\t"]
        reqs, keep = [], []
        from tme.structure import _format_string
        from tme.parser import MMCIFParser
        for i in range(ctx.budget(300, 3000)):
            s = "".join(rng.choice(alphabet) for _ in range(int(rng.integers(0, 6))))
            reqs.append(("c09.formatString", {"s": s}))
            keep.append(("f", s))
            ln = " ".join("".join(rng.choice(alphabet) for _ in range(int(rng.integers(0, 5)))) for _ in range(int(rng.integers(1, 6))))
            reqs.append(("c09.splitLine", {"s": ln}))
            keep.append(("s", ln))
        for (k, s), m in zip(keep, d.batch(reqs)):
            if k == "f":
                ctx.agree("_format_string", {"s": s}, _format_string(s), m)
                ctx.count("format:" + ("empty" if not s.strip() else "blank-inside" if " " in s else "one-prime" if s.count("'") == 1 else "plain"))
            else:
                ctx.agree("_split_line", {"line": s}, MMCIFParser._split_line(s), m)

    # ---- the same file name written again with another structure: what is read back is what was written last.
    # write 0: a structure; write 1: the same atoms in reverse order (a file of exactly the same size and name);
    # write 2, 3: other structures.  What was read back is written once more under a second fixed name and read
    # (the mmCIF writer looks at the file the structure came from, which keeps changing under the same name).
    for rep in range(ctx.budget(2, 10)):
        for fmt in ("pdb", "cif"):
            fixed = os.path.join(real.dir, f"model_{rep}.{fmt}")
            base = []
            for k in range(4):
                if k == 1 and len(base) > 1:
                    atoms = [dict(a) for a in reversed(base)]
                else:
                    atoms = [a for a in gen_atoms(rng, int(rng.choice([2, 5, 9])), "wf") if fits(a, {"pdb", "cif"})]
                if k == 0:
                    base = atoms
                if not atoms:
                    continue
                s_ = make_struct(atoms)
                inp = {"same_path_rewritten": k, "write": fmt, "atoms": atoms, "kind": "same-path"}
                text, exc = real.write_to(s_, fixed)
                if text == "err:Raised":
                    ctx.spec("write/read preserves atoms", inp, False, exc, key=f"{fmt}-roundtrip:raised")
                    continue
                s_back, back = real.read(fixed, keep_non_atom_records=True)
                spec_roundtrip(ctx, inp, struct_atoms(s_), back, fmt, fmt)
                ctx.count("same-path-rewritten:" + fmt)
                ctx.distinct(("rewrite", rep, fmt, k))
                if isinstance(back, str) or not back:
                    continue
                fmt2 = ("cif", "pdb")[(rep + k) % 2]
                copy = os.path.join(real.dir, f"copy_{rep}.{fmt2}")
                text2, exc = real.write_to(s_back, copy)
                if text2 == "err:Raised":
                    ctx.spec("write/read preserves atoms", dict(inp, then=fmt2), False, exc, key=f"{fmt2}-roundtrip:raised")
                    continue
                if not search_mode and fmt2 == "cif":
                    mt = d.call("c09.writeCif", atoms=to_model(back), orig=text)
                    ctx.agree("_write_mmcif atom_site text (fixed file names)", dict(inp, then=fmt2), atom_site_block(text2), mt)
                _, back2 = real.read(copy, keep_non_atom_records=True)
                spec_roundtrip(ctx, dict(inp, then=fmt2), back, back2, fmt2, fmt2)
                ctx.count(f"same-path-rewritten:{fmt}->copy.{fmt2}")

    # ---- file names: extension in any case, dots elsewhere in the name / directory, unsupported extensions
    for rep in range(ctx.budget(1, 4)):
        for j, (name, fmt) in enumerate(NAME_VARIANTS):
            atoms = [a for a in gen_atoms(rng, int(rng.choice([1, 3, 6])), "wf") if fits(a, {"pdb", "cif"})]
            if atoms:
                check_file_name(ctx, real, None if search_mode else d, atoms, name, fmt, form=gen_form(rng) if j % 2 else None)

    # ---- the file a structure was read from is deleted / emptied / replaced before the structure is written again
    for i in range(ctx.budget(16, 80)):
        n = int(rng.choice([1, 2, 4, 7]))
        mode = ["deleted", "replaced", "replaced-other", "emptied"][i % 4]
        atoms_a, atoms_b = gen_atoms(rng, n, "wf"), gen_atoms(rng, n if i % 3 else n + 1, "wf")
        if mode == "replaced" or i % 2:
            for k, a in enumerate(atoms_a):
                a["serial"] = k + 1
            for k, a in enumerate(atoms_b):
                a["serial"] = k + 1
        if all(fits(a, {"pdb", "cif"}) for a in atoms_a + atoms_b):
            check_original_changed(ctx, real, None if search_mode else d, atoms_a, atoms_b, mode, "cif" if i % 5 else "pdb")

    # ---- entries in the archive's own layouts (files not written by pyTME), both formats of the same entry
    for i in range(ctx.budget(24, 150)):
        stated, pdb_text, cif_text, desc = gen_foreign(rng, int(rng.choice([1, 2, 4, 9, 17])))
        p_pdb, p_cif = check_foreign(ctx, real, None if search_mode else d, stated, pdb_text, cif_text, desc)
        if i % 5 == 0 and not search_mode:
            check_filters(ctx, real, d, p_cif if i % 2 else p_pdb, cif_text if i % 2 else pdb_text, rng, 3, "foreign",
                          defaulted=("occ", "b") if desc["no_occ"] == "one" else None)

    # ---- generated structures through every writer x reader chain
    n_struct = ctx.budget(150, 900)
    paths2 = [("pdb", "pdb"), ("pdb", "cif"), ("cif", "pdb"), ("cif", "cif")]
    paths3 = [("cif", "cif", "cif"), ("pdb", "cif", "cif"), ("cif", "cif", "pdb"), ("cif", "pdb", "cif"), ("pdb", "pdb", "cif")]
    for i in range(n_struct):
        mode = ["wf", "wf", "dense", "pdbread", "wf", "malformed"][i % 6] if not search_mode else ["wf", "dense", "pdbread"][i % 3]
        n = int(rng.choice([1, 2, 3, 5, 8, 14]))
        atoms = gen_atoms(rng, n, mode)
        ctx.count(f"gen:mode={mode}")
        ctx.count(f"gen:natoms={n}")
        ctx.count("gen:serials=" + ("1..n" if [a["serial"] for a in atoms] == list(range(1, n + 1)) else
                                    "duplicated" if len({a["serial"] for a in atoms}) < n else "other"))
        if any("'" in a["name"] for a in atoms):
            ctx.count("gen:has-primed-name")
        if any(a["alt"] == "" or a["ins"] == "" or a["charge"] == "" for a in atoms):
            ctx.count("gen:has-empty-optional-field")
        if any(a["resSeq"] < 0 for a in atoms):
            ctx.count("gen:has-negative-resseq")
        trivial = n == 1 and mode == "wf" and atoms[0]["alt"] == atoms[0]["ins"] == ""
        # every third structure: other dtypes / memory layouts / python lists handed to Structure; every seventh:
        # the file read is removed before the structure is written again
        form = gen_form(rng) if i % 3 == 1 else None
        if form:
            for k, v in form.items():
                ctx.count(f"gen:form:{k}={v}")
        for path in paths2 + [paths3[i % len(paths3)]]:
            run_chain(ctx, real, atoms, path, d=None if search_mode else d, spec=mode != "malformed", label="gen",
                      tag=None if (trivial or mode == "malformed") else ("chain", i, path), form=form, orig_gone=i % 7 == 3)
        # same entry written in both formats
        if mode != "malformed" and all(fits(a, {"pdb", "cif"}) for a in atoms):
            s = make_struct(atoms, form=form)
            p1, t1, _ = real.write(s, "pdb")
            p2, t2, _ = real.write(s, "cif")
            _, a1 = real.read(p1, keep_non_atom_records=True)
            _, a2 = real.read(p2, keep_non_atom_records=True)
            spec_cross(ctx, {"atoms": atoms, "kind": "cross", "form": form}, a1, a2, "generated")
            if not trivial:
                ctx.distinct(("cross", i))
            if i % 5 == 0 and not search_mode:
                check_filters(ctx, real, d, p1 if i % 2 else p2, t1 if i % 2 else t2, rng, 5, "gen")
        if i < 3:
            ctx.sample({"atoms": atoms[:2], "n_atoms": n, "mode": mode, "paths": [list(p) for p in paths2]})

    # ---- mmCIF only: coordinates below -999.999 have no PDB representation but must survive cif -> cif
    for i in range(ctx.budget(10, 100)):
        atoms = gen_atoms(rng, int(rng.integers(1, 6)), "wf", cif_only=True)
        run_chain(ctx, real, atoms, ("cif", "cif"), d=None if search_mode else d, label="cif-only", tag=("cifonly", i))

    # ---- coordinates changed after reading (what transforms do) must be written, whatever the source format
    for i in range(ctx.budget(8, 60)):
        n = int(rng.integers(1, 7))
        atoms = gen_atoms(rng, n, "wf")
        if i % 2 == 0:
            for k, a in enumerate(atoms):
                a["serial"] = k + 1
        xyz = [[gen_coord(rng), gen_coord(rng), gen_coord(rng)] for _ in range(n)]
        path = [("cif", "cif"), ("cif", "pdb"), ("pdb", "cif"), ("pdb", "pdb")][i % 4]
        run_chain(ctx, real, atoms, path, d=None if search_mode else d, label="moved-after-read", edit=(1, "xyz", xyz),
                  tag=("moved", i))

    # ---- known classes (recorded defects): edits of a CIF-read structure; '"' inside a name
    for i in range(ctx.budget(4, 20)):
        n = int(rng.integers(2, 6))
        atoms = gen_atoms(rng, n, "wf")
        for k, a in enumerate(atoms):
            a["serial"] = k + 1
        fld = ["occ", "b", "name", "resName"][i % 4]
        vals = {"occ": [0.25] * n, "b": [77.5] * n, "name": ["XE"] * n, "resName": ["UNK"] * n}[fld]
        run_chain(ctx, real, atoms, ("cif", "cif"), d=None if search_mode else d, label="edit-after-cif-read", edit=(1, fld, vals))
        atoms = gen_atoms(rng, n, "wf")
        atoms[0]["name"] = gen_name(rng, dq=True)
        run_chain(ctx, real, atoms, ("cif",), d=None if search_mode else d, label="double-quote-name")
        run_chain(ctx, real, atoms, ("pdb",), d=None if search_mode else d, label="double-quote-name")

    # ---- large structures: every serial width up to 99999 through the fixed columns; many loop rows
    # (the list-based model is quadratic in the number of mmCIF rows, hence the smaller mmCIF size)
    if not search_mode:
        for nbig, path in ((ctx.budget(3000, 99999), ("pdb", "pdb")), (ctx.budget(1500, 6000), ("pdb", "cif", "cif"))):
            big = gen_atoms(rng, 40, "wf")
            atoms = []
            for k in range(nbig):
                a = dict(big[k % 40])
                a["serial"] = k + 1
                a["resSeq"] = (k // 8) % 10000
                a["x"] = ((k * 37) % 19999) / 2.0 - 999.0
                atoms.append(a)
            run_chain(ctx, real, atoms, path, d=d, label="large", tag=("large", nbig, path))
            ctx.count(f"large:natoms={nbig}:{'->'.join(path)}")

    # ---- more than 10 000 atoms through both formats on the real code only (the model is quadratic in the rows)
    if not search_mode:
        nbig = ctx.budget(10240, 30000)
        big = gen_atoms(rng, 40, "wf")
        atoms = []
        for k in range(nbig):
            a = dict(big[k % 40])
            a["serial"] = k + 1
            a["resSeq"] = (k // 8) % 10000
            a["y"] = ((k * 53) % 19999) / 2.0 - 999.0
            atoms.append(a)
        if all(fits(a, {"pdb", "cif"}) for a in atoms):
            run_chain(ctx, real, atoms, ("cif", "cif", "pdb"), d=None, label="large-real-only", tag=("large-real-only", nbig))

    # ---- bundled entries
    if not search_mode or True:
        for pdb, cif in BUNDLED:
            texts = {}
            reads = {}
            for f in (pdb, cif):
                path = bundled(f)
                if not os.path.exists(path) or os.path.getsize(path) == 0:
                    ctx.note(f"bundled {f} missing/emptied: skipped")
                    continue
                texts[f] = open(path).read()
                fmt = "pdb" if f.endswith(".pdb") else "cif"
                s, a = real.read(path, keep_non_atom_records=True)
                reads[f] = (s, a)
                if not search_mode:
                    m = d.call("c09.loadPdb" if fmt == "pdb" else "c09.loadCif", text=texts[f])
                    ctx.agree("bundled " + ("_load_pdb" if fmt == "pdb" else "_load_mmcif"), {"file": f},
                              "err:Raised" if isinstance(a, str) else canon_read(a, m), m)
                if isinstance(a, str):
                    ctx.spec("bundled entry loads", {"file": f}, False, a, key="bundled:raised")
                    continue
                # write in both formats and read back (structure read from the *other* format included)
                for out in ("pdb", "cif"):
                    inp = {"file": f, "write": out}
                    inside = all(fits(x, {out}) for x in a)
                    p, text, _ = real.write(s, out)
                    if not search_mode:
                        if out == "pdb":
                            mt = d.call("c09.writePdb", atoms=to_model(a))
                            ctx.agree("bundled _write_pdb text", inp, text, mt)
                        else:
                            mt = d.call("c09.writeCif", atoms=to_model(a), orig=texts[f])
                            ctx.agree("bundled _write_mmcif atom_site text", inp, atom_site_block(text), mt)
                    _, back = real.read(p, keep_non_atom_records=True)
                    if inside:
                        spec_roundtrip(ctx, inp, a, back, out, out)
                        ctx.distinct(("bundled", f, out))
                    ctx.count(f"bundled:{f}->{out}")
                if not search_mode:
                    check_filters(ctx, real, d, path, texts[f], rng, ctx.budget(6, 30), "bundled")
            if pdb in reads and cif in reads and not isinstance(reads[pdb][1], str) and not isinstance(reads[cif][1], str):
                spec_cross(ctx, {"files": [pdb, cif]}, reads[pdb][1], reads[cif][1], "bundled")
                ctx.distinct(("cross", pdb, cif))
        if not search_mode:
            ctx.sample({"bundled": [list(b) for b in BUNDLED]})


def search(ctx):
    """correspondence / obligation broke without a failing clause: widen the stream (denser layouts, more
    structures, all paths) and evaluate the property on the real code only."""
    old = ctx.tier
    try:
        ctx.tier = "thorough"
        run(ctx, search_mode=True)
    finally:
        ctx.tier = old


def replay(ctx, rec):
    """re-evaluate a recorded failing input against the real code (and the model)"""
    real = Real()
    inp = rec.get("input", {})
    kind = inp.get("kind")
    if kind == "file-name":
        check_file_name(ctx, real, ctx.driver, inp["atoms"], inp["name"], inp["fmt"], form=inp.get("form"), label="replay")
    elif kind == "orig-changed":
        check_original_changed(ctx, real, ctx.driver, inp["atoms"], inp["other"], inp["mode"], inp["write"], label="replay")
    elif kind == "foreign":
        check_foreign(ctx, real, ctx.driver, inp.get("stated"), inp["pdb"], inp["cif"], None, label="replay")
    elif kind == "same-path" or "filter_by_elements" in inp or inp.get("after_filtered_reads"):
        run(ctx)     # a sequence in one process: re-run the stream that produced it
    elif "atoms" in inp and "path" in inp:
        e = inp.get("edit")
        run_chain(ctx, real, inp["atoms"], tuple(inp["path"]), d=ctx.driver, label="replay", edit=tuple(e) if e else None,
                  form=inp.get("form"), orig_gone=bool(inp.get("orig_gone")))
    elif "atoms" in inp:
        s = make_struct(inp["atoms"], form=inp.get("form"))
        p1, _, _ = real.write(s, "pdb")
        p2, _, _ = real.write(s, "cif")
        _, a1 = real.read(p1, keep_non_atom_records=True)
        _, a2 = real.read(p2, keep_non_atom_records=True)
        spec_cross(ctx, inp, a1, a2, "replay")
    else:
        run(ctx)
