"""C09 — atomic structures round-trip through PDB and mmCIF and the two formats agree.

Leg B: the real `Structure.to_file` / `Structure.from_file` of the repo against the Lean model
(Model/C09.lean) — file text for the writers, typed atom tables for the readers — plus the
property's clauses evaluated on the implementation's own outputs (independent of the model).
The PDB column table is extracted from the source on every run by *probing* the real writer
and reader and compared with the constants the theorems are about."""
import os
import re

import numpy as np

from .. import env

ID = "C09"
RULE = ("generated structures inside the fixed-width PDB limits (1-14 atoms, names with primes, negative residue "
        "numbers, empty/'.'/'?' optional fields, full-width values in every column, one large structure), written and "
        "re-read through every writer x reader chain of length 2 and sampled chains of length 3 (incl. re-writing a "
        "CIF-read structure, which re-uses the original file); the bundled entries 1pdj / 5khe; filter sets; a smaller "
        "malformed stream (over-wide fields, blanks, quotes) compared with the model only. distinct = distinct "
        "(structure, conversion path) pairs and (file, filter) pairs; single-atom all-default structures are not counted")
ASSUMPTIONS = [
    "'representable in fixed-width PDB columns' is taken literally: coordinates in [-999.999, 9999.999] (%8.3f), "
    "occupancy / B in [-99.99, 999.99] (%6.2f), serial -9999..99999, one-character chain / alt-loc / insertion code, "
    "fields without white space, record type ATOM or HETATM; outside it only model==implementation is compared",
    "float -> decimal (f'{x:.3f}') and decimal -> float (float(), numpy astype) are CPython's / numpy's: numbers "
    "enter the model as validated decimal text and are compared as text at the written precision",
    "Python int() underscore grouping, float() exponents/inf/nan and non-ASCII white space are not modelled (never generated)",
]
TRUSTED = ["C09: CPython string formatting / float parsing and numpy string->number casts are exercised, not modelled"]

STR_FIELDS = ["record", "name", "alt", "resName", "chain", "ins", "seg", "elem", "charge"]
ATTR = {"record": "record_type", "serial": "atom_serial_number", "name": "atom_name",
        "alt": "alternate_location_indicator", "resName": "residue_name", "chain": "chain_identifier",
        "resSeq": "residue_sequence_number", "ins": "code_for_residue_insertion", "occ": "occupancy",
        "b": "temperature_factor", "seg": "segment_identifier", "elem": "element_symbol", "charge": "charge"}
# clauses of the property: which fields must survive a write/read
EXACT = ["record", "serial", "name", "resName", "chain", "resSeq", "elem", "alt", "ins", "charge"]
CROSS = ["name", "resName", "elem"]
BUNDLED = [("1pdj.pdb", "1pdj.cif"), ("5khe.pdb", "5khe.cif")]


# ------------------------------------------------------------------ conversions
def dec(v, k):
    s = f"{float(v):.{k}f}"
    neg = s.startswith("-")
    ip, _, fr = s.lstrip("-").partition(".")
    return {"n": neg, "i": int(ip), "f": [int(c) for c in fr]}


def dec_text(d):
    return ("-" if d["n"] else "") + str(d["i"]) + ("." + "".join(map(str, d["f"])) if d["f"] else "")


def struct_atoms(s):
    """python-native rows of a real Structure"""
    out = []
    n = s.atom_coordinate.shape[0]
    for i in range(n):
        a = {k: str(getattr(s, ATTR[k])[i]) for k in STR_FIELDS}
        a["serial"] = int(s.atom_serial_number[i])
        a["resSeq"] = int(s.residue_sequence_number[i])
        a["x"], a["y"], a["z"] = (float(v) for v in s.atom_coordinate[i])
        a["occ"] = float(s.occupancy[i])
        a["b"] = float(s.temperature_factor[i])
        out.append(a)
    return out


def make_struct(atoms, metadata=None):
    from tme import Structure
    kw = {ATTR[k]: np.array([a[k] for a in atoms], dtype=str) for k in STR_FIELDS}
    kw["atom_serial_number"] = np.array([a["serial"] for a in atoms], dtype=int)
    kw["residue_sequence_number"] = np.array([a["resSeq"] for a in atoms], dtype=int)
    kw["atom_coordinate"] = np.array([[a["x"], a["y"], a["z"]] for a in atoms], dtype=np.float32).reshape(len(atoms), 3)
    kw["occupancy"] = np.array([a["occ"] for a in atoms], dtype=float)
    kw["temperature_factor"] = np.array([a["b"] for a in atoms], dtype=float)
    return Structure(**kw, metadata=dict(metadata or {}))


def to_model(atoms):
    """what the writers see: text fields as they are, numbers rounded by CPython to the written precision"""
    out = []
    for a in atoms:
        m = {k: a[k] for k in STR_FIELDS}
        m["serial"], m["resSeq"] = a["serial"], a["resSeq"]
        # the real writer formats the float32 coordinate
        for k in "xyz":
            m[k] = dec(np.float32(a[k]), 3)
        m["occ"], m["b"] = dec(a["occ"], 2), dec(a["b"], 2)
        out.append(m)
    return out


def canon_read(real_atoms, model_atoms):
    """real read-back rows in the model's vocabulary (decimals at the model's precision)"""
    out = []
    for i, a in enumerate(real_atoms):
        m = model_atoms[i] if isinstance(model_atoms, list) and i < len(model_atoms) else None
        c = {k: a[k] for k in STR_FIELDS}
        c["serial"], c["resSeq"] = a["serial"], a["resSeq"]
        for k, dflt in (("x", 3), ("y", 3), ("z", 3), ("occ", 2), ("b", 2)):
            c[k] = dec(a[k], len(m[k]["f"]) if m else dflt)
        out.append(c)
    return out


def noval(s):
    return "" if s in ("", ".", "?") else s


# ------------------------------------------------------------------ real code
class Real:
    def __init__(self):
        from tme import Structure
        self.S = Structure
        self.dir = os.path.join(env.scratch(), "c09")
        os.makedirs(self.dir, exist_ok=True)
        self.n = 0

    def path(self, fmt):
        self.n += 1
        return os.path.join(self.dir, f"s{self.n}.{fmt}")

    def write(self, s, fmt):
        p = self.path(fmt)
        try:
            import warnings
            with warnings.catch_warnings():
                warnings.simplefilter("ignore")
                s.to_file(p)
        except Exception as e:
            return p, "err:Raised", type(e).__name__
        return p, open(p).read(), None

    def read(self, p, **kw):
        import contextlib
        import io
        try:
            with contextlib.redirect_stdout(io.StringIO()):
                s = self.S.from_file(p, **kw)
            return s, struct_atoms(s)
        except Exception as e:
            return None, "err:Raised:" + type(e).__name__


def atom_site_block(text):
    """the `atom_site` loop of an mmCIF text as `_write_mmcif` lays it out (other categories dropped)"""
    if not isinstance(text, str):
        return text
    m = re.search(r"(?s)#\nloop_\n_atom_site\..*?(?=#\n|\Z)", text)
    return m.group(0) if m else None


# ------------------------------------------------------------------ quantifier of the property
def fits(a, fmts):
    """inside 'representable in fixed-width PDB columns' (see ASSUMPTIONS)"""
    def clean(s):
        return s == s.strip() and not re.search(r"\s", s) and all(32 < ord(c) < 127 for c in s)
    ok = a["record"] in ("ATOM", "HETATM")
    ok &= -9999 <= a["serial"] <= 99999 and -999 <= a["resSeq"] <= 9999
    ok &= all(clean(a[k]) for k in STR_FIELDS)
    ok &= 1 <= len(a["name"]) <= 4 and 1 <= len(a["resName"]) <= 3 and len(a["chain"]) == 1
    ok &= len(a["alt"]) <= 1 and len(a["ins"]) <= 1 and len(a["elem"]) <= 2 and len(a["charge"]) <= 2 and len(a["seg"]) <= 2
    ok &= all(len(f"{np.float32(a[k]):.3f}") <= 8 for k in "xyz")
    ok &= all(len(f"{a[k]:.2f}") <= 6 for k in ("occ", "b"))
    if "cif" in fmts:
        # tokens of a loop row: nothing the tokenizer treats specially at the start of a line
        ok &= not a["record"].startswith(("_", "#", ";", "loop_", "data_"))
    return bool(ok)


def classify(a_in, field, fmt_w, edited):
    """stable key of a failing class (component:condition)"""
    if fmt_w == "cif" and field == "name" and '"' in a_in["name"]:
        return "mmcif:double-quote-in-name"
    if fmt_w == "cif" and edited and field in edited and field not in ("x", "y", "z"):
        return "mmcif-rewrite:edited-field-lost"
    return f"{fmt_w}-roundtrip:{field}"


def spec_roundtrip(ctx, inp, a_in, a_out, fmt_w, fmt_r, edited=None):
    """the round-trip clause of the property on the implementation's own output"""
    clause = "write/read preserves atoms"
    if isinstance(a_out, str):
        ctx.spec(clause, inp, False, {"outcome": a_out}, key=f"{fmt_w}-roundtrip:raised")
        return False
    if len(a_out) != len(a_in):
        ctx.spec(clause, inp, False, {"n_in": len(a_in), "n_out": len(a_out)}, key=f"{fmt_w}-roundtrip:atom-count")
        return False
    bad = {}
    for i, (p, q) in enumerate(zip(a_in, a_out)):
        for f in EXACT:
            u, v = p[f], q[f]
            if isinstance(u, str):
                u, v = noval(u), noval(v)
            if u != v:
                bad.setdefault(classify(p, f, fmt_w, edited), (i, f, p[f], q[f]))
        for f, tol in (("x", 1e-3), ("y", 1e-3), ("z", 1e-3), ("occ", 1e-2), ("b", 1e-2)):
            ref = float(np.float32(p[f])) if f in "xyz" else p[f]
            if not abs(ref - q[f]) <= tol * (1 + 1e-6) + 1e-9:
                bad.setdefault(classify(p, f, fmt_w, edited), (i, f, p[f], q[f]))
    if not bad:
        ctx.spec(clause, inp, True)
        return True
    for key, (i, f, u, v) in bad.items():
        ctx.spec(clause, inp, False, {"atom": i, "field": f, "written": u, "read": v, "path": f"{fmt_w}->{fmt_r}"}, key=key)
    return False


def spec_cross(ctx, inp, a_pdb, a_cif, what):
    clause = "PDB and mmCIF of the same entry give the same atoms"
    if isinstance(a_pdb, str) or isinstance(a_cif, str):
        return ctx.spec(clause, inp, False, {"pdb": a_pdb if isinstance(a_pdb, str) else "ok",
                                             "cif": a_cif if isinstance(a_cif, str) else "ok"}, key="cross-format:raised")
    if len(a_pdb) != len(a_cif):
        return ctx.spec(clause, inp, False, {"n_pdb": len(a_pdb), "n_cif": len(a_cif)}, key="cross-format:atom-count")
    for i, (p, q) in enumerate(zip(a_pdb, a_cif)):
        for f in CROSS:
            if noval(p[f]) != noval(q[f]):
                return ctx.spec(clause, inp, False, {"atom": i, "field": f, "pdb": p[f], "cif": q[f]}, key=f"cross-format:{f}")
        for f, tol in (("x", 1e-3), ("y", 1e-3), ("z", 1e-3), ("occ", 1e-2), ("b", 1e-2)):
            if not abs(p[f] - q[f]) <= tol * (1 + 1e-6) + 1e-9:
                return ctx.spec(clause, inp, False, {"atom": i, "field": f, "pdb": p[f], "cif": q[f]}, key=f"cross-format:{f}")
    return ctx.spec(clause, inp, True)


# ------------------------------------------------------------------ generators
NAME_CH = list("ABCDEFGHNOPSXZ") + list("0123456789") + ["'", "'", "*"]
ELEMS = ["C", "N", "O", "S", "P", "H", "FE", "ZN", "MG", "SE", "CA", "Cl", ""]
RES = ["GLY", "ALA", "HIS", "HOH", "A", "DA", "U", "SO4", "MSE", "0AB"]
OPT = ["", ".", "?", "A", "B", "1"]
CHARGE = ["", ".", "?", "1+", "2-", "-1", "1", "+"]


def gen_coord(rng, cif_only=False):
    r = rng.random()
    if r < 0.15:
        return float(rng.choice([0.0, -0.0004, 0.0005, 9999.999, -999.999, 999.9995, -0.0005, 1234.5675, 0.001, -999.9994]))
    if cif_only and r < 0.35:
        return float(-rng.uniform(1000, 9999.999))
    scale = float(rng.choice([1, 10, 100, 1000]))
    v = float(rng.uniform(-scale, scale))
    if rng.random() < 0.2:
        v = abs(v) * 9.99
    if rng.random() < 0.3:
        v = round(v, int(rng.integers(0, 4)))
    return max(v, -999.999)


def gen_name(rng, dq=False):
    n = int(rng.choice([1, 2, 3, 4, 4]))
    s = "".join(rng.choice(NAME_CH) for _ in range(n))
    if dq:
        k = int(rng.integers(0, len(s) + 1))
        s = (s[:k] + '"' + s[k:])[:4]
        if '"' not in s:
            s = s[:3] + '"'
    return s


def gen_atoms(rng, n, mode="wf", cif_only=False):
    """mode: wf (inside the quantifier), dense (every column filled to its width), pdbread (what the PDB
    reader produces: empty optional fields), malformed"""
    seq = rng.random() < 0.55
    start = 1 if seq else None
    serials = list(range(1, n + 1)) if seq else [int(x) for x in rng.choice(np.arange(1, 100000), size=n, replace=False)]
    if not seq and rng.random() < 0.15:
        serials[int(rng.integers(0, n))] = int(rng.choice([0, -1, -9999, 99999]))
    if not seq and n > 1 and rng.random() < 0.3:
        serials = [int(x) for x in rng.permutation(n) + 1]
    atoms = []
    for i in range(n):
        if mode == "dense":
            a = {"record": "HETATM" if rng.random() < 0.6 else "ATOM",
                 "name": "".join(rng.choice(NAME_CH) for _ in range(4)), "alt": str(rng.choice(list("ABCXYZ12"))),
                 "resName": "".join(rng.choice(list("ABCDEFGHIJKLMNOPQRSTUVWXYZ0123456789")) for _ in range(3)),
                 "chain": str(rng.choice(list("ABCDEFGHXYZabc019"))), "ins": str(rng.choice(list("ABCDEPQR"))),
                 "seg": str(rng.choice(["S1", "AB", "7Z"])), "elem": str(rng.choice(["FE", "ZN", "Cl", "MG", "XX"])),
                 "charge": str(rng.choice(["1+", "2-", "-1", "+2", "3+"])),
                 "serial": int(rng.integers(10000, 100000)), "resSeq": int(rng.choice([-999, 9999, int(rng.integers(1000, 10000)), -int(rng.integers(100, 1000))])),
                 "x": float(rng.choice([-1, 1])) * float(rng.uniform(100, 999.9)), "y": float(rng.uniform(1000, 9999.9)),
                 "z": -float(rng.uniform(100, 999.9)), "occ": float(rng.uniform(100, 999.9)), "b": -float(rng.uniform(10, 99.9))}
        else:
            a = {"record": "ATOM" if rng.random() < 0.7 else "HETATM", "name": gen_name(rng),
                 "alt": str(rng.choice(OPT)), "resName": str(rng.choice(RES)) if rng.random() < 0.8 else gen_name(rng)[:3],
                 "chain": str(rng.choice(list("ABCDEFab12"))), "ins": str(rng.choice(OPT)),
                 "seg": str(rng.choice(["", "1", "S1"])), "elem": str(rng.choice(ELEMS)), "charge": str(rng.choice(CHARGE)),
                 "serial": serials[i], "resSeq": int(rng.choice([int(rng.integers(-999, 10000)), int(rng.integers(1, 300)), 0, -1, -999, 9999])),
                 "x": gen_coord(rng, cif_only), "y": gen_coord(rng, cif_only), "z": gen_coord(rng, cif_only),
                 "occ": float(rng.choice([1.0, 0.5, 0.0, round(float(rng.uniform(0, 1)), 2), float(rng.uniform(0, 1)), 999.99, -99.99])),
                 "b": float(rng.choice([0.0, round(float(rng.uniform(0, 200)), 2), float(rng.uniform(0, 999.99)), 999.99, -1.5]))}
            if mode == "pdbread":
                a["alt"] = a["ins"] = a["charge"] = a["seg"] = ""
        if mode != "dense":
            a["serial"] = serials[i]
        elif seq:
            a["serial"] = serials[i]
        atoms.append(a)
    if mode == "malformed":
        for _ in range(int(rng.integers(1, 3))):
            a = atoms[int(rng.integers(0, n))]
            k = int(rng.integers(0, 11))
            if k == 0:
                a["name"] = gen_name(rng) + "XY"           # over-wide: columns shift
            elif k == 1:
                a["serial"] = int(rng.integers(100000, 2000000))
            elif k == 2:
                a["x"] = -float(rng.uniform(1000, 99999))
            elif k == 3:
                a["name"] = str(rng.choice(["C A", " CA", "CA ", "O 1'"]))
            elif k == 4:
                a["chain"] = str(rng.choice(["AB", "", "XYZ"]))
            elif k == 5:
                a["resName"] = str(rng.choice(["", " ", "ABCD", "A B"]))
            elif k == 6:
                a["name"] = gen_name(rng, dq=True)
            elif k == 7:
                a["occ"] = float(rng.choice([1000.0, -100.0, 12345.678]))
            elif k == 8:
                a["record"] = str(rng.choice(["ANISOU", "ATOMS", "HETATMX", "atom", ""]))
            elif k == 9:
                a["charge"] = str(rng.choice(["+1e", " 1", "'", "''"]))
            else:
                a["resSeq"] = int(rng.choice([-1000, 10000, 123456]))
    return atoms


# ------------------------------------------------------------------ one conversion chain
def run_chain(ctx, real, atoms, path, d=None, spec=True, label="gen", edit=None, tag=None):
    """atoms --write path[0]--> file --read--> atoms1 --write path[1]--> ...
    Correspondence on every file text and every table read back; property clauses on the real outputs.
    edit = (step, field, values): overwrite a field of the structure read at `step` before writing it again."""
    inp0 = {"atoms": atoms, "path": list(path), "edit": edit, "kind": label}
    s = make_struct(atoms)
    cur_atoms = atoms
    orig_text = None
    ok_all = True
    for step, fmt in enumerate(path):
        inp = dict(inp0, step=step)
        edited = None
        if edit and edit[0] == step:
            if edit[1] == "xyz":     # what a rigid transform does: new coordinates, everything else untouched
                s.atom_coordinate = np.array(edit[2], dtype=np.float32).reshape(len(cur_atoms), 3)
                edited = {"x", "y", "z"}
            else:
                setattr(s, ATTR[edit[1]], np.array(edit[2], dtype=str if edit[1] in STR_FIELDS else float))
                edited = {edit[1]}
            cur_atoms = struct_atoms(s)
        inside = all(fits(a, {fmt}) for a in cur_atoms)
        p, text, _exc = real.write(s, fmt)
        if d is not None:
            if fmt == "pdb":
                m_text = d.call("c09.writePdb", atoms=to_model(cur_atoms))
                if m_text == "err:Unrepresentable":
                    ctx.count(f"{label}:pdb-item-assignment-of-multichar(not modelled)")
                else:
                    ctx.agree("_write_pdb text", inp, text, m_text)
            else:
                m_text = d.call("c09.writeCif", atoms=to_model(cur_atoms), orig=orig_text)
                ctx.agree("_write_mmcif atom_site text", inp, text if orig_text is None else atom_site_block(text), m_text)
        if isinstance(text, str) and text.startswith("err:"):
            if spec and inside:
                ctx.spec("write/read preserves atoms", inp, False, {"outcome": "writer raised " + str(_exc)}, key=f"{fmt}-roundtrip:raised")
                ok_all = False
            ctx.count(f"{label}:write-raised")
            break
        s2, a2 = real.read(p, keep_non_atom_records=True)
        if d is not None:
            m2 = d.call("c09.loadPdb" if fmt == "pdb" else "c09.loadCif", text=text)
            impl = "err:Raised" if isinstance(a2, str) else canon_read(a2, m2)
            ctx.agree("_load_pdb table" if fmt == "pdb" else "_load_mmcif table", inp, impl, m2)
        if spec and inside:
            if orig_text is not None and fmt == "cif":
                ctx.count(f"{label}:cif-written-from-file-read-structure")
            ok_all &= spec_roundtrip(ctx, inp, cur_atoms, a2, fmt, fmt, edited)
        elif not inside:
            ctx.count(f"{label}:outside-quantifier(agree-only)")
        ctx.count(f"{label}:step{step}:{fmt}")
        if isinstance(a2, str):
            break
        if not a2:
            ctx.count(f"{label}:nothing-read(chain stops; empty structures are not written)")
            break
        s, cur_atoms = s2, a2
        orig_text = text
    if tag is not None:
        ctx.distinct(tag)
    return ok_all


# ------------------------------------------------------------------ column tables by probing
PROBE = {"record": "HETATM", "serial": 12345, "name": "QRST", "alt": "U", "resName": "VWX", "chain": "Y", "resSeq": 6789,
         "ins": "Z", "x": -111.125, "y": 2222.25, "z": -333.375, "occ": 444.5, "b": -55.75, "seg": "abcd", "elem": "ef",
         "charge": "gh"}
PROBE_TEXT = {"record": "HETATM", "serial": "12345", "name": "QRST", "alt": "U", "resName": "VWX", "chain": "Y",
              "resSeq": "6789", "ins": "Z", "x": "-111.125", "y": "2222.250", "z": "-333.375", "occ": "444.50",
              "b": "-55.75", "seg": "abcd", "elem": "ef", "charge": "gh"}
FID = {"record": "record_type", "serial": "atom_serial_number", "name": "atom_name", "alt": "alternate_location_indicator",
       "resName": "residue_name", "chain": "chain_identifier", "resSeq": "residue_sequence_number",
       "ins": "code_for_residue_insertion", "x": "x", "y": "y", "z": "z", "occ": "occupancy", "b": "temperature_factor",
       "seg": "segment_identifier", "elem": "element_symbol", "charge": "charge"}


def probe_tables(real):
    """(writer columns, reader columns, line width) of the PDB code, found by running it:
    writer: where each full-width marker value lands; reader: which field each column feeds."""
    s = make_struct([dict(PROBE)])
    p, text, _ = real.write(s, "pdb")
    line = text.split("\n")[0]
    writer = []
    for k, v in PROBE_TEXT.items():
        pos = [m.start() for m in re.finditer(re.escape(v), line)]
        if len(pos) != 1:
            raise RuntimeError(f"marker {v!r} of {k} found {len(pos)}x in {line!r}")
        writer.append([FID[k], pos[0], pos[0] + len(v)])
    # reader: overwrite one column at a time with another digit (every field of the base line is full width,
    # so the line stays parseable) and see which field moves; a line that is no longer read moves "record"
    base = line
    hits = {}
    _, ref = _read_line(real, base)
    if isinstance(ref, str) or len(ref) != 1:
        raise RuntimeError(f"reader does not read the probe line: {ref!r}")
    for i in range(len(base)):
        repl = "7" if base[i] != "7" else "8"
        _, got = _read_line(real, base[:i] + repl + base[i + 1:])
        if isinstance(got, str) or len(got) != 1:
            hits.setdefault("record", []).append(i)
            continue
        for k in FID:
            gv, rv = got[0][k], ref[0][k]
            if gv != rv:
                hits.setdefault(k, []).append(i)
    reader = []
    for k in FID:
        cols = hits.get(k, [])
        if not cols or cols != list(range(cols[0], cols[-1] + 1)):
            raise RuntimeError(f"reader columns of {k} not contiguous: {cols}")
        reader.append([FID[k], cols[0], cols[-1] + 1])
    return writer, reader, len(line)


def _read_line(real, line):
    p = real.path("pdb")
    with open(p, "w") as f:
        f.write(line + "\nEND")
    return real.read(p, keep_non_atom_records=True)


def extract_obligations(ctx, real):
    cols = ctx.driver.call("c09.cols")
    try:
        writer, reader, width = probe_tables(real)
    except Exception as e:
        ctx.obligation("pdb-column-table", False, {"probe failed": repr(e)})
        return
    ctx.obligation("pdb-writer-columns", writer == cols["writer"], {"source": writer, "model": cols["writer"]})
    ctx.obligation("pdb-reader-columns", reader == cols["reader"], {"source": reader, "model": cols["reader"]})
    ctx.obligation("pdb-line-width", width == cols["width"], {"source": width, "model": cols["width"]})
    # mmCIF: the names the writer emits, and the names the reader maps, taken from the running code
    s = make_struct([dict(PROBE, alt="", ins="", charge="")])
    _, text, _ = real.write(s, "cif")
    names = re.findall(r"(?m)^_atom_site\.(\S+)\s*$", text if isinstance(text, str) else "")
    ctx.obligation("mmcif-column-names", names == cols["cifNames"], {"source": names, "model": cols["cifNames"]})
    ctx.extra["extracted_tables"] = {"pdb_writer": writer, "pdb_reader": reader, "mmcif_names": names}


# ------------------------------------------------------------------ main
def bundled(name):
    return os.path.join(env.REPO, "tests", "data", "Structures", name)


def check_filters(ctx, real, d, path, text, rng, nsets, label):
    """element / residue / record filters keep exactly the matching atoms (in order)"""
    fmt = "pdb" if path.lower().endswith(".pdb") else "cif"
    _, full = real.read(path, keep_non_atom_records=True)
    if isinstance(full, str):
        return
    m_full = d.call("c09.loadPdb" if fmt == "pdb" else "c09.loadCif", text=text)
    elems = sorted({a["elem"] for a in full})
    ress = sorted({a["resName"] for a in full})
    def near(names):
        """names that are *not* in the file but close to one that is: longer (a present name is a prefix: 'C' -> 'CA',
        'G' -> 'GLY'), shorter (a prefix of a present name), other case"""
        out = set()
        for n in names:
            if not n:
                continue
            out.update({n + "A", n + "L", n + n[-1], n.lower(), n[:-1]})
            out.update({n + "LY", n + "LA"} if len(n) == 1 else set())
        return sorted(x for x in out if x and x not in names and x.strip() == x)
    near_e, near_r = near(elems), near(ress)
    for j in range(nsets):
        keep = bool(rng.random() < 0.5)
        es = set() if rng.random() < 0.3 else set(str(x) for x in rng.choice(elems + ["XX"] + near_e, size=int(rng.integers(1, 3))))
        rs = set() if rng.random() < 0.3 else set(str(x) for x in rng.choice(ress + ["ZZZ"] + near_r, size=int(rng.integers(1, 4))))
        if j == 1 and near_e:
            es, rs = {near_e[int(rng.integers(len(near_e)))]}, set()
        if j == 2 and near_r:
            es, rs = set(), {near_r[int(rng.integers(len(near_r)))], ress[int(rng.integers(len(ress)))]}
        if j == 0:
            keep, es, rs = False, set(), set()
        inp = {"file": os.path.basename(path) if label == "bundled" else text, "keep_non_atom_records": keep,
               "filter_by_elements": sorted(es), "filter_by_residues": sorted(rs)}
        _, got = real.read(path, keep_non_atom_records=keep, filter_by_elements=es or None, filter_by_residues=rs or None)
        if isinstance(m_full, list):
            m = d.call("c09.filter", atoms=m_full, keepNonAtom=keep, elems=sorted(es), resNames=sorted(rs))
            ctx.agree("from_file filters", inp, "err:Raised" if isinstance(got, str) else canon_read(got, m), m)
        want = [a for a in full if (not es or a["elem"] in es) and (not rs or a["resName"] in rs)
                and (keep or a["record"] == "ATOM")]
        if isinstance(got, str):
            # numpy cannot build an empty selection of some arrays: only a violation when atoms should remain
            ok = not want
        else:
            ok = got == want
        ctx.spec("filters keep exactly the matching atoms", inp, ok,
                 None if ok else {"kept": len(got) if not isinstance(got, str) else got, "expected": len(want)},
                 key="filter:" + ("record" if not es and not rs else "element" if not rs else "residue" if not es else "both"))
        ctx.count(f"filter:{label}:" + ("none" if not es and not rs else "elem" if not rs else "res" if not es else "both"))
        if want and len(want) < len(full):
            ctx.distinct(("filter", os.path.basename(path) if label == "bundled" else hash(text), keep, tuple(sorted(es)), tuple(sorted(rs))))


def run(ctx, search_mode=False):
    real = Real()
    d = ctx.driver
    rng = ctx.rng("search" if search_mode else "main")
    if not search_mode:
        extract_obligations(ctx, real)

    # ---- unit streams: quoting and tokenising
    if not search_mode:
        alphabet = list("ACO15'\"'. ?_#;") + ["''", "\t"]
        reqs, keep = [], []
        from tme.structure import _format_string
        from tme.parser import MMCIFParser
        for i in range(ctx.budget(300, 3000)):
            s = "".join(rng.choice(alphabet) for _ in range(int(rng.integers(0, 6))))
            reqs.append(("c09.formatString", {"s": s}))
            keep.append(("f", s))
            ln = " ".join("".join(rng.choice(alphabet) for _ in range(int(rng.integers(0, 5)))) for _ in range(int(rng.integers(1, 6))))
            reqs.append(("c09.splitLine", {"s": ln}))
            keep.append(("s", ln))
        for (k, s), m in zip(keep, d.batch(reqs)):
            if k == "f":
                ctx.agree("_format_string", {"s": s}, _format_string(s), m)
                ctx.count("format:" + ("empty" if not s.strip() else "blank-inside" if " " in s else "one-prime" if s.count("'") == 1 else "plain"))
            else:
                ctx.agree("_split_line", {"line": s}, MMCIFParser._split_line(s), m)

    # ---- the same file name written again with another structure: what is read back is what was written last
    for rep in range(ctx.budget(2, 10)):
        for fmt in ("pdb", "cif"):
            fixed = os.path.join(real.dir, f"model_{rep}.{fmt}")
            for k in range(3):
                atoms = [a for a in gen_atoms(rng, int(rng.choice([2, 5, 9])), "wf") if fits(a, {fmt})]
                if not atoms:
                    continue
                s_ = make_struct(atoms)
                try:
                    import warnings
                    with warnings.catch_warnings():
                        warnings.simplefilter("ignore")
                        s_.to_file(fixed)
                except Exception as e:  # noqa
                    ctx.spec("write/read preserves atoms", {"same_path": True, "write": fmt, "atoms": atoms}, False, type(e).__name__, key=f"{fmt}-roundtrip:raised")
                    continue
                _, back = real.read(fixed, keep_non_atom_records=True)
                spec_roundtrip(ctx, {"same_path_rewritten": k, "write": fmt, "atoms": atoms}, struct_atoms(s_), back, fmt, fmt)
                ctx.count("same-path-rewritten:" + fmt)
                ctx.distinct(("rewrite", rep, fmt, k))

    # ---- generated structures through every writer x reader chain
    n_struct = ctx.budget(150, 900)
    paths2 = [("pdb", "pdb"), ("pdb", "cif"), ("cif", "pdb"), ("cif", "cif")]
    paths3 = [("cif", "cif", "cif"), ("pdb", "cif", "cif"), ("cif", "cif", "pdb"), ("cif", "pdb", "cif"), ("pdb", "pdb", "cif")]
    for i in range(n_struct):
        mode = ["wf", "wf", "dense", "pdbread", "wf", "malformed"][i % 6] if not search_mode else ["wf", "dense", "pdbread"][i % 3]
        n = int(rng.choice([1, 2, 3, 5, 8, 14]))
        atoms = gen_atoms(rng, n, mode)
        ctx.count(f"gen:mode={mode}")
        ctx.count(f"gen:natoms={n}")
        ctx.count("gen:serials=" + ("1..n" if [a["serial"] for a in atoms] == list(range(1, n + 1)) else "other"))
        if any("'" in a["name"] for a in atoms):
            ctx.count("gen:has-primed-name")
        if any(a["alt"] == "" or a["ins"] == "" or a["charge"] == "" for a in atoms):
            ctx.count("gen:has-empty-optional-field")
        if any(a["resSeq"] < 0 for a in atoms):
            ctx.count("gen:has-negative-resseq")
        trivial = n == 1 and mode == "wf" and atoms[0]["alt"] == atoms[0]["ins"] == ""
        for path in paths2 + [paths3[i % len(paths3)]]:
            run_chain(ctx, real, atoms, path, d=None if search_mode else d, spec=mode != "malformed", label="gen",
                      tag=None if (trivial or mode == "malformed") else ("chain", i, path))
        # same entry written in both formats
        if mode != "malformed" and all(fits(a, {"pdb", "cif"}) for a in atoms):
            s = make_struct(atoms)
            p1, t1, _ = real.write(s, "pdb")
            p2, t2, _ = real.write(s, "cif")
            _, a1 = real.read(p1, keep_non_atom_records=True)
            _, a2 = real.read(p2, keep_non_atom_records=True)
            spec_cross(ctx, {"atoms": atoms, "kind": "cross"}, a1, a2, "generated")
            if not trivial:
                ctx.distinct(("cross", i))
            if i % 5 == 0 and not search_mode:
                check_filters(ctx, real, d, p1 if i % 2 else p2, t1 if i % 2 else t2, rng, 3, "gen")
        if i < 3:
            ctx.sample({"atoms": atoms[:2], "n_atoms": n, "mode": mode, "paths": [list(p) for p in paths2]})

    # ---- mmCIF only: coordinates below -999.999 have no PDB representation but must survive cif -> cif
    for i in range(ctx.budget(10, 100)):
        atoms = gen_atoms(rng, int(rng.integers(1, 6)), "wf", cif_only=True)
        run_chain(ctx, real, atoms, ("cif", "cif"), d=None if search_mode else d, label="cif-only", tag=("cifonly", i))

    # ---- coordinates changed after reading (what transforms do) must be written, whatever the source format
    for i in range(ctx.budget(8, 60)):
        n = int(rng.integers(1, 7))
        atoms = gen_atoms(rng, n, "wf")
        if i % 2 == 0:
            for k, a in enumerate(atoms):
                a["serial"] = k + 1
        xyz = [[gen_coord(rng), gen_coord(rng), gen_coord(rng)] for _ in range(n)]
        path = [("cif", "cif"), ("cif", "pdb"), ("pdb", "cif"), ("pdb", "pdb")][i % 4]
        run_chain(ctx, real, atoms, path, d=None if search_mode else d, label="moved-after-read", edit=(1, "xyz", xyz),
                  tag=("moved", i))

    # ---- known classes (recorded defects): edits of a CIF-read structure; '"' inside a name
    for i in range(ctx.budget(4, 20)):
        n = int(rng.integers(2, 6))
        atoms = gen_atoms(rng, n, "wf")
        for k, a in enumerate(atoms):
            a["serial"] = k + 1
        fld = ["occ", "b", "name", "resName"][i % 4]
        vals = {"occ": [0.25] * n, "b": [77.5] * n, "name": ["XE"] * n, "resName": ["UNK"] * n}[fld]
        run_chain(ctx, real, atoms, ("cif", "cif"), d=None if search_mode else d, label="edit-after-cif-read", edit=(1, fld, vals))
        atoms = gen_atoms(rng, n, "wf")
        atoms[0]["name"] = gen_name(rng, dq=True)
        run_chain(ctx, real, atoms, ("cif",), d=None if search_mode else d, label="double-quote-name")
        run_chain(ctx, real, atoms, ("pdb",), d=None if search_mode else d, label="double-quote-name")

    # ---- large structures: every serial width up to 99999 through the fixed columns; many loop rows
    # (the list-based model is quadratic in the number of mmCIF rows, hence the smaller mmCIF size)
    if not search_mode:
        for nbig, path in ((ctx.budget(3000, 99999), ("pdb", "pdb")), (ctx.budget(1500, 6000), ("pdb", "cif", "cif"))):
            big = gen_atoms(rng, 40, "wf")
            atoms = []
            for k in range(nbig):
                a = dict(big[k % 40])
                a["serial"] = k + 1
                a["resSeq"] = (k // 8) % 10000
                a["x"] = ((k * 37) % 19999) / 2.0 - 999.0
                atoms.append(a)
            run_chain(ctx, real, atoms, path, d=d, label="large", tag=("large", nbig, path))
            ctx.count(f"large:natoms={nbig}:{'->'.join(path)}")

    # ---- bundled entries
    if not search_mode or True:
        for pdb, cif in BUNDLED:
            texts = {}
            reads = {}
            for f in (pdb, cif):
                path = bundled(f)
                if not os.path.exists(path) or os.path.getsize(path) == 0:
                    ctx.note(f"bundled {f} missing/emptied: skipped")
                    continue
                texts[f] = open(path).read()
                fmt = "pdb" if f.endswith(".pdb") else "cif"
                s, a = real.read(path, keep_non_atom_records=True)
                reads[f] = (s, a)
                if not search_mode:
                    m = d.call("c09.loadPdb" if fmt == "pdb" else "c09.loadCif", text=texts[f])
                    ctx.agree("bundled " + ("_load_pdb" if fmt == "pdb" else "_load_mmcif"), {"file": f},
                              "err:Raised" if isinstance(a, str) else canon_read(a, m), m)
                if isinstance(a, str):
                    ctx.spec("bundled entry loads", {"file": f}, False, a, key="bundled:raised")
                    continue
                # write in both formats and read back (structure read from the *other* format included)
                for out in ("pdb", "cif"):
                    inp = {"file": f, "write": out}
                    inside = all(fits(x, {out}) for x in a)
                    p, text, _ = real.write(s, out)
                    if not search_mode:
                        if out == "pdb":
                            mt = d.call("c09.writePdb", atoms=to_model(a))
                            ctx.agree("bundled _write_pdb text", inp, text, mt)
                        else:
                            mt = d.call("c09.writeCif", atoms=to_model(a), orig=texts[f])
                            ctx.agree("bundled _write_mmcif atom_site text", inp, atom_site_block(text), mt)
                    _, back = real.read(p, keep_non_atom_records=True)
                    if inside:
                        spec_roundtrip(ctx, inp, a, back, out, out)
                        ctx.distinct(("bundled", f, out))
                    ctx.count(f"bundled:{f}->{out}")
                if not search_mode:
                    check_filters(ctx, real, d, path, texts[f], rng, ctx.budget(6, 30), "bundled")
            if pdb in reads and cif in reads and not isinstance(reads[pdb][1], str) and not isinstance(reads[cif][1], str):
                spec_cross(ctx, {"files": [pdb, cif]}, reads[pdb][1], reads[cif][1], "bundled")
                ctx.distinct(("cross", pdb, cif))
        if not search_mode:
            ctx.sample({"bundled": [list(b) for b in BUNDLED]})


def search(ctx):
    """correspondence / obligation broke without a failing clause: widen the stream (denser layouts, more
    structures, all paths) and evaluate the property on the real code only."""
    old = ctx.tier
    try:
        ctx.tier = "thorough"
        run(ctx, search_mode=True)
    finally:
        ctx.tier = old


def replay(ctx, rec):
    """re-evaluate a recorded failing input against the real code (and the model)"""
    real = Real()
    inp = rec.get("input", {})
    if "atoms" in inp and "path" in inp:
        e = inp.get("edit")
        run_chain(ctx, real, inp["atoms"], tuple(inp["path"]), d=ctx.driver, label="replay", edit=tuple(e) if e else None)
    elif "atoms" in inp:
        s = make_struct(inp["atoms"])
        p1, _, _ = real.write(s, "pdb")
        p2, _, _ = real.write(s, "cif")
        _, a1 = real.read(p1, keep_non_atom_records=True)
        _, a2 = real.read(p2, keep_non_atom_records=True)
        spec_cross(ctx, inp, a1, a2, "replay")
    else:
        run(ctx)
